"""Helpers of check C12 (nothing of the analysed library is executed).

* `Uniq` - how unique, over parse calls AND over processes, the string built by an expression is:
  STRONG (carries an intact uuid/random value), WEAK (carries only a per-process counter, or a strong value that went
  through a truncating operation such as split/pop/slice, so that its unique part may be gone), NONE (nothing varying).
* `swallows(handler)` - an except clause that lets control go on (does not re-raise on every path).
* `fresh_graph(...)` - an expression that denotes a Graph constructed on the spot with its own store.
"""
from __future__ import annotations

import ast

from .core import norm, own_nodes

STRONG, WEAK, NONE = 2, 1, 0

# sources whose value differs between any two calls in any two processes
STRONG_FULL = {"uuid.uuid4", "uuid.uuid1", "secrets.token_urlsafe", "secrets.token_hex", "secrets.token_bytes", "os.urandom",
               "random.getrandbits", "secrets.randbits", "random.SystemRandom.getrandbits"}
STRONG_LAST = {"uuid4", "uuid1", "token_urlsafe", "token_hex", "token_bytes", "urandom", "getrandbits", "randbits"}
# str methods / functions that keep every character class of their receiver's unique part (or re-encode it one-to-one)
KEEPING_METHODS = {"replace", "lower", "upper", "encode", "decode", "hex", "__str__", "zfill", "title", "capitalize", "swapcase"}
KEEPING_FUNCS = {"str", "repr", "format", "hex", "int", "bytes"}
COMBINING_METHODS = {"format", "join"}


class Uniq:
    def __init__(self, repo, typed):
        self.repo = repo
        self.typed = typed
        self._counters: dict[str, set[str]] = {}

    # -- per-process counters: anything that is the target of `x += <n>` somewhere in the module
    def counters(self, modname: str) -> set[str]:
        if modname not in self._counters:
            mod = self.repo.modules[modname]
            out = set()
            for n in ast.walk(mod.tree):
                if isinstance(n, ast.AugAssign) and isinstance(n.op, ast.Add) and isinstance(n.target, (ast.Name, ast.Attribute)):
                    t = n.target
                    if isinstance(t, ast.Attribute):
                        out.add("." + t.attr)  # receiver-insensitive: self.counter / Formula.number / cls.number
                    else:
                        out.add(t.id)
            self._counters[modname] = out
        return self._counters[modname]

    def _class_of(self, mod, fn):
        q = mod.qual_of(fn)
        while q:
            d = mod.defs.get(q)
            if isinstance(d, ast.ClassDef):
                return q
            q = q.rpartition(".")[0]
        return None

    def _attr_assignments(self, modname, cls_q, attr):
        """values assigned to <first parameter>.<attr> in the methods of the class and of its bases (inside the analysed package)"""
        out = []
        for full in self.typed.mro("%s.%s" % (modname, cls_q)):
            m2n, _, cname = full.rpartition(".")
            m2 = self.repo.modules.get(m2n)
            if m2 is None or not isinstance(m2.defs.get(cname), ast.ClassDef):
                continue
            for meth in m2.defs[cname].body:
                if not isinstance(meth, (ast.FunctionDef, ast.AsyncFunctionDef)) or not meth.args.args:
                    continue
                me = meth.args.args[0].arg
                for n in own_nodes(meth, include_nested=True):
                    if isinstance(n, (ast.Assign, ast.AnnAssign)) and n.value is not None:
                        for t in (n.targets if isinstance(n, ast.Assign) else [n.target]):
                            if isinstance(t, ast.Attribute) and t.attr == attr and isinstance(t.value, ast.Name) and t.value.id == me:
                                out.append((m2n, m2, meth, n.value))
        return out

    def strength(self, e: ast.AST, modname: str, fn: ast.AST, depth: int = 0, seen: frozenset = frozenset()) -> tuple[int, str]:
        """(STRONG|WEAK|NONE, why) for the value of expression `e` evaluated inside function `fn` of module `modname`."""
        mod = self.repo.modules[modname]
        if depth > 6:
            return NONE, "too deep"
        rec = lambda x, f=fn, m=modname: self.strength(x, m, f, depth + 1, seen)  # noqa: E731

        def best(parts):
            rs = [rec(p) for p in parts]
            return max(rs, key=lambda r: r[0]) if rs else (NONE, "empty")

        def worst(rs, what):
            if not rs:
                return NONE, "no binding of %s found" % what
            return min(rs, key=lambda r: r[0])

        if isinstance(e, ast.Constant):
            return NONE, "constant"
        if isinstance(e, ast.JoinedStr):
            return best([v.value for v in e.values if isinstance(v, ast.FormattedValue)])
        if isinstance(e, ast.FormattedValue):
            return rec(e.value)
        if isinstance(e, (ast.Tuple, ast.List)):
            return best(e.elts)
        if isinstance(e, ast.BinOp) and isinstance(e.op, (ast.Add, ast.Mod)):
            return best([e.left, e.right])
        if isinstance(e, ast.IfExp):
            return worst([rec(e.body), rec(e.orelse)], "conditional")
        if isinstance(e, ast.BoolOp):
            return worst([rec(v) for v in e.values], "or/and")
        if isinstance(e, ast.NamedExpr):
            return rec(e.value)
        if isinstance(e, (ast.Subscript, ast.Starred)):
            s, why = rec(e.value)
            return (WEAK, "a part cut out of (%s)" % why) if s else (NONE, why)
        if isinstance(e, ast.Call):
            cal = self.typed.callees(modname, e)
            last = norm(e.func).split(".")[-1]
            if any(c in STRONG_FULL for c in cal) or (not cal and last in STRONG_LAST):
                return STRONG, "%s()" % norm(e.func)
            args = list(e.args) + [k.value for k in e.keywords]
            if isinstance(e.func, ast.Attribute):
                if e.func.attr in COMBINING_METHODS:
                    return best([e.func.value] + args)
                if e.func.attr in KEEPING_METHODS:
                    return rec(e.func.value)
            if isinstance(e.func, ast.Name) and e.func.id in KEEPING_FUNCS and not any(c.startswith("rdflib.") for c in cal):
                return best(args)
            # a function of the analysed package: as unique as the least unique value it returns
            for c in cal:
                m2n, _, fname = c.rpartition(".")
                target = None
                while m2n and target is None:
                    m2 = self.repo.modules.get(m2n)
                    if m2 is not None:
                        q = c[len(m2n) + 1:]
                        if isinstance(m2.defs.get(q), (ast.FunctionDef, ast.AsyncFunctionDef)):
                            target = (m2n, m2.defs[q])
                        break
                    m2n = m2n.rpartition(".")[0]
                if target is None or (c in seen):
                    continue
                rets = [n.value for n in own_nodes(target[1]) if isinstance(n, ast.Return) and n.value is not None]
                rs = [self.strength(r, target[0], target[1], depth + 1, seen | {c}) for r in rets]
                s, why = worst(rs, "return value of %s" % c)
                return s, "%s() returns %s" % (last, why)
            # truncating / unknown call: whatever unique part the receiver had may be gone
            if isinstance(e.func, ast.Attribute):
                s, why = rec(e.func.value)
                if s:
                    return WEAK, "%s() applied to (%s)" % (e.func.attr, why)
            return NONE, "%s(...) is not a known unique source" % norm(e.func)[:40]
        if isinstance(e, ast.Attribute):
            if "." + e.attr in self.counters(modname):
                return WEAK, "%s is a counter of this process (incremented with +=)" % norm(e)
            if e.attr in ("hex", "int", "urn", "bytes"):
                s, why = rec(e.value)
                if s:
                    return s, why
            cls_q = self._class_of(mod, fn)
            first = fn.args.args[0].arg if isinstance(fn, (ast.FunctionDef, ast.AsyncFunctionDef)) and fn.args.args else None
            if cls_q and isinstance(e.value, ast.Name) and e.value.id == first:
                key = "%s.%s.%s" % (modname, cls_q, e.attr)
                if key in seen:
                    return NONE, "cyclic"
                rs = [self.strength(v, m2n, meth, depth + 1, seen | {key}) for (m2n, m2, meth, v) in self._attr_assignments(modname, cls_q, e.attr)]
                s, why = worst(rs, norm(e))
                return s, "%s = %s" % (norm(e), why)
            return NONE, "%s is not an attribute set by this class" % norm(e)
        if isinstance(e, ast.Name):
            if e.id in self.counters(modname):
                return WEAK, "%s is a counter of this process (incremented with +=)" % e.id
            params = set()
            if isinstance(fn, (ast.FunctionDef, ast.AsyncFunctionDef, ast.Lambda)):
                a = fn.args
                params = {x.arg for x in a.posonlyargs + a.args + a.kwonlyargs} | ({a.vararg.arg} if a.vararg else set()) | ({a.kwarg.arg} if a.kwarg else set())
            vals = []
            other = False
            scope_nodes = list(own_nodes(fn, include_nested=True)) if not isinstance(fn, ast.Module) else []
            for n in scope_nodes:
                if isinstance(n, (ast.Assign, ast.AnnAssign)) and n.value is not None:
                    for t in (n.targets if isinstance(n, ast.Assign) else [n.target]):
                        if isinstance(t, ast.Name) and t.id == e.id:
                            vals.append(n.value)
                        elif isinstance(t, (ast.Tuple, ast.List)) and any(isinstance(x, ast.Name) and x.id == e.id for x in ast.walk(t)):
                            other = True
                elif isinstance(n, (ast.For, ast.comprehension)) and any(isinstance(x, ast.Name) and x.id == e.id for x in ast.walk(n.target)):
                    other = True
                elif isinstance(n, ast.withitem) and n.optional_vars is not None and any(isinstance(x, ast.Name) and x.id == e.id for x in ast.walk(n.optional_vars)):
                    other = True
            if other:
                return NONE, "%s is bound by a loop/unpacking" % e.id
            if vals:
                key = "%s:%s:%s" % (modname, mod.qual_of(fn) if not isinstance(fn, ast.Module) else "", e.id)
                if key in seen:
                    return NONE, "cyclic"
                return worst([self.strength(v, modname, fn, depth + 1, seen | {key}) for v in vals], e.id)
            if e.id in params:
                return NONE, "%s is a parameter" % e.id
            # module-level binding
            tops = [n.value for n in mod.tree.body if isinstance(n, (ast.Assign, ast.AnnAssign)) and n.value is not None
                    and any(isinstance(t, ast.Name) and t.id == e.id for t in (n.targets if isinstance(n, ast.Assign) else [n.target]))]
            tops += [n.value for f2 in ast.walk(mod.tree) if isinstance(f2, (ast.FunctionDef, ast.AsyncFunctionDef))
                     and any(isinstance(g, ast.Global) and e.id in g.names for g in own_nodes(f2))
                     for n in own_nodes(f2) if isinstance(n, ast.Assign) and any(isinstance(t, ast.Name) and t.id == e.id for t in n.targets)]
            if tops:
                key = "%s::%s" % (modname, e.id)
                if key in seen:
                    return NONE, "cyclic"
                s, why = worst([self.strength(v, modname, mod.tree, depth + 1, seen | {key}) for v in tops], e.id)
                # a value made once per process is shared by every parse call of the process: on its own it separates processes only
                return s, "module global %s = %s" % (e.id, why)
            return NONE, "%s is not bound to a unique source" % e.id
        return NONE, "%s expression" % type(e).__name__


def always_raises(stmts: list[ast.stmt]) -> bool:
    """every path through the statement list ends in `raise`"""
    if not stmts:
        return False
    last = stmts[-1]
    if isinstance(last, ast.Raise):
        return True
    if isinstance(last, ast.If):
        return bool(last.orelse) and always_raises(last.body) and always_raises(last.orelse)
    if isinstance(last, (ast.With, ast.AsyncWith)):
        return always_raises(last.body)
    if isinstance(last, ast.Try):
        if always_raises(last.finalbody):
            return True
        return always_raises(last.body + last.orelse) and all(always_raises(h.body) for h in last.handlers)
    if isinstance(last, ast.Match):
        return any(isinstance(c.pattern, ast.MatchAs) and c.pattern.pattern is None and c.guard is None for c in last.cases) and all(always_raises(c.body) for c in last.cases)
    return False


def swallows(handler: ast.ExceptHandler) -> bool:
    """the except clause lets the program go on after the exception: pass / continue / break / return / fall through"""
    return not always_raises(handler.body)


def fresh_graph(e: ast.AST, modname: str, fn: ast.AST, typed) -> tuple[bool, str]:
    """`e` denotes a graph that was constructed by this function with its own (default) store: a constructor call of a Graph
    class without positional arguments and without store=, or a local name every binding of which is such a call."""
    def ctor(c):
        if not isinstance(c, ast.Call):
            return False
        cal = typed.callees(modname, c)
        tf = typed.type_of(modname, c)
        is_graph = (any(x.endswith(".__init__") for x in cal) or not cal) and tf is not None and not tf.any and tf.items \
            and all(typed.is_subclass(i, "rdflib.graph.Graph") for i in tf.items)
        if not is_graph:
            return False
        return not c.args and not any(k.arg in (None, "store") for k in c.keywords)
    if ctor(e):
        return True, "constructed on the spot with its own store"
    if isinstance(e, ast.Name) and isinstance(fn, (ast.FunctionDef, ast.AsyncFunctionDef)):
        a = fn.args
        if e.id in {x.arg for x in a.posonlyargs + a.args + a.kwonlyargs}:
            return False, "%s is a parameter: the caller's graph" % e.id
        binds = []
        for n in own_nodes(fn, include_nested=True):
            if isinstance(n, (ast.Assign, ast.AnnAssign)) and n.value is not None:
                for t in (n.targets if isinstance(n, ast.Assign) else [n.target]):
                    if any(isinstance(x, ast.Name) and x.id == e.id for x in ast.walk(t)):
                        binds.append(n.value if isinstance(t, ast.Name) else None)
            elif isinstance(n, (ast.For, ast.comprehension)) and any(isinstance(x, ast.Name) and x.id == e.id for x in ast.walk(n.target)):
                binds.append(None)
            elif isinstance(n, ast.withitem) and n.optional_vars is not None and any(isinstance(x, ast.Name) and x.id == e.id for x in ast.walk(n.optional_vars)):
                binds.append(None)
            elif isinstance(n, ast.NamedExpr) and n.target.id == e.id:
                binds.append(n.value)
        if binds and all(b is not None and ctor(b) for b in binds):
            return True, "every binding of %s is a graph constructed here with its own store" % e.id
        return False, "%s is not (only) a graph constructed here" % e.id
    return False, "%s is not a graph constructed here" % norm(e)[:60]


def _const_flag(d) -> bool:
    return isinstance(d, ast.Constant) and (d.value is None or isinstance(d.value, bool))


def internal_params(repo, typed, mods, attr_flags) -> dict[tuple[str, str, str], str]:
    """Parameters with a constant default (None/False/True) that are NOT caller-supplied options, because the parser package itself
    binds them: some call site inside `mods` passes an argument for the parameter that is neither a constant nor itself an option
    (a still-optional parameter of the calling function, or a self.<attr> option flag).  Fixpoint over pass-through chains
    (`blankNode(uri=self.here(j))` -> `newBlankNode(ctx, uri)` -> `arg.newBlankNode(uri)`).
    Returns {(module, function qualname, parameter): reason}."""
    cand: dict[tuple[str, str], dict[str, object]] = {}
    by_name: dict[str, list[tuple[str, str]]] = {}
    fdefs: dict[tuple[str, str], ast.FunctionDef] = {}
    for name, mod in mods.items():
        for q, f in mod.functions():
            a = f.args
            pos = a.posonlyargs + a.args
            dfl = [None] * (len(pos) - len(a.defaults)) + list(a.defaults)
            ps = {p.arg for p, d in list(zip(pos, dfl)) + list(zip(a.kwonlyargs, a.kw_defaults)) if d is not None and _const_flag(d)}
            fdefs[(name, q)] = f
            by_name.setdefault(f.name, []).append((name, q))
            if ps:
                cand[(name, q)] = ps
    sites = []  # (callee key, param, arg expr, caller key, call)
    for name, mod in mods.items():
        for q, f in mod.functions():
            for c in own_nodes(f):
                if not isinstance(c, ast.Call):
                    continue
                cal = typed.callees(name, c)
                targets: list[tuple[tuple[str, str], bool]] = []  # (key, skip first parameter)
                for full in cal:
                    fulls = typed.overrides(full) if full.rpartition(".")[0] in typed.classes else [full]
                    for t in fulls:
                        for m2n in mods:
                            if t.startswith(m2n + ".") and (m2n, t[len(m2n) + 1:]) in fdefs:
                                key = (m2n, t[len(m2n) + 1:])
                                is_method = isinstance(mods[m2n].defs.get(key[1].rpartition(".")[0]), ast.ClassDef)
                                rtf = typed.type_of(name, c.func.value) if isinstance(c.func, ast.Attribute) else None
                                unbound = rtf is not None and rtf.text.startswith("def ") and not t.endswith(".__init__")
                                targets.append((key, is_method and not unbound))
                if not cal and isinstance(c.func, ast.Attribute):
                    for key in by_name.get(c.func.attr, []):
                        targets.append((key, isinstance(mods[key[0]].defs.get(key[1].rpartition(".")[0]), ast.ClassDef)))
                for key, skip in targets:
                    if key not in cand:
                        continue
                    fd = fdefs[key]
                    pos = [p.arg for p in fd.args.posonlyargs + fd.args.args][(1 if skip else 0):]
                    for i, av in enumerate(c.args):
                        if isinstance(av, ast.Starred):
                            break
                        if i < len(pos):
                            sites.append((key, pos[i], av, (name, q), c))
                    for k in c.keywords:
                        if k.arg is not None:
                            sites.append((key, k.arg, k.value, (name, q), c))
    out: dict[tuple[str, str, str], str] = {}
    changed = True
    while changed:
        changed = False
        for key, p, av, caller, c in sites:
            if p not in cand.get(key, ()) or (key[0], key[1], p) in out:
                continue
            if _const_flag(av):
                continue
            if isinstance(av, ast.Name) and av.id in cand.get(caller, ()) and (caller[0], caller[1], av.id) not in out:
                continue  # passes its own still-optional parameter through
            if isinstance(av, ast.Attribute) and norm(av) in attr_flags.get(caller[0], {}):
                continue
            out[(key[0], key[1], p)] = "%s binds it to %s" % (caller[1], norm(av)[:40])
            changed = True
    return out


# ---------------------------------------------------------------------------------------------------------------------
# C12.g / C12.h: the isomorphism test that "parsing the same document twice gives isomorphic graphs" is stated with
# (rdflib.compare) prunes its search by symmetries; a pruning map may only hold verified symmetries
# ---------------------------------------------------------------------------------------------------------------------
def local_values(fn: ast.AST, name: str) -> list[ast.AST]:
    """every value bound to the local `name` by an assignment of `fn` (for an unpacking assignment: the whole right-hand side)"""
    out = []
    for n in own_nodes(fn):
        if isinstance(n, (ast.Assign, ast.AnnAssign)) and n.value is not None:
            for t in (n.targets if isinstance(n, ast.Assign) else [n.target]):
                if any(isinstance(x, ast.Name) and x.id == name for x in ast.walk(t)) and not isinstance(t, (ast.Subscript, ast.Attribute)):
                    out.append(n.value)
        elif isinstance(n, ast.NamedExpr) and n.target.id == name:
            out.append(n.value)
    return out


def expand(e: ast.AST, fn: ast.AST, depth: int = 4) -> list[ast.AST]:
    """the nodes of `e` together with the nodes of every value assigned in `fn` to a local that `e` reads (def-use closure)"""
    out: list[ast.AST] = []
    seen_names: set[str] = set()
    work = [(e, 0)]
    while work:
        x, d = work.pop()
        for n in ast.walk(x):
            out.append(n)
            if isinstance(n, ast.Name) and isinstance(n.ctx, ast.Load) and n.id not in seen_names and d < depth:
                seen_names.add(n.id)
                for v in local_values(fn, n.id):
                    work.append((v, d + 1))
    return out


def _innermost_loop(mod, node, fn):
    for p in mod.parents(node):
        if isinstance(p, (ast.For, ast.AsyncFor, ast.While)):
            return p
        if p is fn:
            return None
    return None


def pruning_builders(repo, typed, modname: str):
    """[(consumer qualname, continue statement, builder full name, builder call)]: a loop of a function of `modname` skips an
    item (`continue`) under a test that reads - directly or through locals - a mapping produced by a function of the same module."""
    mod = repo.modules[modname]
    out = []
    for q, f in mod.functions():
        for c in own_nodes(f):
            if not isinstance(c, ast.Continue):
                continue
            loop = _innermost_loop(mod, c, f)
            if loop is None:
                continue
            tests = []
            for p in mod.parents(c):
                if p is loop:
                    break
                if isinstance(p, ast.If):
                    tests.append(p.test)
            for t in tests:
                for n in expand(t, f):
                    if not isinstance(n, ast.Call):
                        continue
                    tf = typed.type_of(modname, n)
                    if tf is None or not any(i in ("builtins.dict", "collections.defaultdict", "typing.Mapping", "typing.MutableMapping") for i in tf.items):
                        continue
                    for full in typed.callees(modname, n):
                        if full.startswith(modname + ".") and isinstance(mod.defs.get(full[len(modname) + 1:]), (ast.FunctionDef, ast.AsyncFunctionDef)):
                            if not any(o[2] == full and o[0] == q for o in out):
                                out.append((q, c, full, n))
    return out


def reaches_fn(repo, typed, modname: str, start: ast.AST, target_full: str, depth: int = 2) -> bool:
    """the call `start` resolves to `target_full` or to a function of `modname` that calls it (<= depth levels down)"""
    mod = repo.modules[modname]
    work = [(c, 0) for c in typed.callees(modname, start)]
    seen = set()
    while work:
        full, d = work.pop()
        if full == target_full:
            return True
        if full in seen or d >= depth or not full.startswith(modname + "."):
            continue
        seen.add(full)
        fd = mod.defs.get(full[len(modname) + 1:])
        if isinstance(fd, (ast.FunctionDef, ast.AsyncFunctionDef)):
            for n in own_nodes(fd, include_nested=True):
                if isinstance(n, ast.Call):
                    work.extend((c, d + 1) for c in typed.callees(modname, n))
    return False


def equality_guards(repo, typed, modname: str, fn: ast.AST, target_full: str) -> dict[int, tuple[str, ast.AST]]:
    """{id(If): ('ne'|'eq', If)} for the `if` statements of `fn` that compare (== / !=, possibly under `not`) two DIFFERENT values each
    of which is computed - directly or through locals - by a call that reaches `target_full`"""
    out = {}
    for n in own_nodes(fn):
        if not isinstance(n, ast.If):
            continue
        t, flip = n.test, False
        for _ in range(6):
            if isinstance(t, ast.UnaryOp) and isinstance(t.op, ast.Not):
                t, flip = t.operand, not flip
            elif isinstance(t, ast.Name) and len(local_values(fn, t.id)) == 1:
                t = local_values(fn, t.id)[0]  # `same = a == b` ... `if not same:`
            else:
                break
        if not (isinstance(t, ast.Compare) and len(t.ops) == 1 and isinstance(t.ops[0], (ast.Eq, ast.NotEq))):
            continue
        sides = [t.left, t.comparators[0]]

        def canonical(side):
            return any(isinstance(x, ast.Call) and reaches_fn(repo, typed, modname, x, target_full) for x in expand(side, fn))

        def text(side):
            vs = local_values(fn, side.id) if isinstance(side, ast.Name) else []
            return norm(vs[0]) if len(vs) == 1 and not isinstance(vs[0], ast.Name) else norm(side)
        if not all(canonical(s) for s in sides) or text(sides[0]) == text(sides[1]):
            continue
        ne = isinstance(t.ops[0], ast.NotEq) != flip
        out[id(n)] = ("ne" if ne else "eq", n)
    return out


def reached_without_equality(g, guards: dict[int, str], target: int) -> bool:
    """some path entry -> target leaves every guard test on its 'the two values differ' side (guards: CFG test node -> 'ne'|'eq')"""
    seen: set[int] = set()
    stack = [g.entry]
    while stack:
        n = stack.pop()
        if n in seen:
            continue
        seen.add(n)
        for x in g.succ[n]:
            lab = g.edge_label.get((n, x), "")
            if n in guards:
                differ_side = (lab == "true") if guards[n] == "ne" else (lab != "true")
                if not differ_side:
                    continue
            stack.append(x)
    return target in seen


def mapping_stores(fn: ast.AST) -> list[tuple[ast.AST, str]]:
    """statements of `fn` that write an entry of a mapping which is a parameter of `fn` or which `fn` returns:
    M[k] = v, M[k] op= v, M[k].add/update(...), M.update/setdefault(...)"""
    a = fn.args
    names = {x.arg for x in a.posonlyargs + a.args + a.kwonlyargs}
    for n in own_nodes(fn):
        if isinstance(n, ast.Return) and n.value is not None:
            names |= {x.id for x in ast.walk(n.value) if isinstance(x, ast.Name)}
    if a.posonlyargs + a.args:
        names.discard((a.posonlyargs + a.args)[0].arg if (a.posonlyargs + a.args)[0].arg in ("self", "cls") else None)
    out = []
    for n in own_nodes(fn):
        if isinstance(n, (ast.Assign, ast.AugAssign, ast.AnnAssign)):
            for t in (n.targets if isinstance(n, ast.Assign) else [n.target]):
                if isinstance(t, ast.Subscript) and isinstance(t.value, ast.Name) and t.value.id in names:
                    out.append((n, t.value.id))
        elif isinstance(n, ast.Expr) and isinstance(n.value, ast.Call) and isinstance(n.value.func, ast.Attribute):
            r, meth = n.value.func.value, n.value.func.attr
            if isinstance(r, ast.Subscript) and isinstance(r.value, ast.Name) and r.value.id in names and meth in ("add", "update", "append", "extend", "__ior__"):
                out.append((n, r.value.id))
            elif isinstance(r, ast.Name) and r.id in names and meth in ("update", "setdefault", "__setitem__"):
                out.append((n, r.id))
    return out


# ---------------------------------------------------------------------------------------------------------------------
# C12.i .. C12.l (F306): the search of rdflib.compare for the canonical labelling keeps / drops / chooses branches
# only by values that do not depend on blank-node ids
# ---------------------------------------------------------------------------------------------------------------------
def head_exprs(st: ast.AST) -> list[ast.AST]:
    """the expressions that the CFG node of statement `st` evaluates itself (not the bodies of a compound statement)"""
    if isinstance(st, (ast.If, ast.While)):
        return [st.test]
    if isinstance(st, (ast.For, ast.AsyncFor)):
        return [st.iter, st.target]
    if isinstance(st, (ast.With, ast.AsyncWith)):
        return list(st.items)
    if isinstance(st, (ast.FunctionDef, ast.AsyncFunctionDef, ast.ClassDef, ast.ExceptHandler, ast.Match)):
        return []
    return [st]


def def_value(st: ast.AST, name: str):
    """the expression(s) a binding statement gives to local `name`: Assign/AnnAssign/AugAssign value, for-iterable, with-item"""
    if isinstance(st, ast.Assign):
        return [st.value]
    if isinstance(st, ast.AnnAssign):
        return [st.value] if st.value is not None else []
    if isinstance(st, ast.AugAssign):
        return [st.value, st.target]
    if isinstance(st, (ast.For, ast.AsyncFor)):
        return [st.iter]
    if isinstance(st, (ast.With, ast.AsyncWith)):
        return [i.context_expr for i in st.items]
    out = []
    for n in ast.walk(st):
        if isinstance(n, ast.NamedExpr) and isinstance(n.target, ast.Name) and n.target.id == name:
            out.append(n.value)
    return out


def _comprehension_names(e: ast.AST) -> set[str]:
    out: set[str] = set()
    for n in ast.walk(e):
        if isinstance(n, ast.comprehension):
            out |= {x.id for x in ast.walk(n.target) if isinstance(x, ast.Name)}
        elif isinstance(n, ast.Lambda):
            out |= {a.arg for a in ast.walk(n.args) if isinstance(a, ast.arg)}
    return out


def _resolves_to(typed, modname: str, call: ast.Call, full: str) -> bool:
    cal = typed.callees(modname, call)
    if cal:
        return full in cal
    return isinstance(call.func, ast.Attribute) and call.func.attr == full.rpartition(".")[2]


def individuated_appends(repo, typed, modname: str, individuate_full: str):
    """[(qualname, fn, cfg, append statement, list name)]: `L.append(v)` statements of `modname` where some value of v that reaches the
    statement is the result of a call of `individuate_full`"""
    from .cfg import CFG, reaching_defs
    mod = repo.modules[modname]
    out = []
    for q, f in mod.functions():
        g = None
        for st in own_nodes(f):
            if not (isinstance(st, ast.Expr) and isinstance(st.value, ast.Call) and isinstance(st.value.func, ast.Attribute)
                    and st.value.func.attr in ("append", "insert") and isinstance(st.value.func.value, ast.Name) and st.value.args):
                continue
            v = st.value.args[-1]
            vals = [v]
            if isinstance(v, ast.Name):
                g = g or CFG(f)
                vals = []
                for d in reaching_defs(g, g.node_of(st, mod), v.id):
                    if d != g.entry:
                        vals.extend(def_value(g.nodes[d].ast, v.id))
            if any(isinstance(x, ast.Call) and _resolves_to(typed, modname, x, individuate_full) for x in vals):
                g = g or CFG(f)
                out.append((q, f, g, st, st.value.func.value.id))
    return out


def uses_before_rebinding(g, start: int, name: str) -> list[ast.AST]:
    """the Load occurrences of local `name` in the statements that can execute after CFG node `start` before `name` is bound again
    (the statement that rebinds it included)"""
    from .cfg import _assigned_names
    out = []
    seen: set[int] = set()
    stack = [x for x in g.succ[start] if g.edge_label.get((start, x)) != "exc"]
    while stack:
        n = stack.pop()
        if n in seen:
            continue
        seen.add(n)
        node = g.nodes[n]
        if node.ast is not None:
            for e in head_exprs(node.ast):
                out.extend(x for x in ast.walk(e) if isinstance(x, ast.Name) and x.id == name and isinstance(x.ctx, ast.Load))
            if node.kind != "test" and name in _assigned_names(node.ast):
                continue
        stack.extend(x for x in g.succ[n] if g.edge_label.get((n, x)) != "exc")
    return out


def best_of_tests(mod, fn):
    """[(loop, if statement, score Name node in the test, name of the running best)]: an `if` inside a for loop of `fn` whose test orders
    two locals (< > <= >=) and whose body assigns one of them to the other: `if B is None or S > B: B = S; chosen = ...`"""
    out = []
    for n in own_nodes(fn):
        if not isinstance(n, ast.If):
            continue
        loop = _innermost_loop(mod, n, fn)
        if not isinstance(loop, (ast.For, ast.AsyncFor)):
            continue
        for c in ast.walk(n.test):
            if not (isinstance(c, ast.Compare) and len(c.ops) == 1 and isinstance(c.ops[0], (ast.Lt, ast.Gt, ast.LtE, ast.GtE))
                    and isinstance(c.left, ast.Name) and isinstance(c.comparators[0], ast.Name)):
                continue
            pair = {c.left.id: c.left, c.comparators[0].id: c.comparators[0]}
            if len(pair) != 2:
                continue
            for b in n.body:
                for st in ast.walk(b):
                    if isinstance(st, ast.Assign) and len(st.targets) == 1 and isinstance(st.targets[0], ast.Name) and isinstance(st.value, ast.Name) \
                            and {st.targets[0].id, st.value.id} == set(pair) and not any(o[1] is n for o in out):
                        out.append((loop, n, pair[st.value.id], st.targets[0].id))
    return out


def depends_on_iteration(g, loop: ast.AST, at: int, name: str, _seen=None) -> bool:
    """the value local `name` has at CFG node `at` is computed, inside `loop`, from the loop's target: some binding that reaches `at`
    is the loop head itself, or lies in the loop body and reads - directly or through locals bound in the body - a target name.
    Bindings outside the loop are the same in every iteration and do not count."""
    from .cfg import reaching_defs
    seen = _seen if _seen is not None else set()
    inside = {id(x) for x in ast.walk(loop)}
    targets = {x.id for x in ast.walk(loop.target) if isinstance(x, ast.Name)}
    for d in reaching_defs(g, at, name):
        if d == g.entry or (d, name) in seen:
            continue
        seen.add((d, name))
        st = g.nodes[d].ast
        if st is loop:
            return True
        if id(st) not in inside:
            continue
        for v in def_value(st, name):
            bound = _comprehension_names(v)
            for x in ast.walk(v):
                if isinstance(x, ast.Name) and isinstance(x.ctx, ast.Load) and x.id not in bound:
                    if x.id in targets or depends_on_iteration(g, loop, d, x.id, seen):
                        return True
    return False


class Canonical:
    """`is(e, at)`: expression e, evaluated at CFG node `at` of fn, is a value computed from the canonical triples of a labelling - it
    contains a call that reaches `target_full`, or it is a local every binding of which that reaches `at` is such a value (or None)"""

    def __init__(self, repo, typed, modname: str, fn: ast.AST, g, target_full: str):
        self.repo, self.typed, self.modname, self.fn, self.g, self.target = repo, typed, modname, fn, g, target_full
        a = fn.args
        self.params = {x.arg for x in a.posonlyargs + a.args + a.kwonlyargs} | ({a.vararg.arg} if a.vararg else set()) | ({a.kwarg.arg} if a.kwarg else set())

    def is_(self, e: ast.AST, at: int, _seen=frozenset()) -> bool:
        from .cfg import reaching_defs
        if any(isinstance(x, ast.Call) and reaches_fn(self.repo, self.typed, self.modname, x, self.target) for x in ast.walk(e)):
            return True
        if not isinstance(e, ast.Name):
            return False
        found = False
        for d in reaching_defs(self.g, at, e.id):
            if d == self.g.entry:
                if e.id in self.params:
                    return False
                continue  # not bound yet on that path
            if (d, e.id) in _seen:
                continue
            st = self.g.nodes[d].ast
            if not (isinstance(st, (ast.Assign, ast.AnnAssign)) and st.value is not None
                    and all(isinstance(t, ast.Name) for t in (st.targets if isinstance(st, ast.Assign) else [st.target]))):
                return False
            if isinstance(st.value, ast.Constant) and st.value.value is None:
                continue
            if not self.is_(st.value, d, _seen | {(d, e.id)}):
                return False
            found = True
        return found

    def drop_sides(self, test: ast.AST, at: int) -> set[str]:
        """the outcomes ('true' / 'false') of `test` on which the current branch is known to be no better than one that is kept:
        strictly ordered against it (the true side of < >, the false side of <= >=), or equal to it in its canonical triples (== / != between
        two different canonical values; when both operands of an order test are canonical its tie side is such an equality too)"""
        if isinstance(test, ast.UnaryOp) and isinstance(test.op, ast.Not):
            return {"true" if s == "false" else "false" for s in self.drop_sides(test.operand, at)}
        if isinstance(test, ast.BoolOp):
            sides = [self.drop_sides(v, at) for v in test.values]
            if isinstance(test.op, ast.Or):
                return {"false"} if any("false" in s for s in sides) else set()
            return {"true"} if any("true" in s for s in sides) else set()
        if isinstance(test, ast.Compare) and len(test.ops) == 1:
            l, r, op = test.left, test.comparators[0], test.ops[0]
            if norm(l) == norm(r):
                return set()
            if isinstance(op, (ast.Lt, ast.Gt, ast.LtE, ast.GtE)):
                if not (isinstance(l, ast.Name) and isinstance(r, ast.Name)):
                    return set()
                strict = "true" if isinstance(op, (ast.Lt, ast.Gt)) else "false"
                out = {strict}
                if self.is_(l, at) and self.is_(r, at):
                    out |= {"true", "false"}  # a tie of canonical triples is a tie of the result
                return out
            if isinstance(op, (ast.Eq, ast.NotEq)) and self.is_(l, at) and self.is_(r, at):
                return {"true"} if isinstance(op, ast.Eq) else {"false"}
        return set()


def keep_statements(typed, modname: str, loop: ast.AST, type_re) -> list[ast.AST]:
    """statements in the body of `loop` that store into a local whose type matches type_re: X = ..., X.append/extend/insert(...)"""
    out = []
    for b in loop.body + loop.orelse:
        for st in ast.walk(b):
            tgt = None
            if isinstance(st, (ast.Assign, ast.AnnAssign)) and getattr(st, "value", None) is not None:
                ts = st.targets if isinstance(st, ast.Assign) else [st.target]
                tgt = next((t for t in ts if isinstance(t, ast.Name)), None)
            elif isinstance(st, ast.Expr) and isinstance(st.value, ast.Call) and isinstance(st.value.func, ast.Attribute) \
                    and st.value.func.attr in ("append", "extend", "insert") and isinstance(st.value.func.value, ast.Name):
                tgt = st.value.func.value
            if tgt is None:
                continue
            tf = typed.type_of(modname, tgt)
            if tf is not None and type_re.match(tf.text.replace(" | None", "")):
                out.append(st)
    return out


def unjustified_drop(g, mod, canon: "Canonical", loop: ast.AST, keeps: list[ast.AST], exempt: list[ast.AST]):
    """a path through one iteration of `loop` (head -> body -> head) that executes none of `keeps`, none of `exempt`, and leaves
    no test on a side that justifies dropping the branch: returns the list of tests it passed (innermost last), or None"""
    head = g.by_ast[id(loop)]
    avoid = {g.by_ast[id(s)] for s in keeps + exempt if id(s) in g.by_ast}
    inside = {g.by_ast[id(x)] for x in ast.walk(loop) if id(x) in g.by_ast} - {head}
    start = [x for x in g.succ[head] if g.edge_label.get((head, x)) == "true"]
    prev: dict[int, int] = {}
    seen: set[int] = set()
    stack = [(x, head) for x in start]
    sides_cache: dict[int, set[str]] = {}
    while stack:
        n, p = stack.pop()
        if n == head:
            path, cur = [], p
            while cur != head:
                if g.nodes[cur].kind == "test" and isinstance(g.nodes[cur].ast, ast.If):
                    path.append(g.nodes[cur].ast)
                cur = prev[cur]
            return list(reversed(path))
        if n in seen or n in avoid or n not in inside:
            continue
        seen.add(n)
        prev[n] = p
        node = g.nodes[n]
        allowed: set[str] = set()
        if node.kind == "test" and isinstance(node.ast, ast.If):
            if n not in sides_cache:
                sides_cache[n] = canon.drop_sides(node.ast.test, n)
            allowed = sides_cache[n]
        for x in g.succ[n]:
            lab = g.edge_label.get((n, x), "")
            if lab == "exc":
                continue
            if allowed and ("true" if lab == "true" else "false") in allowed:
                continue
            stack.append((x, n))
    return None


# ---------------------------------------------------------------------------------------------------------------------
# C12.b3: where a fresh parser plugin instance (which owns the label map) can flow
# ---------------------------------------------------------------------------------------------------------------------
PLUGIN_LOOKUP = "rdflib.plugin.get"
PARSER_KIND = "rdflib.parser.Parser"
# methods through which a container keeps what it is handed
KEEPING_CALLS = {"setdefault", "append", "appendleft", "add", "insert", "extend", "update", "__setitem__", "put", "put_nowait", "push"}


def is_parser_class_lookup(typed, modname: str, e: ast.AST) -> bool:
    """`e` evaluates to a parser plugin class: a call of the plugin registry's lookup whose kind argument is the Parser base class"""
    if not isinstance(e, ast.Call):
        return False
    cal = typed.callees(modname, e)
    if cal:
        if PLUGIN_LOOKUP not in cal:
            return False
    elif norm(e.func) not in ("plugin.get", "rdflib.plugin.get", "get_plugin", "plugin_get"):
        return False
    kind = e.args[1] if len(e.args) > 1 and not any(isinstance(a, ast.Starred) for a in e.args[:2]) else next((k.value for k in e.keywords if k.arg == "kind"), None)
    if kind is None:
        return False
    ref = typed.ref(modname, kind)
    return ref == PARSER_KIND if ref else norm(kind).rpartition(".")[2] == "Parser"


def _bound_names(fn: ast.AST, kinds=(ast.Global, ast.Nonlocal)) -> set[str]:
    out: set[str] = set()
    if isinstance(fn, (ast.FunctionDef, ast.AsyncFunctionDef)):
        for n in own_nodes(fn):
            if isinstance(n, kinds):
                out |= set(n.names)
    return out


class ParserInstances:
    """The expressions of the package (outside `skip` modules) that can evaluate to a parser plugin instance made on the spot - the
    instantiation `<lookup of a Parser plugin class>()` itself, also through a local that holds the class, and every call of a function
    some `return` of which gives back such an expression (fixpoint) - and, for each of them, where the value goes."""

    def __init__(self, repo, typed, skip):
        self.repo, self.typed = repo, typed
        self.mods = {n: m for n, m in repo.modules.items() if not skip(n)}
        self.producers: dict[str, str] = {}  # full name of a function -> why it returns an instance
        self._by_last: dict[str, list[str]] = {}
        self.scopes = []  # (modname, mod, qualname, fn or None for module/class level statements)
        for name, mod in self.mods.items():
            for q, f in mod.functions():
                self.scopes.append((name, mod, q, f))
        changed = True
        while changed:
            changed = False
            for name, mod, q, f in self.scopes:
                full = "%s.%s" % (name, q)
                if full in self.producers:
                    continue
                for n in own_nodes(f):
                    if isinstance(n, (ast.Return, ast.Yield)) and n.value is not None and self.may_be_instance(name, f, n.value):
                        self.producers[full] = norm(n.value)[:60]
                        self._by_last.setdefault(q.rpartition(".")[2], []).append(full)
                        changed = True
                        break

    # -- expressions
    def instantiation(self, modname: str, fn, e: ast.AST) -> bool:
        if not isinstance(e, ast.Call):
            return False
        if is_parser_class_lookup(self.typed, modname, e.func):
            return True
        if isinstance(e.func, ast.Name) and fn is not None:
            vals = local_values(fn, e.func.id)
            return bool(vals) and any(is_parser_class_lookup(self.typed, modname, v) for v in vals)
        return False

    def producer_call(self, modname: str, e: ast.AST) -> bool:
        if not isinstance(e, ast.Call):
            return False
        cal = self.typed.callees(modname, e)
        if cal:
            return any(c in self.producers for c in cal)
        last = e.func.attr if isinstance(e.func, ast.Attribute) else (e.func.id if isinstance(e.func, ast.Name) else None)
        return any(p.startswith(modname + ".") for p in self._by_last.get(last or "", []))

    def source(self, modname: str, fn, e: ast.AST) -> bool:
        return self.instantiation(modname, fn, e) or self.producer_call(modname, e)

    def may_be_instance(self, modname: str, fn, e: ast.AST, depth: int = 0) -> bool:
        if self.source(modname, fn, e):
            return True
        if isinstance(e, ast.IfExp):
            return self.may_be_instance(modname, fn, e.body, depth) or self.may_be_instance(modname, fn, e.orelse, depth)
        if isinstance(e, ast.BoolOp):
            return any(self.may_be_instance(modname, fn, v, depth) for v in e.values)
        if isinstance(e, (ast.NamedExpr, ast.Await)):
            return self.may_be_instance(modname, fn, e.value, depth)
        if isinstance(e, ast.Name) and fn is not None and depth < 3:
            return any(self.may_be_instance(modname, fn, v, depth + 1) for v in local_values(fn, e.id) if not (isinstance(v, ast.Name) and v.id == e.id))
        return False

    # -- where one source expression goes
    def destiny(self, modname: str, mod, fn, e: ast.AST) -> tuple[bool, str, ast.AST]:
        """(stays inside the call, why, statement or expression to show)"""
        if fn is None and any(isinstance(p, ast.Lambda) for p in mod.parents(e)):
            return True, "made anew by every call of the lambda", e
        if fn is None:
            return False, "made when the module / class body is executed: one instance for the whole process", e
        cur = e
        for p in mod.parents(e):
            if p is fn:
                break
            if isinstance(p, ast.arguments):
                return False, "the default value of a parameter is evaluated once: one instance for every call", cur
            if isinstance(p, (ast.Lambda, ast.FunctionDef, ast.AsyncFunctionDef)):
                return True, "made anew by every call of the nested function", cur
            if isinstance(p, ast.Attribute) and p.value is cur:
                return True, "used on the spot (.%s)" % p.attr, p
            if isinstance(p, ast.Call) and cur is not p.func:
                f_ = p.func
                if isinstance(f_, ast.Attribute) and f_.attr in KEEPING_CALLS and not isinstance(f_.value, ast.Name):
                    return False, "handed to %s(), which keeps it" % norm(f_)[:60], p
                if isinstance(f_, ast.Attribute) and f_.attr in KEEPING_CALLS and isinstance(f_.value, ast.Name) and (
                        f_.value.id in _bound_names(fn) or not local_values(fn, f_.value.id)):
                    return False, "handed to %s(), a container that is not made by this call" % norm(f_)[:60], p
                if isinstance(f_, ast.Name) and f_.id == "setattr":
                    return False, "stored with setattr()", p
                cur = p  # passed as an argument: what the call gives back may hold it, and goes the same way
                continue
            if isinstance(p, (ast.Return, ast.Yield)):
                return True, "given back to the caller; every call of this function is judged in its turn", p
            if isinstance(p, ast.NamedExpr):
                esc = self._escapes(modname, mod, fn, {p.target.id})
                if esc:
                    return esc
                cur = p
                continue
            if isinstance(p, (ast.Assign, ast.AnnAssign, ast.AugAssign)):
                tgs = p.targets if isinstance(p, ast.Assign) else [p.target]
                flat = [x for t in tgs for x in ([t] if not isinstance(t, (ast.Tuple, ast.List)) else ast.walk(t))]
                stored = [t for t in flat if isinstance(t, (ast.Attribute, ast.Subscript))]
                if stored:
                    return False, "stored in %s" % norm(stored[0]), p
                names = {t.id for t in flat if isinstance(t, ast.Name)}
                outer = names & _bound_names(fn)
                if outer:
                    return False, "stored in the global/nonlocal %s" % sorted(outer)[0], p
                esc = self._escapes(modname, mod, fn, names)
                if esc:
                    return esc
                return True, "held in a local", p
            if isinstance(p, (ast.Compare, ast.Subscript, ast.UnaryOp, ast.BinOp, ast.JoinedStr)):
                return True, "used on the spot", p
            if isinstance(p, ast.stmt):
                return True, "used by this statement only", p
            cur = p  # a conditional / container display / comprehension / keyword: what holds the instance goes the same way
        return True, "used on the spot", e

    def _escapes(self, modname: str, mod, fn, names: set[str]):
        """a local that holds the instance is stored somewhere that outlives the call"""
        for n in own_nodes(fn):
            if isinstance(n, (ast.Assign, ast.AnnAssign)) and n.value is not None:
                tgs = n.targets if isinstance(n, ast.Assign) else [n.target]
                reads = {x.id for x in ast.walk(n.value) if isinstance(x, ast.Name) and isinstance(x.ctx, ast.Load)
                         and not isinstance(mod.parent.get(id(x)), (ast.Attribute, ast.Call, ast.Subscript, ast.Compare))}
                if reads & names:
                    for t in tgs:
                        if isinstance(t, (ast.Attribute, ast.Subscript)):
                            return False, "held in a local that is then stored in %s" % norm(t), n
                        if isinstance(t, ast.Name) and t.id in _bound_names(fn):
                            return False, "held in a local that is then stored in the global/nonlocal %s" % t.id, n
            elif isinstance(n, ast.Call) and isinstance(n.func, ast.Attribute) and n.func.attr in KEEPING_CALLS:
                r = n.func.value
                outlives = not isinstance(r, ast.Name) or r.id in _bound_names(fn) or not local_values(fn, r.id)
                if outlives and any(isinstance(a, ast.Name) and a.id in names for a in list(n.args) + [k.value for k in n.keywords]):
                    return False, "held in a local that is then handed to %s()" % norm(n.func)[:60], n
        return None

    def sites(self):
        """[(modname, mod, qualname, fn, source expression, is an instantiation)] in source order; module/class level ones have fn None"""
        out = []
        for name, mod in self.mods.items():
            infn: set[int] = set()
            for q, f in mod.functions():
                for c in own_nodes(f):
                    infn.add(id(c))
                    if self.source(name, f, c):
                        out.append((name, mod, q, f, c, self.instantiation(name, f, c)))
            for c in ast.walk(mod.tree):
                if id(c) in infn or not isinstance(c, ast.Call):
                    continue
                encl = next((p for p in mod.parents(c) if isinstance(p, (ast.FunctionDef, ast.AsyncFunctionDef, ast.Lambda))), None)
                if isinstance(encl, ast.Lambda):  # judged inside the function (or module) the lambda is written in
                    encl = next((p for p in mod.parents(c) if isinstance(p, (ast.FunctionDef, ast.AsyncFunctionDef))), None)
                    if self.source(name, encl, c):
                        out.append((name, mod, mod.qual_of(c) or "<module>", encl, c, self.instantiation(name, encl, c)))
                elif encl is None and self.source(name, None, c):  # class body / module body
                    out.append((name, mod, mod.qual_of(c) or "<module>", None, c, self.instantiation(name, None, c)))
        return out

    def reachable_from(self, start_full: str, depth: int = 4) -> set[str]:
        """full names of the functions of the analysed modules that `start_full` can call (typed call graph, <= depth levels)"""
        seen = {start_full}
        work = [(start_full, 0)]
        index = {"%s.%s" % (name, q): (name, f) for name, mod, q, f in self.scopes}
        while work:
            full, d = work.pop()
            if full not in index or d >= depth:
                continue
            name, f = index[full]
            for c in own_nodes(f, include_nested=True):
                if not isinstance(c, ast.Call):
                    continue
                cal = list(self.typed.callees(name, c))
                if not cal and isinstance(c.func, ast.Attribute):
                    cal = [k for k in index if k.startswith(name + ".") and k.rpartition(".")[2] == c.func.attr]
                for x in cal:
                    if x not in seen:
                        seen.add(x)
                        work.append((x, d + 1))
        return seen


# ---------------------------------------------------------------------------------------------------------------------
# C12.a: a construct of a private helper, written in terms of the helper's parameters, seen from the helper's call sites
# ---------------------------------------------------------------------------------------------------------------------
class _Subst(ast.NodeTransformer):
    def __init__(self, mapping: dict[str, ast.AST]):
        self.mapping = mapping

    def visit_Name(self, n: ast.Name):
        if isinstance(n.ctx, ast.Load) and n.id in self.mapping:
            import copy
            return copy.deepcopy(self.mapping[n.id])
        return n


def _subst(e: ast.AST, mapping: dict[str, ast.AST]) -> ast.AST:
    import copy
    return _Subst(mapping).visit(copy.deepcopy(e))


def _references(repo, name: str, home: str, is_method: bool):
    """(calls whose callee expression is `<x>.name` or `name`, every other occurrence of the name) over the whole package.  A bare name
    refers to a method in the module that defines it at most, to a module-level function also where it is imported."""
    cache = repo.__dict__.setdefault("_c12_refs", {})
    key = (name, home, is_method)
    if key not in cache:
        calls, other = [], []
        for mname, mod in repo.modules.items():
            if name not in mod.text:
                continue
            bare = mname == home or (not is_method and any(
                isinstance(n, (ast.ImportFrom, ast.Import)) and any((al.asname or al.name) == name for al in n.names) for n in ast.walk(mod.tree)))
            for n in ast.walk(mod.tree):
                hit = (isinstance(n, ast.Attribute) and n.attr == name) or (bare and isinstance(n, ast.Name) and n.id == name)
                if not hit:
                    continue
                p = mod.parent.get(id(n))
                if isinstance(n.ctx, ast.Load) and isinstance(p, ast.Call) and p.func is n:
                    calls.append((mname, mod, p))
                else:
                    other.append((mname, mod, n))
        cache[key] = (calls, other)
    return cache[key]


def lift_to_callers(repo, modname: str, q: str, fn: ast.AST, expr: ast.AST):
    """`expr` is an expression of function `fn` (qualified name q in module modname).  If fn is a private helper whose call sites are all
    known - a module-level function or a method with a name of its own in the package (`_x`, not `__x__`), not decorated (staticmethod /
    classmethod apart), referenced nowhere but as the callee of a call - and the value of `expr` is a function of fn's parameters (through
    locals bound once), returns [(module name, module, qualified name of the calling function, call, expr with the actual arguments - and the
    receiver for the first parameter of a method - put in the place of the parameters)], one entry per call site.  None when any of this
    cannot be established (the construct is then judged where it stands)."""
    mod = repo.modules[modname]
    if not isinstance(fn, (ast.FunctionDef, ast.AsyncFunctionDef)):
        return None
    name = fn.name
    if not name.startswith("_") or (name.startswith("__") and name.endswith("__")):
        return None
    owner_q = q.rpartition(".")[0]
    owner = mod.defs.get(owner_q) if owner_q else None
    if owner_q and not isinstance(owner, ast.ClassDef):
        return None
    kind = "function" if owner is None else "method"
    for d in fn.decorator_list:
        if isinstance(d, ast.Name) and d.id in ("staticmethod", "classmethod") and owner is not None:
            kind = d.id
        else:
            return None
    n_defs = sum(1 for m in repo.modules.values() if name in m.text for d in m.defs.values()
                 if isinstance(d, (ast.FunctionDef, ast.AsyncFunctionDef)) and d.name == name)
    if n_defs != 1:
        return None
    calls, other = _references(repo, name, modname, owner is not None)
    if other or not calls:
        return None
    a = fn.args
    pos = [x.arg for x in a.posonlyargs + a.args]
    dfl: dict[str, ast.AST] = {}
    for p_, d_ in zip(reversed(a.posonlyargs + a.args), reversed(a.defaults)):
        dfl[p_.arg] = d_
    for p_, d_ in zip(a.kwonlyargs, a.kw_defaults):
        if d_ is not None:
            dfl[p_.arg] = d_
    params = set(pos) | {x.arg for x in a.kwonlyargs}
    variadic = {x.arg for x in (a.vararg, a.kwarg) if x is not None}
    # what the function binds itself
    stores: dict[str, int] = {}
    for n in own_nodes(fn, include_nested=True):
        if isinstance(n, ast.Name) and isinstance(n.ctx, (ast.Store, ast.Del)):
            stores[n.id] = stores.get(n.id, 0) + 1
        elif isinstance(n, (ast.FunctionDef, ast.AsyncFunctionDef, ast.ClassDef)):
            stores[n.name] = stores.get(n.name, 0) + 2
        elif isinstance(n, ast.arg) and mod.parent.get(id(mod.parent.get(id(n)))) is not fn:
            stores[n.arg] = stores.get(n.arg, 0) + 2  # parameter of a nested function / lambda
        elif isinstance(n, (ast.Global, ast.Nonlocal)):
            for x in n.names:
                stores[x] = stores.get(x, 0) + 2
    import copy
    cur = copy.deepcopy(expr)
    for _ in range(6):
        loads = {n.id for n in ast.walk(cur) if isinstance(n, ast.Name) and isinstance(n.ctx, ast.Load)}
        if any(isinstance(n, ast.Name) and not isinstance(n.ctx, ast.Load) for n in ast.walk(cur)):
            return None  # binds names itself (comprehension, walrus)
        if loads & variadic or any(stores.get(x) for x in loads & params):
            return None
        local = {x for x in loads - params if stores.get(x)}
        if not local:
            break
        mapping = {}
        for x in local:
            vals = local_values(fn, x)
            if stores[x] != 1 or len(vals) != 1:
                return None
            mapping[x] = vals[0]
        cur = _subst(cur, mapping)
    else:
        return None
    used = {n.id for n in ast.walk(cur) if isinstance(n, ast.Name) and isinstance(n.ctx, ast.Load)} & params
    me = pos[0] if kind in ("method", "classmethod") and pos else None
    if not (used - {me}):
        return None  # not a function of what the callers pass
    out = []
    for cname, cmod, call in calls:
        if any(isinstance(x, ast.Starred) for x in call.args) or any(k.arg is None for k in call.keywords):
            return None
        formal = list(pos)
        mapping = {}
        if me is not None:
            if not isinstance(call.func, ast.Attribute):
                return None
            if kind == "method" and isinstance(call.func.value, ast.Name) and call.func.value.id == owner.name:
                return None  # Class.helper(obj, ...): the receiver is not the first argument
            mapping[me] = call.func.value
            formal = formal[1:]
        if len(call.args) > len(formal):
            return None
        for p_, av in zip(formal, call.args):
            mapping[p_] = av
        for k in call.keywords:
            if k.arg not in params or k.arg in mapping:
                return None
            mapping[k.arg] = k.value
        for p_ in used:
            if p_ not in mapping:
                if p_ not in dfl:
                    return None
                mapping[p_] = dfl[p_]
        out.append((cname, cmod, cmod.qual_of(call), call, _subst(cur, {p_: mapping[p_] for p_ in used})))
    return out


# ---------------------------------------------------------------------------------------------------------------------
# C12.c: a removing call is an obligation of every entry point that reaches it, and "the removed graph is empty" may be
# established in the function that removes or in the functions that delegate the removal to it
# ---------------------------------------------------------------------------------------------------------------------
def _outer_function(mod, node: ast.AST):
    """(qualified name, def) of the outermost function enclosing `node` (the node itself if it is one); (None, None) at module
    or class level."""
    best = None
    for p in [node] + list(mod.parents(node)):
        if isinstance(p, (ast.FunctionDef, ast.AsyncFunctionDef)):
            best = p
    if best is None:
        return None, None
    return mod.qual_of(best), best


def helper_call_sites(repo, modname: str, q: str, fn: ast.AST):
    """The call sites [(module name, module, call)] of `fn` when fn is a private helper all of whose call sites are known: a
    module-level function or a method with a name of its own in the package (`_x`, not `__x__`), not decorated (staticmethod /
    classmethod apart), referenced nowhere but as the callee of a call.  None for everything else: a public function, a method
    that can be overridden or looked up by name, a function that is passed round - such a function is an entry point of its own."""
    mod = repo.modules[modname]
    if not isinstance(fn, (ast.FunctionDef, ast.AsyncFunctionDef)):
        return None
    name = fn.name
    if not name.startswith("_") or (name.startswith("__") and name.endswith("__")):
        return None
    owner_q = q.rpartition(".")[0]
    owner = mod.defs.get(owner_q) if owner_q else None
    if owner_q and not isinstance(owner, ast.ClassDef):
        return None
    for d in fn.decorator_list:
        if not (isinstance(d, ast.Name) and d.id in ("staticmethod", "classmethod") and owner is not None):
            return None
    n_defs = sum(1 for m in repo.modules.values() if name in m.text for d in m.defs.values()
                 if isinstance(d, (ast.FunctionDef, ast.AsyncFunctionDef)) and d.name == name)
    if n_defs != 1:
        return None
    calls, other = _references(repo, name, modname, owner is not None)
    if other:
        return None
    return list(calls)


def entry_points(repo, modname: str, q: str, fn: ast.AST) -> list[tuple[str, str, list[str]]]:
    """The functions through which the code of `fn` is entered from outside: fn itself unless it is a private helper with known
    call sites (`helper_call_sites`), else the entry points of the functions that call it (transitively; a helper nobody calls
    stands for itself).  [(module name, qualified name or '<module>', call chain entry -> ... -> fn)], without duplicates."""
    out: dict[tuple[str, str], list[str]] = {}
    seen: set[tuple[str, str]] = set()

    def walk(mn: str, qq: str, f: ast.AST, chain: list[str]) -> None:
        if (mn, qq) in seen:
            return
        seen.add((mn, qq))
        here = ["%s:%s" % (repo.modules[mn].rel, qq)] + chain
        calls = helper_call_sites(repo, mn, qq, f) if f is not None else None
        if not calls:
            out.setdefault((mn, qq), here)
            return
        for cname, cmod, call in calls:
            cq, cf = _outer_function(cmod, call)
            if cf is None:
                out.setdefault((cname, "<module>"), ["%s:<module>" % cmod.rel] + here)
            else:
                walk(cname, cq, cf, here)

    walk(modname, q, fn, [])
    return [(mn, qq, chain) for (mn, qq), chain in out.items()]


def _is_len_of(e: ast.AST, target: str) -> bool:
    return isinstance(e, ast.Call) and isinstance(e.func, ast.Name) and e.func.id == "len" and len(e.args) == 1 and not e.keywords \
        and norm(e.args[0]) == target


def _is_int(e: ast.AST, v: int) -> bool:
    return isinstance(e, ast.Constant) and type(e.value) is int and e.value == v


def emptiness_outcome(test: ast.AST, target: str):
    """The outcomes of `test` that establish `len(target) == 0`: a subset of {True, False}.  Read through not / and / or; the
    atoms are comparisons of len(target) with 0 or 1 in either order, and len(target) itself as a truth value."""
    if isinstance(test, ast.UnaryOp) and isinstance(test.op, ast.Not):
        return {not o for o in emptiness_outcome(test.operand, target)}
    if isinstance(test, ast.BoolOp):
        parts = [emptiness_outcome(v, target) for v in test.values]
        want = isinstance(test.op, ast.And)  # `a and b` true: every conjunct true; `a or b` false: every disjunct false
        return {want} if any(want in p for p in parts) else set()
    if _is_len_of(test, target):
        return {False}
    if isinstance(test, ast.Compare) and len(test.ops) == 1:
        l, op, r = test.left, test.ops[0], test.comparators[0]
        if _is_len_of(r, target) and not _is_len_of(l, target):
            flip = {ast.Lt: ast.Gt, ast.Gt: ast.Lt, ast.LtE: ast.GtE, ast.GtE: ast.LtE}
            l, r, op = r, l, flip.get(type(op), type(op))()
        if not _is_len_of(l, target):
            return set()
        if (isinstance(op, ast.Eq) and _is_int(r, 0)) or (isinstance(op, ast.Lt) and _is_int(r, 1)) or (isinstance(op, ast.LtE) and _is_int(r, 0)):
            return {True}
        if (isinstance(op, ast.NotEq) and _is_int(r, 0)) or (isinstance(op, ast.Gt) and _is_int(r, 0)) or (isinstance(op, ast.GtE) and _is_int(r, 1)):
            return {False}
    return set()


def emptiness_guarded(fn: ast.AST, node: ast.AST, target: str) -> bool:
    """`node` stands in the branch of an `if` (or conditional expression) of `fn` that is taken only when len(target) == 0."""
    for n in own_nodes(fn):
        if isinstance(n, (ast.If, ast.IfExp)):
            oc = emptiness_outcome(n.test, target)
            if not oc:
                continue
            body = n.body if isinstance(n.body, list) else [n.body]
            orelse = n.orelse if isinstance(n.orelse, list) else [n.orelse]
            if True in oc and any(node is x for s in body for x in ast.walk(s)):
                return True
            if False in oc and any(node is x for s in orelse for x in ast.walk(s)):
                return True
    return False


def removal_of_empty(repo, modname: str, mod, fn: ast.AST, node: ast.AST, target_expr: ast.AST, depth: int = 3):
    """Is the removal `node` (of the graph `target_expr`) in function `fn` done only when that graph is empty?  Either an emptiness
    test of the same expression guards it in fn, or fn is a private helper with known call sites, the removed graph is a function of
    its parameters, and at every call site the call is guarded by an emptiness test of what is passed (or the caller is such a
    helper in turn).  Returns a sentence saying where the test is, or None."""
    target = norm(target_expr)
    inner = mod.defs.get(mod.qual_of(node))
    if isinstance(inner, (ast.FunctionDef, ast.AsyncFunctionDef)) and emptiness_guarded(inner, node, target):
        return "under an emptiness test of %s" % target
    if depth <= 0 or inner is not fn:
        return None
    q = mod.qual_of(fn)
    lifted = lift_to_callers(repo, modname, q, fn, target_expr)
    if not lifted:
        return None
    where = []
    for cname, cmod, cq, call, texpr in lifted:
        cq_outer, cf = _outer_function(cmod, call)
        if cf is None:
            return None
        r = removal_of_empty(repo, cname, cmod, cf, call, texpr, depth - 1)
        if r is None:
            return None
        where.append("%s (%s)" % (cq_outer, r))
    return "every caller of %s calls it %s" % (q, "; ".join(sorted(set(where))))
