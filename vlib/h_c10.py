"""Helpers of check C10 (rules m-s): guard facts that hold at a node, def-use of locals, request-rootedness.

Everything here is syntactic over one function; names are resolved by def-use, never by spelling.
"""
from __future__ import annotations

import ast
from typing import Iterator, Optional

from .cfg import CFG, eval3, reaching_defs
from .core import norm, own_nodes

_TERMINATORS = (ast.Continue, ast.Return, ast.Raise, ast.Break)
_COMPS = (ast.ListComp, ast.SetComp, ast.GeneratorExp, ast.DictComp)


def _terminates(body: list) -> bool:
    return bool(body) and isinstance(body[-1], _TERMINATORS)


def _stores(stmts) -> set[str]:
    out: set[str] = set()
    for s in stmts:
        for n in ast.walk(s):
            if isinstance(n, ast.Name) and isinstance(n.ctx, (ast.Store, ast.Del)):
                out.add(n.id)
    return out


def _names(e: ast.AST) -> set[str]:
    return {n.id for n in ast.walk(e) if isinstance(n, ast.Name)}


def guard_facts(mod, fn: ast.AST, node: ast.AST) -> list[tuple[ast.expr, bool]]:
    """(condition, truth) pairs that hold whenever `node` is evaluated inside fn: tests of the enclosing if / while / conditional
    expressions, the operands that short-circuit evaluation has already decided, comprehension filters, and the early exits
    (`if T: continue|return|raise|break`, `assert T`) among the statements that precede it in every enclosing block.  A condition
    that mentions a local re-bound between the test and the node is dropped."""
    facts: list[tuple[ast.expr, bool]] = []
    killed: set[str] = set()

    def add(test: ast.expr, truth: bool) -> None:
        if not (_names(test) & killed):
            facts.append((test, truth))

    child = node
    for p in mod.parents(node):
        # expression level
        if isinstance(p, ast.IfExp):
            if child is p.body:
                add(p.test, True)
            elif child is p.orelse:
                add(p.test, False)
        elif isinstance(p, ast.BoolOp):
            for v in p.values:
                if v is child:
                    break
                add(v, isinstance(p.op, ast.And))
        elif isinstance(p, _COMPS):
            if child is getattr(p, "elt", None) or child is getattr(p, "key", None) or child is getattr(p, "value", None):
                for gen in p.generators:
                    for c in gen.ifs:
                        add(c, True)
        elif isinstance(p, ast.comprehension):
            if child in p.ifs:
                for c in p.ifs[:p.ifs.index(child)]:
                    add(c, True)
        # statement level: the block that holds child
        for field in ("body", "orelse", "finalbody"):
            blk = getattr(p, field, None)
            if not isinstance(blk, list) or not any(s is child for s in blk):
                continue
            idx = [i for i, s in enumerate(blk) if s is child][0]
            for st in reversed(blk[:idx]):
                if isinstance(st, ast.If) and _terminates(st.body) and not st.orelse:
                    add(st.test, False)
                elif isinstance(st, ast.If) and st.orelse and _terminates(st.orelse) and not _terminates(st.body):
                    add(st.test, True)
                elif isinstance(st, ast.If) and st.orelse and _terminates(st.body) and not _terminates(st.orelse):
                    add(st.test, False)
                elif isinstance(st, ast.Assert):
                    add(st.test, True)
                killed |= _stores([st])
            if isinstance(p, (ast.If, ast.While)):
                if field == "body":
                    add(p.test, True)
                elif field == "orelse" and isinstance(p, ast.If):
                    add(p.test, False)
        if isinstance(p, (ast.For, ast.AsyncFor, ast.While)):
            killed |= _stores([p])  # anything the loop re-binds may differ from what an outer test saw
        if p is fn:
            break
        child = p
    return facts


def atoms(facts: list[tuple[ast.expr, bool]]) -> Iterator[tuple[ast.expr, bool]]:
    """split conjunctions that hold / disjunctions that fail into their operands, push `not` inwards"""
    for e, truth in facts:
        if isinstance(e, ast.BoolOp) and ((isinstance(e.op, ast.And) and truth) or (isinstance(e.op, ast.Or) and not truth)):
            yield from atoms([(v, truth) for v in e.values])
        elif isinstance(e, ast.UnaryOp) and isinstance(e.op, ast.Not):
            yield from atoms([(e.operand, not truth)])
        else:
            yield e, truth


def feasible(mod, fn: ast.AST, node: ast.AST, env: dict[str, Optional[bool]]) -> bool:
    """can `node` be evaluated when the invariant conditions have the truth values of env (three-valued; unknown = feasible)"""
    for test, truth in guard_facts(mod, fn, node):
        v = eval3(test, env)
        if v is not None and v != truth:
            return False
    return True


def isinstance_facts(mod, fn: ast.AST, node: ast.AST) -> list[tuple[str, list[ast.expr], bool]]:
    """(normalised subject, class expressions, truth) of every isinstance atom that holds at node (looked up through predicate helpers: facts_at)"""
    out = []
    for e, truth in facts_at(mod, fn, node):
        if isinstance(e, ast.Call) and isinstance(e.func, ast.Name) and e.func.id == "isinstance" and len(e.args) == 2:
            cl = e.args[1]
            out.append((norm(e.args[0]), list(cl.elts) if isinstance(cl, ast.Tuple) else [cl], truth))
    return out


def not_none_facts(mod, fn: ast.AST, node: ast.AST) -> set[str]:
    """normalised expressions known to be `is not None` at node (looked up through predicate helpers: facts_at)"""
    out = set()
    for e, truth in facts_at(mod, fn, node):
        if isinstance(e, ast.Compare) and len(e.ops) == 1 and isinstance(e.comparators[0], ast.Constant) and e.comparators[0].value is None:
            if (isinstance(e.ops[0], ast.Is) and not truth) or (isinstance(e.ops[0], ast.IsNot) and truth):
                out.add(norm(e.left))
    return out


# ------------------------------------------------------------------------------------------------------------- def-use
def container_of(it: ast.AST) -> ast.AST:
    """the container a loop head iterates: `X`, `X.items()`, `X.keys()`, `list(X)`, `sorted(X)` -> X"""
    while True:
        if isinstance(it, ast.Call) and isinstance(it.func, ast.Attribute) and it.func.attr in ("items", "keys") and not it.args:
            it = it.func.value
        elif isinstance(it, ast.Call) and isinstance(it.func, ast.Name) and it.func.id in ("list", "tuple", "sorted") and len(it.args) == 1:
            it = it.args[0]
        else:
            return it


class DefUse:
    """flow-sensitive def-use of the locals of one function (a name may be re-used for unrelated things: `g` in the update
    evaluators is the default graph AND the loop variable over the GRAPH blocks) - reaching definitions on the statement CFG"""

    def __init__(self, mod, fn: ast.AST, params: set[str]):
        self.mod, self.fn, self.params = mod, fn, params
        self.cfg = CFG(fn)

    def bindings(self, name: str, at: Optional[ast.AST] = None) -> list[tuple[str, ast.AST, Optional[int]]]:
        """bindings of local `name` (those that can reach the evaluation of node `at`, if given):
        ('assign', value, None) | ('unpack', value, i) | ('for', loop, i or None) | ('comp', comprehension, i or None) | ('other', node, None)"""
        out: list[tuple[str, ast.AST, Optional[int], ast.AST]] = []

        def tgt(t: ast.AST, kind: str, src: ast.AST, stmt: ast.AST) -> None:
            if isinstance(t, ast.Name) and t.id == name:
                out.append((kind, src, None, stmt))
            elif isinstance(t, (ast.Tuple, ast.List)):
                for i, e in enumerate(t.elts):
                    if isinstance(e, ast.Name) and e.id == name:
                        out.append(("unpack" if kind == "assign" else kind, src, i, stmt))
                    elif isinstance(e, (ast.Tuple, ast.List, ast.Starred)) and name in _names(e):
                        out.append(("other", src, None, stmt))

        if at is not None:  # a comprehension variable shadows the function's local inside the comprehension
            child = at
            for p in self.mod.parents(at):
                if isinstance(p, _COMPS):
                    for gen in p.generators:
                        if name in _names(gen.target) and not (child is gen and gen is p.generators[0]):
                            tgt(gen.target, "comp", gen, p)
                            return [(k, s, i) for k, s, i, _ in out]
                if p is self.fn:
                    break
                child = p
        for n in own_nodes(self.fn):
            if isinstance(n, ast.Assign):
                for t in n.targets:
                    tgt(t, "assign", n.value, n)
            elif isinstance(n, ast.AnnAssign) and n.value is not None:
                tgt(n.target, "assign", n.value, n)
            elif isinstance(n, (ast.For, ast.AsyncFor)):
                tgt(n.target, "for", n, n)
            elif isinstance(n, ast.AugAssign) and isinstance(n.target, ast.Name) and n.target.id == name:
                out.append(("other", n, None, n))
            elif isinstance(n, ast.NamedExpr) and n.target.id == name:
                out.append(("other", n, None, n))
            elif isinstance(n, (ast.With, ast.AsyncWith)):
                for it in n.items:
                    if it.optional_vars is not None and name in _names(it.optional_vars):
                        out.append(("other", n, None, n))
        if at is not None:
            rd = reaching_defs(self.cfg, self.cfg.node_of(at, self.mod), name, {})
            out = [b for b in out if self.cfg.by_ast.get(id(b[3])) in rd]
        return [(k, s, i) for k, s, i, _ in out]

    def rooted_in(self, e: ast.AST, at: ast.AST, depth: int = 0) -> bool:
        """e (evaluated at node `at`) denotes part of the parsed request: an attribute / subscript / dict-view chain rooted in one of
        the request parameters, or a local that can only have been bound by iterating, unpacking or copying such an expression"""
        while True:
            if isinstance(e, (ast.Attribute, ast.Subscript, ast.Starred)):
                e = e.value
            elif isinstance(e, ast.Call) and isinstance(e.func, ast.Attribute) and e.func.attr in ("items", "keys", "values", "get", "copy"):
                e = e.func.value
            elif isinstance(e, ast.Call) and isinstance(e.func, ast.Name) and e.func.id in ("list", "tuple", "sorted") and len(e.args) == 1:
                e = e.args[0]
            else:
                break
        if not isinstance(e, ast.Name):
            return False
        if e.id in self.params:
            return True
        if depth > 4:
            return False
        bs = self.bindings(e.id, at)
        if not bs:
            return False
        for kind, src, _ in bs:
            if kind in ("for", "comp"):
                if not self.rooted_in(src.iter, src.iter, depth + 1):  # type: ignore[attr-defined]
                    return False
            elif kind in ("assign", "unpack"):
                if not self.rooted_in(src, src, depth + 1):
                    return False
            else:
                return False
        return True

    def request_key(self, e: ast.AST, at: ast.AST) -> Optional[str]:
        """if e is a local that (at `at`) can only be the iteration variable - or the first element of the `.items()` pair - of a loop
        over a container of the parsed request, i.e. a graph term of the request used as it is: the normalised text of that container"""
        if not isinstance(e, ast.Name) or e.id in self.params:
            return None
        bs = self.bindings(e.id, at)
        if not bs:
            return None
        conts = set()
        for kind, src, i in bs:
            if kind not in ("for", "comp") or i not in (None, 0):
                return None
            it = src.iter  # type: ignore[attr-defined]
            if not self.rooted_in(it, it):
                return None
            conts.add(norm(container_of(it)))
        return conts.pop() if len(conts) == 1 else None

    def solution_lookup(self, e: ast.AST, at: ast.AST, depth: int = 0) -> Optional[tuple[str, ast.AST]]:
        """if e is `S.get(K)` / `S[K]` with K a request key and S not part of the request (or a local that can only hold such a
        lookup): (container of K, the lookup expression)"""
        if isinstance(e, ast.Call) and isinstance(e.func, ast.Attribute) and e.func.attr == "get" and e.args:
            k = self.request_key(e.args[0], at)
            if k is not None and not self.rooted_in(e.func.value, at):
                return k, e
        if isinstance(e, ast.Subscript):
            k = self.request_key(e.slice, at)
            if k is not None and not self.rooted_in(e.value, at):
                return k, e
        if isinstance(e, ast.Name) and e.id not in self.params and depth < 3:
            found = []
            for kind, src, _ in self.bindings(e.id, at):
                r = self.solution_lookup(src, src, depth + 1) if kind == "assign" else None
                if r is None:
                    return None
                found.append(r)
            if found and len({r[0] for r in found}) == 1:
                return found[0]
        return None


# ======================================================================================================================
# helpers of rules t-y (request-level structure: prologue folding, return classes, grammar recursion, constant arguments)
# ======================================================================================================================
def self_mutators(mod, cls: str) -> set[str]:
    """methods of class `cls` (other than __init__) that change the state of self: a store / augmented store / del whose target is an
    attribute or subscript chain rooted in the first parameter, closed under calls of such methods on self"""
    meths = mod.methods(cls)
    out: set[str] = set()

    def root(t: ast.AST) -> Optional[str]:
        seen_chain = False
        while isinstance(t, (ast.Attribute, ast.Subscript)):
            t = t.value
            seen_chain = True
        return t.id if seen_chain and isinstance(t, ast.Name) else None

    for name, f in meths.items():
        if name == "__init__" or not f.args.args:
            continue
        me = f.args.args[0].arg
        for n in own_nodes(f):
            tgts: list[ast.AST] = []
            if isinstance(n, ast.Assign):
                tgts = list(n.targets)
            elif isinstance(n, (ast.AugAssign, ast.AnnAssign)) and not (isinstance(n, ast.AnnAssign) and n.value is None):
                tgts = [n.target]
            elif isinstance(n, ast.Delete):
                tgts = list(n.targets)
            flat: list[ast.AST] = []
            for t in tgts:
                flat.extend(t.elts if isinstance(t, (ast.Tuple, ast.List)) else [t])
            if any(root(t) == me for t in flat):
                out.add(name)
    changed = True
    while changed:
        changed = False
        for name, f in meths.items():
            if name in out or name == "__init__" or not f.args.args:
                continue
            me = f.args.args[0].arg
            if any(isinstance(c, ast.Call) and isinstance(c.func, ast.Attribute) and c.func.attr in out and isinstance(c.func.value, ast.Name) and c.func.value.id == me
                   for c in own_nodes(f)):
                out.add(name)
                changed = True
    return out


def param_of_arg(fn: ast.AST, call: ast.Call, arg: ast.AST) -> Optional[str]:
    """name of the parameter of fn (a plain function) that the argument expression `arg` of `call` is bound to"""
    params = [a.arg for a in fn.args.posonlyargs + fn.args.args]  # type: ignore[attr-defined]
    for i, a in enumerate(call.args):
        if a is arg:
            return params[i] if i < len(params) and not any(isinstance(x, ast.Starred) for x in call.args[:i + 1]) else None
    for k in call.keywords:
        if k.value is arg:
            return k.arg
    return None


def fold_sites(mod) -> list[tuple[str, ast.AST, ast.AST, ast.Assign, ast.AST, str]]:
    """(function, its def, loop, statement, callee def, accumulator parameter) for every `X = f(..., X, ...)` in the body of a loop,
    f a plain function of the module: a fold of the loop's items into X, one step per call"""
    out = []
    for q, fn in mod.functions():
        for loop in [n for n in own_nodes(fn) if isinstance(n, (ast.For, ast.AsyncFor, ast.While))]:
            for st in [n for s in loop.body for n in ast.walk(s)]:
                if not (isinstance(st, ast.Assign) and len(st.targets) == 1 and isinstance(st.targets[0], ast.Name) and isinstance(st.value, ast.Call)
                        and isinstance(st.value.func, ast.Name) and mod.has(st.value.func.id)):
                    continue
                callee = mod.defs[st.value.func.id]
                if not isinstance(callee, ast.FunctionDef):
                    continue
                x = st.targets[0].id
                accs = [a for a in list(st.value.args) + [k.value for k in st.value.keywords] if isinstance(a, ast.Name) and a.id == x]
                if len(accs) != 1:
                    continue
                p = param_of_arg(callee, st.value, accs[0])
                if p is not None:
                    out.append((q, fn, loop, st, callee, p))
    return out


def acc_writes(mod, fn: ast.AST, acc: str, mutators: set[str]) -> list[tuple[ast.AST, list[ast.AST]]]:
    """(statement-level node, value expressions) of every write into the object the local `acc` of fn holds:
    `acc.attr = v`, `acc[k] = v`, `acc.attr += v`, and `acc.m(args)` for a state-changing method m"""
    out: list[tuple[ast.AST, list[ast.AST]]] = []
    for n in own_nodes(fn):
        if isinstance(n, (ast.Assign, ast.AugAssign, ast.AnnAssign)):
            tgts = list(n.targets) if isinstance(n, ast.Assign) else [n.target]
            flat: list[ast.AST] = []
            for t in tgts:
                flat.extend(t.elts if isinstance(t, (ast.Tuple, ast.List)) else [t])
            for t in flat:
                r = t
                depth = 0
                while isinstance(r, (ast.Attribute, ast.Subscript)):
                    r = r.value
                    depth += 1
                if depth and isinstance(r, ast.Name) and r.id == acc and n.value is not None:
                    out.append((n, [n.value]))
        elif isinstance(n, ast.Call) and isinstance(n.func, ast.Attribute) and n.func.attr in mutators and isinstance(n.func.value, ast.Name) and n.func.value.id == acc:
            out.append((n, list(n.args) + [k.value for k in n.keywords]))
    return out


def entry_atoms(cfg: CFG, mod, fn: ast.AST, name: str) -> Optional[dict[str, bool]]:
    """truth assignment that says `the value of parameter name at entry is not None`, for the `name is None` / `name is not None` atoms of
    the branch tests of fn - valid only if every test that mentions the name is evaluated before fn re-binds it (else None)"""
    env: dict[str, bool] = {}
    for n in own_nodes(fn):
        if not isinstance(n, (ast.If, ast.While)):
            continue
        if name not in _names(n.test):
            continue
        if reaching_defs(cfg, cfg.by_ast[id(n)], name, {}) != {cfg.entry}:
            return None
        for c in ast.walk(n.test):
            if isinstance(c, ast.Compare) and len(c.ops) == 1 and isinstance(c.left, ast.Name) and c.left.id == name \
                    and isinstance(c.comparators[0], ast.Constant) and c.comparators[0].value is None and isinstance(c.ops[0], (ast.Is, ast.IsNot)):
                env[norm(c)] = isinstance(c.ops[0], ast.IsNot)
    return env


def bound_value(st: ast.AST, name: str) -> Optional[ast.AST]:
    """the expression a binding statement gives to `name` (through tuple unpacking of a tuple display too), None if it cannot be told"""
    if isinstance(st, ast.AnnAssign) and isinstance(st.target, ast.Name) and st.target.id == name:
        return st.value
    if not isinstance(st, ast.Assign):
        return None
    for t in st.targets:
        if isinstance(t, ast.Name) and t.id == name:
            return st.value
        if isinstance(t, (ast.Tuple, ast.List)) and isinstance(st.value, (ast.Tuple, ast.List)) and len(t.elts) == len(st.value.elts):
            for e, v in zip(t.elts, st.value.elts):
                if isinstance(e, ast.Name) and e.id == name:
                    return v
    return None


# ------------------------------------------------------------------------------------------------------------- grammar
_G_NULLABLE = {"Optional", "Opt", "ZeroOrMore"}
_G_WRAP = {"Optional", "Opt", "ZeroOrMore", "OneOrMore", "Group", "Suppress", "Combine", "Dict", "DelimitedList", "delimitedList", "delimited_list",
           "Comp", "Param", "ParamList", "NotAny", "FollowedBy"}


class TailGrammar:
    """which grammar symbols can END a match of a module-level pyparsing definition (`X = e`, `X <<= e`): the last operand of a
    sequence (and the ones before it as long as what follows can match nothing), every arm of an alternation, the content of a wrapper"""

    def __init__(self, defs: dict[str, list[ast.expr]]):
        self.defs = {k: [v for v in vs if not (isinstance(v, ast.Call) and isinstance(v.func, ast.Name) and v.func.id == "Forward")] for k, vs in defs.items()}
        self.forwards = {k for k, vs in defs.items() if any(isinstance(v, ast.Call) and isinstance(v.func, ast.Name) and v.func.id == "Forward" for v in vs)}

    @staticmethod
    def _callee(e: ast.AST) -> Optional[str]:
        if isinstance(e, ast.Call):
            return e.func.id if isinstance(e.func, ast.Name) else e.func.attr if isinstance(e.func, ast.Attribute) else None
        return None

    def _content(self, e: ast.Call) -> Optional[ast.AST]:
        c = self._callee(e)
        if c in ("Comp", "Param", "ParamList"):
            return e.args[1] if len(e.args) > 1 else None
        return e.args[0] if e.args else None

    def nullable(self, e: ast.AST, seen: frozenset = frozenset()) -> bool:
        c = self._callee(e)
        if c in _G_NULLABLE:
            return True
        if isinstance(e, ast.Call) and isinstance(e.func, ast.Name) and c in _G_WRAP:
            x = self._content(e)
            return x is not None and self.nullable(x, seen)
        if isinstance(e, ast.Call) and isinstance(e.func, ast.Attribute):  # x.set_parse_action(...): a decoration of x
            return self.nullable(e.func.value, seen)
        if isinstance(e, ast.BinOp):
            if isinstance(e.op, (ast.Add, ast.Sub, ast.BitAnd)):
                return self.nullable(e.left, seen) and self.nullable(e.right, seen)
            if isinstance(e.op, (ast.BitOr, ast.BitXor)):
                return self.nullable(e.left, seen) or self.nullable(e.right, seen)
        if isinstance(e, ast.Name) and e.id in self.defs and e.id not in seen:
            return any(self.nullable(v, seen | {e.id}) for v in self.defs[e.id])
        return False

    def tails(self, e: ast.AST) -> set[str]:
        """names of the grammar symbols in tail position of expression e (not followed into their definitions)"""
        c = self._callee(e)
        if isinstance(e, ast.Name):
            return {e.id} if e.id in self.defs or e.id in self.forwards else set()
        if isinstance(e, ast.Call) and isinstance(e.func, ast.Name) and c in _G_WRAP:
            x = self._content(e)
            return self.tails(x) if x is not None else set()
        if isinstance(e, ast.Call) and isinstance(e.func, ast.Attribute):
            return self.tails(e.func.value)
        if isinstance(e, ast.BinOp):
            if isinstance(e.op, (ast.BitOr, ast.BitXor, ast.BitAnd)):
                return self.tails(e.left) | self.tails(e.right)
            if isinstance(e.op, (ast.Add, ast.Sub)):
                out = self.tails(e.right)
                if self.nullable(e.right):
                    out |= self.tails(e.left)
                return out
        return set()

    def tail_closure(self, name: str) -> dict[str, str]:
        """symbol -> the symbol through which it was reached, for every symbol that can end a match of `name`"""
        via: dict[str, str] = {}
        work = [name]
        while work:
            x = work.pop()
            for v in self.defs.get(x, []):
                for y in self.tails(v):
                    if y not in via:
                        via[y] = x
                        work.append(y)
        return via

    def refs(self, name: str) -> set[str]:
        """every grammar symbol the definition of `name` mentions, transitively"""
        seen: set[str] = set()
        work = [name]
        while work:
            x = work.pop()
            for v in self.defs.get(x, []):
                for n in ast.walk(v):
                    if isinstance(n, ast.Name) and (n.id in self.defs or n.id in self.forwards) and n.id not in seen:
                        seen.add(n.id)
                        work.append(n.id)
        return seen


# ------------------------------------------------------------------------------------------------- constant arguments
def constant_arg_env(fn: ast.AST, call: ast.Call, skip_first: bool = False) -> dict[str, Optional[bool]]:
    """truth values that the call fixes for the parameters of fn: a parameter bound to a literal constant, or left to a literal
    constant default, has the truth value of that constant (atoms `p`, `p is None`, `p is not None`); anything else is unknown"""
    params = [a.arg for a in fn.args.posonlyargs + fn.args.args]  # type: ignore[attr-defined]
    defaults: dict[str, ast.AST] = dict(zip(reversed(params), reversed(fn.args.defaults)))  # type: ignore[attr-defined]
    for a, d in zip(fn.args.kwonlyargs, fn.args.kw_defaults):  # type: ignore[attr-defined]
        params.append(a.arg)
        if d is not None:
            defaults[a.arg] = d
    pos = params[1:] if skip_first else params
    bound: dict[str, ast.AST] = {}
    if any(isinstance(a, ast.Starred) for a in call.args) or any(k.arg is None for k in call.keywords):
        return {}
    for p, a in zip(pos, call.args):
        bound[p] = a
    for k in call.keywords:
        bound[k.arg] = k.value  # type: ignore[index]
    env: dict[str, Optional[bool]] = {}
    for p in pos:
        v = bound.get(p, defaults.get(p))
        if isinstance(v, ast.Constant):
            env[p] = bool(v.value)
            env["%s is None" % p] = v.value is None
            env["%s is not None" % p] = v.value is not None
    return env


# ======================================================================================================================
# what a call of a predicate helper tells about its arguments; outcomes of a test on the feasible paths to a node; the value
# a local holds by position; the self-call graph of a class  (rules a, d, f, j, o, x: the construct a rule looks for may sit behind a
# private helper, a tuple that is packed and unpacked, or a flag that is tested later)
# ======================================================================================================================
import copy as _copy


def _plain_params(fn: ast.AST) -> Optional[list[str]]:
    """names of the parameters of a function that takes positional parameters only (no *args / **kwargs / keyword-only)"""
    a = fn.args  # type: ignore[attr-defined]
    if a.vararg or a.kwarg or a.kwonlyargs:
        return None
    return [x.arg for x in a.posonlyargs + a.args]


def _stable_arg(e: ast.AST) -> bool:
    """an argument expression that denotes the same value when it is read again: a name or an attribute / constant-subscript chain on one"""
    while isinstance(e, (ast.Attribute, ast.Subscript)):
        if isinstance(e, ast.Subscript) and not isinstance(e.slice, ast.Constant):
            return False
        e = e.value
    return isinstance(e, ast.Name)


def call_binding(fn: ast.AST, call: ast.Call) -> Optional[dict[str, ast.expr]]:
    """parameter -> the expression it is bound to by `call`, for a function with positional parameters only.  `f(*T)` with T a name binds
    the i-th parameter to `T[i]` (the call succeeds only if T has exactly as many items as f has parameters without default)"""
    params = _plain_params(fn)
    if params is None or call.keywords and any(k.arg is None for k in call.keywords):
        return None
    out: dict[str, ast.expr] = {}
    if len(call.args) == 1 and isinstance(call.args[0], ast.Starred) and not call.keywords:
        t = call.args[0].value
        if not isinstance(t, ast.Name) or fn.args.defaults:  # type: ignore[attr-defined]
            return None
        for i, p in enumerate(params):
            out[p] = ast.copy_location(ast.Subscript(value=ast.Name(id=t.id, ctx=ast.Load()), slice=ast.Constant(value=i), ctx=ast.Load()), call)
        return out
    if any(isinstance(a, ast.Starred) for a in call.args) or len(call.args) > len(params):
        return None
    for p, a in zip(params, call.args):
        out[p] = a
    for k in call.keywords:
        if k.arg not in params or k.arg in out:
            return None
        out[k.arg] = k.value  # type: ignore[index]
    return out


def unpacked_arity(mod, call: ast.Call) -> Optional[int]:
    """n if `call` is `f(*T)` of a plain function f of the module with exactly n parameters, none with a default: where the call has
    returned, T is known to have n items"""
    if not (isinstance(call.func, ast.Name) and len(call.args) == 1 and isinstance(call.args[0], ast.Starred) and not call.keywords):
        return None
    fn = mod.defs.get(call.func.id)
    if not isinstance(fn, ast.FunctionDef) or fn.decorator_list:
        return None
    params = _plain_params(fn)
    if params is None or fn.args.defaults:
        return None
    return len(params)


class _Subst(ast.NodeTransformer):
    def __init__(self, binding: dict[str, ast.expr]):
        self.binding = binding

    def visit_Name(self, node: ast.Name):  # noqa: N802
        if node.id in self.binding and isinstance(node.ctx, ast.Load):
            return _copy.deepcopy(self.binding[node.id])
        return node


def predicate_facts(mod, call: ast.Call, truth: bool, depth: int = 0) -> list[tuple[ast.expr, bool]]:
    """what is known about the ARGUMENTS of `call` where the call has returned a value of the given truth: `call` calls a plain function
    P of the module (found by the name the call uses, not by what it is called) that never re-binds its parameters.  Every `return` of P that
    can hand out such a value is looked at: the conditions that hold there (guard_facts: enclosing tests, early exits before it) and the
    returned expression itself; a condition counts only if it holds at every such return.  The conditions are rewritten from P's parameters to
    the argument expressions of the call; one that mentions a parameter bound to an argument that is not a plain name / attribute chain, or a
    local of P, is dropped."""
    if not isinstance(call.func, ast.Name) or depth > 2:
        return []
    fn = mod.defs.get(call.func.id)
    if not isinstance(fn, ast.FunctionDef) or fn.decorator_list:
        return []
    binding = call_binding(fn, call)
    if binding is None:
        return []
    params = set(binding)
    all_params = set(_plain_params(fn) or [])
    stored = _stores(fn.body)
    if stored & all_params:
        return []
    if any(isinstance(n, (ast.Yield, ast.YieldFrom, ast.Await)) for n in own_nodes(fn)):
        return []
    rets = [r for r in own_nodes(fn) if isinstance(r, ast.Return)]
    if not rets:
        return []
    if not truth:
        cfg = CFG(fn)
        if any(not isinstance(cfg.nodes[p].ast, ast.Return) for p in cfg.pred[cfg.exit]):
            return []  # P can fall off its end: a false result (None) about which no `return` says anything
    per_return: list[dict[tuple[str, bool], ast.expr]] = []
    for r in rets:
        v = r.value
        if v is None or isinstance(v, ast.Constant):
            if bool(v.value if v is not None else None) != truth:
                continue  # this return never hands out a value of that truth
            here: list[tuple[ast.expr, bool]] = []
        else:
            here = [(v, truth)]
        here += guard_facts(mod, fn, r)
        flat = list(expand(mod, atoms(here), depth + 1))
        per_return.append({(norm(e), t): e for e, t in flat})
    if not per_return:
        return []
    common = set(per_return[0])
    for d in per_return[1:]:
        common &= set(d)
    out: list[tuple[ast.expr, bool]] = []
    usable = {p: a for p, a in binding.items() if _stable_arg(a)}
    for key in sorted(common):
        e = per_return[0][key]
        free = _names(e) & (stored | all_params)
        if not free <= set(usable):
            continue
        out.append((ast.fix_missing_locations(_Subst(usable).visit(_copy.deepcopy(e))), key[1]))
    return out


def expand(mod, facts, depth: int = 0) -> Iterator[tuple[ast.expr, bool]]:
    """the atoms of `facts`, and behind every atom that is a call of a predicate helper of the module what that call tells about its arguments"""
    for e, truth in atoms(list(facts)):
        yield e, truth
        if isinstance(e, ast.Call) and isinstance(e.func, ast.Name) and mod.has(e.func.id):
            yield from atoms(predicate_facts(mod, e, truth, depth))


def facts_at(mod, fn: ast.AST, node: ast.AST) -> list[tuple[ast.expr, bool]]:
    """atomic conditions (expression, truth) that hold whenever `node` is evaluated inside fn, looked up through predicate helpers and
    through locals that keep the outcome of a condition (kept_conditions)"""
    base = guard_facts(mod, fn, node)
    return list(expand(mod, base + kept_conditions(mod, fn, node, base)))


def _binds(g: CFG, k: int) -> set[str]:
    """names that evaluating CFG node k binds (the head of its statement; an assignment expression in a branch test)"""
    st = g.nodes[k].ast
    if st is None:
        return set()
    if g.nodes[k].kind == "test":
        return {x.target.id for x in ast.walk(st.test) if isinstance(x, ast.NamedExpr) and isinstance(x.target, ast.Name)}  # type: ignore[attr-defined]
    return _assigned_of(st)


def kept_conditions(mod, fn: ast.AST, node: ast.AST, facts: list[tuple[ast.expr, bool]], depth: int = 0) -> list[tuple[ast.expr, bool]]:
    """what a condition on a local that KEEPS THE OUTCOME of a test says (`ok = a is not None and b is not None` .. `if ok and c:`): for every atom
    of `facts` that is a plain local of fn, the expression it was bound to, with the truth the atom has - if exactly one binding of the local can
    reach the place where it is tested, that binding is a plain assignment, and on no path from the binding to `node` (the place the facts are
    wanted for) a name that the expression mentions is bound again: the expression then still has at `node` the value the local recorded.  Followed
    through conditions kept in further locals."""
    if depth > 3 or not isinstance(fn, (ast.FunctionDef, ast.AsyncFunctionDef)):
        return []
    out: list[tuple[ast.expr, bool]] = []
    g = None
    for e, truth in atoms(list(facts)):
        if not (isinstance(e, ast.Name) and isinstance(e.ctx, ast.Load)):
            continue
        try:
            if g is None:
                g = CFG(fn)
            t = g.node_of(e, mod)
            target = g.node_of(node, mod)
        except Exception:
            continue  # (an expression that is not part of the tree as it is: rewritten from a predicate helper)
        defs = reaching_defs(g, t, e.id, {})
        if len(defs) != 1 or g.entry in defs:
            continue
        d = next(iter(defs))
        st = g.nodes[d].ast
        v = bound_value(st, e.id) if st is not None and len(_assigned_of(st)) == 1 else None
        if v is None or any(isinstance(x, (ast.NamedExpr, ast.Await, ast.Yield, ast.YieldFrom)) for x in ast.walk(v)):
            continue
        free = _names(v)
        between = (g.reach(d, avoid={d}) & g.reach(target, avoid={d}, forward=False, include_src=True)) - {d}
        if any(_binds(g, k) & free for k in between):
            continue
        got = [(v, truth)]
        out += got + kept_conditions(mod, fn, node, got, depth + 1)
    return out


def components(mod, fn: ast.AST, value: ast.AST, at: ast.AST, n: int) -> Optional[list[str]]:
    """normalised texts of the n components of a value that is handed out at node `at`: the elements of a tuple display, or `T[0]` .. `T[n-1]`
    for a name T that is known to have n items there (a call `f(*T)` of an n-parameter function has returned on the way)"""
    if isinstance(value, ast.Tuple) and len(value.elts) == n and not any(isinstance(e, ast.Starred) for e in value.elts):
        return [norm(e) for e in value.elts]
    if isinstance(value, ast.Name):
        for c, _truth in atoms(guard_facts(mod, fn, at)):  # (an atom: the call was evaluated, whatever it returned; inside an undecided `and` / `or` it need not have been)
            if isinstance(c, ast.Call) and unpacked_arity(mod, c) == n and c.args[0].value.id == value.id:  # type: ignore[attr-defined]
                return [norm(ast.Subscript(value=ast.Name(id=value.id, ctx=ast.Load()), slice=ast.Constant(value=i), ctx=ast.Load())) for i in range(n)]
    return None


# ----------------------------------------------------------------------------------------------- outcomes of a test on the paths to a node
def null_flags(fn: ast.AST) -> set[str]:
    """locals of fn (not parameters) whose every binding is `name = None` or `name = <a display or a constant>`: whether such a name is None (and,
    for a display or constant, whether it is true) is state that is tracked exactly along a path"""
    good: dict[str, int] = {}
    total: dict[str, int] = {}
    for n in ast.walk(fn):
        if isinstance(n, ast.Name) and isinstance(n.ctx, (ast.Store, ast.Del)):
            total[n.id] = total.get(n.id, 0) + 1
        if isinstance(n, ast.Assign) and len(n.targets) == 1 and isinstance(n.targets[0], ast.Name) and _value_kind(n.value) is not None:
            good[n.targets[0].id] = good.get(n.targets[0].id, 0) + 1
    args = {a.arg for a in ast.walk(fn) if isinstance(a, ast.arg)}
    return {k for k, c in good.items() if c == total.get(k) and k not in args}


def _value_kind(v: ast.AST) -> Optional[str]:
    """'none': the expression is None; 'true' / 'false': it is not None and has that truth value (a constant, a display with / without items);
    'object': it is not None (a comprehension); None: unknown"""
    if isinstance(v, ast.Constant):
        return "none" if v.value is None else ("true" if v.value else "false")
    if isinstance(v, (ast.Tuple, ast.List, ast.Set)):
        if any(isinstance(e, ast.Starred) for e in v.elts):
            return "object"
        return "true" if v.elts else "false"
    if isinstance(v, ast.Dict):
        return "object" if any(k is None for k in v.keys) else ("true" if v.keys else "false")
    if isinstance(v, (ast.ListComp, ast.DictComp, ast.SetComp, ast.JoinedStr)):
        return "object"
    return None


def test_outcomes(g: CFG, tests: dict[int, bool], target: int) -> set[str]:
    """with which outcome of the tests was the target reached?  `tests` maps CFG test nodes to the polarity of their condition (False: the
    condition is the negation of the fact of interest).  Every feasible path entry -> target is followed; the answer holds, for each of them, the
    outcome of the LAST of the tests evaluated on it ('holds' / 'fails'), or 'untested'.  Feasibility: the state of the null_flags locals is
    tracked exactly and decides the `x is None` / `x is not None` / `x` atoms of the branch conditions on the way (three-valued, as reaching_defs)."""
    flags = sorted(null_flags(g.fn))
    fidx = {f: i for i, f in enumerate(flags)}
    start = (g.entry, tuple([None] * len(flags)), "untested")
    seen = {start}
    stack = [start]
    out: set[str] = set()
    while stack:
        nid, fl, last = stack.pop()
        if nid == target:
            out.add(last)
        node = g.nodes[nid]
        st = node.ast
        nfl = fl
        if st is not None and node.kind != "test":
            for f in _assigned_of(st) & set(flags):
                l = list(nfl)
                l[fidx[f]] = _value_kind(st.value) if isinstance(st, ast.Assign) else None  # type: ignore[attr-defined]
                nfl = tuple(l)
        verdict = None
        if node.kind == "test" and st is not None:
            env: dict[str, Optional[bool]] = {}
            for f, v in zip(flags, nfl):
                if v is not None:
                    env["%s is None" % f] = v == "none"
                    env["%s is not None" % f] = v != "none"
                    if v != "object":
                        env[f] = v == "true"
            verdict = eval3(st.test, env)  # type: ignore[attr-defined]
        for m in g.succ[nid]:
            lab = g.edge_label.get((nid, m), "")
            if lab == "exc":
                continue
            nlast = last
            if node.kind == "test":
                is_true_edge = lab == "true"
                if verdict is True and not is_true_edge:
                    continue
                if verdict is False and is_true_edge:
                    continue
                if nid in tests:
                    nlast = "holds" if is_true_edge == tests[nid] else "fails"
            s2 = (m, nfl, nlast)
            if s2 not in seen:
                seen.add(s2)
                stack.append(s2)
    return out


def _assigned_of(st: ast.AST) -> set[str]:
    from .cfg import _assigned_names
    return _assigned_names(st)


# ------------------------------------------------------------------------------------------------------ the value a local holds, by position
def display_items(v: ast.AST) -> Optional[list[ast.AST]]:
    """the items of a tuple / list display (none of them starred)"""
    if isinstance(v, (ast.Tuple, ast.List)) and not any(isinstance(e, ast.Starred) for e in v.elts):
        return list(v.elts)
    return None


def held_values(g: CFG, at: int, name: str, depth: int = 0, through_augmented: bool = False, items=display_items) -> Optional[list[tuple[ast.AST, int]]]:
    """(expression, CFG node where it was evaluated) for every value the local `name` can hold when node `at` is reached: the right-hand side of
    the bindings that reach it, followed through copies of other locals (`a = b`), through tuples that are packed and unpacked again
    (`p = (x, y)` .. `a, b = p`) and past `= None` (unpacking None raises: no value comes from there when the name is unpacked).  None when a
    binding is of another kind (a loop variable, an augmented assignment, the value at entry).  through_augmented: `x += ..` leaves in x the
    object it held (true of the containers that are updated in place: the question asked is WHICH object, not what is in it).  items: what
    counts as a tuple whose items are known by position (a display; with Records.items also the construction of a record of the module)."""
    if depth > 6:
        return None
    out: list[tuple[ast.AST, int]] = []
    for d in reaching_defs(g, at, name, {}):
        if d == g.entry:
            return None
        st = g.nodes[d].ast
        if through_augmented and isinstance(st, ast.AugAssign) and isinstance(st.target, ast.Name) and st.target.id == name:
            sub = held_values(g, d, name, depth + 1, through_augmented, items)
            if sub is None:
                return None
            out.extend(sub)
            continue
        vals = _bound_exprs(g, d, st, name, depth, through_augmented, items)
        if vals is None:
            return None
        for v, where in vals:
            if isinstance(v, ast.Name):
                sub = held_values(g, where, v.id, depth + 1, through_augmented, items)
                if sub is None:
                    out.append((v, where))  # a parameter, a loop variable: the name itself is all that is known
                else:
                    out.extend(sub)
            else:
                out.append((v, where))
    return out


def computed_from(g: CFG, mod, e: ast.AST, at: int, source, depth: int = 0) -> bool:
    """is the value of expression e (evaluated at CFG node `at`) computed from a `source` (a predicate on sub-expressions): e contains one, or e
    mentions a local every binding of which that can reach `at` is a plain assignment (tuple displays unpacked by position) of a value computed from one"""
    if any(source(x) for x in ast.walk(e)):
        return True
    if depth > 4:
        return False
    for n in ast.walk(e):
        if not (isinstance(n, ast.Name) and isinstance(n.ctx, ast.Load)):
            continue
        defs = reaching_defs(g, at, n.id, {})
        if not defs or g.entry in defs:
            continue
        vals = [(bound_value(g.nodes[d].ast, n.id) if g.nodes[d].ast is not None else None, d) for d in defs]
        if all(v is not None and computed_from(g, mod, v, d, source, depth + 1) for v, d in vals):
            return True
    return False


def _bound_exprs(g: CFG, d: int, st: ast.AST, name: str, depth: int, through_augmented: bool = False, items=display_items) -> Optional[list[tuple[ast.AST, int]]]:
    if isinstance(st, ast.AnnAssign) and isinstance(st.target, ast.Name) and st.target.id == name and st.value is not None:
        return [(st.value, d)]
    if not isinstance(st, ast.Assign):
        return None
    out: list[tuple[ast.AST, int]] = []
    for t in st.targets:
        if isinstance(t, ast.Name) and t.id == name:
            out.append((st.value, d))
        elif isinstance(t, (ast.Tuple, ast.List)) and name in _names(t):
            idx = [i for i, e in enumerate(t.elts) if isinstance(e, ast.Name) and e.id == name]
            if len(idx) != 1 or any(isinstance(e, ast.Starred) for e in t.elts):
                return None
            srcs: list[tuple[ast.AST, int]] = [(st.value, d)]
            if isinstance(st.value, ast.Name):
                hv = held_values(g, d, st.value.id, depth + 1, through_augmented, items)
                if hv is None:
                    return None
                srcs = hv
            for v, where in srcs:
                if isinstance(v, ast.Constant) and v.value is None:
                    continue
                its = items(v)
                if its is not None and len(its) == len(t.elts):
                    out.append((its[idx[0]], where))
                else:
                    return None
    return out or None


# ---------------------------------------------------------------------------------------------------------- records of a module
class Records:
    """the record classes of a module - classes derived from typing.NamedTuple, whose instances are tuples of their annotated fields in the
    order of declaration - read as what they stand for: a construction `C(a, f=b)` is the tuple display of its fields, `r.f` on it is the
    argument given for field f, and `r.p` for a property p whose body is one `return E` is E with the fields of self written out"""

    def __init__(self, mod):
        self.fields: dict[str, list[tuple[str, Optional[ast.AST]]]] = {}
        self.props: dict[str, dict[str, ast.AST]] = {}
        for st in mod.tree.body:
            if not (isinstance(st, ast.ClassDef) and not st.decorator_list and not st.keywords and len(st.bases) == 1
                    and (st.bases[0].id if isinstance(st.bases[0], ast.Name) else getattr(st.bases[0], "attr", None)) == "NamedTuple"):
                continue
            self.fields[st.name] = [(b.target.id, b.value) for b in st.body if isinstance(b, ast.AnnAssign) and isinstance(b.target, ast.Name)]
            props: dict[str, ast.AST] = {}
            for b in st.body:
                if isinstance(b, ast.FunctionDef) and len(b.decorator_list) == 1 and isinstance(b.decorator_list[0], ast.Name) and b.decorator_list[0].id == "property" \
                        and len(b.args.args) == 1 and not (b.args.vararg or b.args.kwarg or b.args.kwonlyargs):
                    body = [x for x in b.body if not (isinstance(x, ast.Expr) and isinstance(x.value, ast.Constant) and isinstance(x.value.value, str))]
                    if len(body) == 1 and isinstance(body[0], ast.Return) and body[0].value is not None:
                        props[b.name] = (b.args.args[0].arg, body[0].value)  # type: ignore[assignment]
            self.props[st.name] = props
        # a name of the module that is bound more than once does not reliably denote the class
        bound = [n.id for n in ast.walk(mod.tree) if isinstance(n, ast.Name) and isinstance(n.ctx, (ast.Store, ast.Del))] + \
                [n.name for n in ast.walk(mod.tree) if isinstance(n, (ast.FunctionDef, ast.AsyncFunctionDef, ast.ClassDef))] + [a.arg for a in ast.walk(mod.tree) if isinstance(a, ast.arg)]
        for c in list(self.fields):
            if bound.count(c) != 1:
                del self.fields[c]

    def construction(self, v: ast.AST) -> Optional[dict[str, ast.AST]]:
        """field -> argument expression, if v constructs a record of the module"""
        if not (isinstance(v, ast.Call) and isinstance(v.func, ast.Name) and v.func.id in self.fields):
            return None
        if any(isinstance(a, ast.Starred) for a in v.args) or any(k.arg is None for k in v.keywords):
            return None
        fl = self.fields[v.func.id]
        if len(v.args) > len(fl):
            return None
        out: dict[str, ast.AST] = {f: a for (f, _d), a in zip(fl, v.args)}
        for k in v.keywords:
            if k.arg in out or k.arg not in [f for f, _d in fl]:
                return None
            out[k.arg] = k.value  # type: ignore[index]
        for f, d in fl:
            if f not in out:
                if d is None:
                    return None
                out[f] = d
        return {f: out[f] for f, _d in fl}

    def items(self, v: ast.AST) -> Optional[list[ast.AST]]:
        c = self.construction(v)
        return list(c.values()) if c is not None else display_items(v)

    def attribute(self, v: ast.AST, attr: str) -> Optional[ast.AST]:
        """the expression `v.attr` stands for, v a construction of a record: the field's argument, or the property's returned expression over them"""
        c = self.construction(v)
        if c is None:
            return None
        if attr in c:
            return c[attr]
        p = self.props.get(v.func.id, {}).get(attr)  # type: ignore[attr-defined]
        if p is None:
            return None
        me, e = p  # type: ignore[misc]

        class _Fields(ast.NodeTransformer):
            ok = True

            def visit_Attribute(self, node: ast.Attribute):  # noqa: N802
                if isinstance(node.value, ast.Name) and node.value.id == me:
                    if node.attr in c and isinstance(node.ctx, ast.Load):
                        return _copy.deepcopy(c[node.attr])
                    _Fields.ok = False
                    return node
                return self.generic_visit(node)

            def visit_Name(self, node: ast.Name):  # noqa: N802
                if node.id == me:
                    _Fields.ok = False  # self used as a whole
                return node
        out = _Fields().visit(_copy.deepcopy(e))
        return ast.fix_missing_locations(out) if _Fields.ok else None


# ------------------------------------------------------------------------------------------------------------ self-call graph of a class
def self_calls(fn: ast.AST, methods: dict[str, ast.FunctionDef]) -> list[tuple[ast.Call, str]]:
    """calls, in the body of method fn (nested defs included), of a method of its own class through the first parameter (`self.m(..)`, `cls.m(..)`)"""
    if not fn.args.args:  # type: ignore[attr-defined]
        return []
    me = fn.args.args[0].arg  # type: ignore[attr-defined]
    return [(c, c.func.attr) for c in own_nodes(fn, include_nested=True)
            if isinstance(c, ast.Call) and isinstance(c.func, ast.Attribute) and c.func.attr in methods and isinstance(c.func.value, ast.Name) and c.func.value.id == me]


def reaching_methods(methods: dict[str, ast.FunctionDef], direct: set[str]) -> set[str]:
    """`direct` closed under: a method that calls, through self, a method of the set"""
    out = set(direct)
    changed = True
    while changed:
        changed = False
        for name, f in methods.items():
            if name not in out and any(m in out for _c, m in self_calls(f, methods)):
                out.add(name)
                changed = True
    return out


def is_static(fn: ast.AST) -> bool:
    return any(isinstance(d, ast.Name) and d.id == "staticmethod" for d in getattr(fn, "decorator_list", []))


def passed_env(caller: ast.AST, env: dict[str, Optional[bool]], callee: ast.AST, call: ast.Call, skip_first: bool) -> dict[str, Optional[bool]]:
    """truth values a call fixes for the parameters of callee: those of constant_arg_env (literal arguments and defaults), and for a parameter
    bound to a parameter of the caller that the caller never re-binds, what `env` knows about that one"""
    out = constant_arg_env(callee, call, skip_first=skip_first)
    params = [a.arg for a in callee.args.posonlyargs + callee.args.args]  # type: ignore[attr-defined]
    pos = params[1:] if skip_first else params
    if any(isinstance(a, ast.Starred) for a in call.args) or any(k.arg is None for k in call.keywords):
        return out
    bound: dict[str, ast.AST] = dict(zip(pos, call.args))
    for k in call.keywords:
        bound[k.arg] = k.value  # type: ignore[index]
    rebound = _stores(caller.body)  # type: ignore[attr-defined]
    for p, a in bound.items():
        if isinstance(a, ast.Name) and a.id not in rebound:
            for suffix in ("", " is None", " is not None"):
                if a.id + suffix in env:
                    out[p + suffix] = env[a.id + suffix]
    return out


def entry_env(fn: ast.AST, env: dict[str, Optional[bool]]) -> dict[str, Optional[bool]]:
    """env without what it says about parameters that fn re-binds: a branch test that mentions such a one need not see the value at entry"""
    rebound = _stores(fn.body)  # type: ignore[attr-defined]
    return {k: v for k, v in env.items() if k.split(" ")[0] not in rebound}


# ======================================================================================================================
# Round 3: a loop over a literal table IS its unrolling; an in-place operator called as a function IS the augmented assignment
# (every rule of C10 reads the update evaluators as a sequence of template mutations `<graph> -= / += <filled template>` in control-flow
# order; a maintainer may fold the two phases into `for part, change, fresh in ((u.delete, operator.isub, False), (u.insert, operator.iadd,
# True)): ...` - the callable `change` can evaluate to, the template `part` stands for and the order of the phases are what the TABLE
# says, row by row.  `plain(mod)` gives the module with such loops written out and `operator.iXXX(a, b)` written `a X= b`; a module
# without either is returned as it is)
# ======================================================================================================================
_INPLACE_OPS: dict[str, type] = {
    "isub": ast.Sub, "iadd": ast.Add, "ior": ast.BitOr, "iand": ast.BitAnd, "ixor": ast.BitXor, "imul": ast.Mult,
    "__isub__": ast.Sub, "__iadd__": ast.Add, "__ior__": ast.BitOr, "__iand__": ast.BitAnd, "__ixor__": ast.BitXor, "__imul__": ast.Mult,
}


def _operator_bindings(tree: ast.Module) -> tuple[set[str], dict[str, str]]:
    """(names bound to the module `operator`, names bound to one of its functions -> that function) by the imports of the module"""
    mods: set[str] = set()
    direct: dict[str, str] = {}
    for st in ast.walk(tree):
        if isinstance(st, ast.Import):
            for a in st.names:
                if a.name == "operator":
                    mods.add(a.asname or a.name)
        elif isinstance(st, ast.ImportFrom) and st.module == "operator" and not st.level:
            for a in st.names:
                direct[a.asname or a.name] = a.name
    return mods, direct


def _display_rows(e: ast.AST) -> Optional[list[ast.expr]]:
    if isinstance(e, (ast.Tuple, ast.List)) and not any(isinstance(x, ast.Starred) for x in e.elts):
        return list(e.elts)
    return None


def _stable_cell(e: ast.AST) -> bool:
    """a cell of a table that denotes the same value wherever it is read: a constant, a name, an attribute chain on a name"""
    if isinstance(e, ast.Constant):
        return True
    while isinstance(e, ast.Attribute):
        e = e.value
    return isinstance(e, ast.Name)


def _exits_loop(st: ast.AST) -> bool:
    """does st contain a `continue` / `break` of the loop whose body it is in (not of a loop nested in st)"""
    if isinstance(st, (ast.Continue, ast.Break)):
        return True
    if isinstance(st, (ast.For, ast.AsyncFor, ast.While)):
        return any(_exits_loop(x) for x in st.orelse)
    if isinstance(st, (ast.FunctionDef, ast.AsyncFunctionDef, ast.ClassDef, ast.Lambda)):
        return False
    return any(_exits_loop(c) for c in ast.iter_child_nodes(st))


def _continue_as_condition(block: list[ast.stmt]) -> Optional[list[ast.stmt]]:
    """the body of a loop with `if T: continue` at its top level written as `if not T: <rest>`; None where the body leaves the
    iteration in another way"""
    out: list[ast.stmt] = []
    for i, st in enumerate(block):
        if isinstance(st, ast.If) and not st.orelse and len(st.body) == 1 and isinstance(st.body[0], ast.Continue) and not _exits_loop(st.test):
            rest = _continue_as_condition(block[i + 1:])
            if rest is None:
                return None
            if rest:
                t = st.test
                neg = t.operand if isinstance(t, ast.UnaryOp) and isinstance(t.op, ast.Not) else ast.copy_location(ast.UnaryOp(op=ast.Not(), operand=t), t)
                out.append(ast.copy_location(ast.If(test=neg, body=rest, orelse=[]), st))
            return out
        if _exits_loop(st):
            return None
        out.append(st)
    return out


def _table_of(fn: ast.AST, block: list[ast.stmt], i: int) -> Optional[list[ast.expr]]:
    """the rows the loop block[i] iterates, where that is a display written in the loop header, or a local that is bound once, to a
    display, by a statement of the same block before the loop, and read by nothing but this loop"""
    loop = block[i]
    it = loop.iter  # type: ignore[attr-defined]
    rows = _display_rows(it)
    if rows is not None:
        return rows
    if not isinstance(it, ast.Name):
        return None
    occ = [n for n in ast.walk(fn) if isinstance(n, ast.Name) and n.id == it.id]
    if len(occ) != 2 or it.id in {a.arg for a in ast.walk(fn) if isinstance(a, ast.arg)}:
        return None
    for st in block[:i]:
        v = bound_value(st, it.id) if isinstance(st, (ast.Assign, ast.AnnAssign)) else None
        if v is not None:
            return _display_rows(v)
    return None


def _unrolled(fn: ast.AST, block: list[ast.stmt], i: int) -> Optional[list[ast.stmt]]:
    loop = block[i]
    if not isinstance(loop, ast.For) or loop.orelse:
        return None
    tg = loop.target
    names = [tg] if isinstance(tg, ast.Name) else list(tg.elts) if isinstance(tg, (ast.Tuple, ast.List)) else None
    if not names or not all(isinstance(n, ast.Name) for n in names):
        return None
    ids = [n.id for n in names]  # type: ignore[attr-defined]
    if len(set(ids)) != len(ids):
        return None
    rows = _table_of(fn, block, i)
    if not rows or len(rows) > 8:
        return None
    cells: list[list[ast.expr]] = []
    for r in rows:
        c = [r] if isinstance(tg, ast.Name) else _display_rows(r)
        if c is None or len(c) != len(ids) or not all(_stable_cell(x) for x in c):
            return None
        cells.append(c)
    # the loop variables live in the loop only, and nothing in the loop re-binds them or what a cell is read from
    inside = {id(n) for n in ast.walk(loop)}
    for n in ast.walk(fn):
        if isinstance(n, ast.Name) and n.id in ids and id(n) not in inside:
            return None
        if isinstance(n, ast.arg) and n.arg in ids:
            return None
    cell_texts = {norm(x) for c in cells for x in c if not isinstance(x, ast.Constant)}
    cell_roots = {t.split(".")[0] for t in cell_texts}
    for st in loop.body:
        for n in ast.walk(st):
            if isinstance(n, (ast.FunctionDef, ast.AsyncFunctionDef, ast.ClassDef, ast.Lambda)):
                return None
            if isinstance(n, ast.Name) and not isinstance(n.ctx, ast.Load) and (n.id in ids or n.id in cell_roots):
                return None
            if isinstance(n, ast.Attribute) and not isinstance(n.ctx, ast.Load) and any(t == norm(n) or t.startswith(norm(n) + ".") for t in cell_texts):
                return None
    body = _continue_as_condition(loop.body)
    if body is None:
        return None
    out: list[ast.stmt] = []
    for c in cells:
        sub = _Subst(dict(zip(ids, c)))
        for st in body:
            out.append(sub.visit(_copy.deepcopy(st)))
    return out


def _unroll_block(fn: ast.AST, block: list[ast.stmt]) -> bool:
    changed = False
    i = 0
    while i < len(block):
        st = block[i]
        if isinstance(st, (ast.FunctionDef, ast.AsyncFunctionDef, ast.ClassDef)):
            i += 1
            continue
        if isinstance(st, ast.For):
            new = _unrolled(fn, block, i)
            if new is not None:
                block[i:i + 1] = new
                changed = True
                continue  # the rows are read again: a table loop in a table loop
        for fld in ("body", "orelse", "finalbody"):
            sub = getattr(st, fld, None)
            if isinstance(sub, list) and sub and isinstance(sub[0], ast.stmt):
                changed |= _unroll_block(fn, sub)
        for h in getattr(st, "handlers", []) or []:
            changed |= _unroll_block(fn, h.body)
        i += 1
    return changed


class _FoldPlain(ast.NodeTransformer):
    """`X if <constant> else Y`, `if <constant>:` decided; `t = operator.isub(t, v)` / the bare call written `t -= v`"""

    def __init__(self, mods: set[str], direct: dict[str, str]):
        self.mods, self.direct = mods, direct
        self.changed = False
        self.fresh = 0

    def _op(self, f: ast.AST) -> Optional[type]:
        if isinstance(f, ast.Attribute) and isinstance(f.value, ast.Name) and f.value.id in self.mods:
            return _INPLACE_OPS.get(f.attr)
        if isinstance(f, ast.Name) and f.id in self.direct:
            return _INPLACE_OPS.get(self.direct[f.id])
        return None

    def _call(self, v: ast.AST) -> Optional[tuple[type, ast.expr, ast.expr]]:
        if isinstance(v, ast.Call) and len(v.args) == 2 and not v.keywords and not any(isinstance(a, ast.Starred) for a in v.args):
            op = self._op(v.func)
            if op is not None:
                return op, v.args[0], v.args[1]
        return None

    def visit_IfExp(self, node: ast.IfExp):  # noqa: N802
        self.generic_visit(node)
        if isinstance(node.test, ast.Constant):
            self.changed = True
            return node.body if node.test.value else node.orelse
        return node

    def visit_If(self, node: ast.If):  # noqa: N802
        self.generic_visit(node)
        if isinstance(node.test, ast.Constant):
            self.changed = True
            return (node.body if node.test.value else node.orelse) or ast.copy_location(ast.Pass(), node)
        return node

    @staticmethod
    def _store(e: ast.expr) -> ast.expr:
        e = _copy.deepcopy(e)
        e.ctx = ast.Store()  # type: ignore[attr-defined]
        return e

    def visit_Assign(self, node: ast.Assign):  # noqa: N802
        self.generic_visit(node)
        c = self._call(node.value)
        if c is not None and len(node.targets) == 1 and isinstance(node.targets[0], (ast.Name, ast.Attribute, ast.Subscript)) and norm(node.targets[0]) == norm(c[1]):
            self.changed = True
            return ast.copy_location(ast.AugAssign(target=node.targets[0], op=c[0](), value=c[2]), node)
        return node

    def visit_Expr(self, node: ast.Expr):  # noqa: N802
        self.generic_visit(node)
        c = self._call(node.value)
        if c is None:
            return node
        self.changed = True
        op, recv, val = c
        if isinstance(recv, (ast.Name, ast.Attribute, ast.Subscript)):
            return ast.copy_location(ast.AugAssign(target=self._store(recv), op=op(), value=val), node)
        # the receiver is computed: it is held in a local of its own, as `g = <receiver>; g -= <value>`
        self.fresh += 1
        nm = "_receiver_%d_%d" % (getattr(node, "lineno", 0), self.fresh)
        bind = ast.copy_location(ast.Assign(targets=[ast.copy_location(ast.Name(id=nm, ctx=ast.Store()), recv)], value=recv), node)
        aug = ast.copy_location(ast.AugAssign(target=ast.copy_location(ast.Name(id=nm, ctx=ast.Store()), recv), op=op(), value=val), node)
        return [bind, aug]


def plain(mod):
    """`mod` with its loops over literal tables written out row by row and the in-place operators of `operator` written as augmented
    assignments (positions kept, so the typed facts still apply); `mod` itself where there is nothing of the kind"""
    from .core import Module

    cached = getattr(mod, "_c10_plain", None)
    if cached is not None:
        return cached
    tree = _copy.deepcopy(mod.tree)
    changed = False
    for fn in [n for n in ast.walk(tree) if isinstance(n, (ast.FunctionDef, ast.AsyncFunctionDef))]:
        changed |= _unroll_block(fn, fn.body)
    mods, direct = _operator_bindings(tree)
    fold = _FoldPlain(mods, direct)
    if changed or mods or direct:
        tree = fold.visit(tree)
        changed |= fold.changed
    out = mod
    if changed:
        ast.fix_missing_locations(tree)
        out = Module(mod.name, mod.path, mod.rel, mod.text, tree=tree)
    try:
        mod._c10_plain = out
    except Exception:
        pass
    return out


def reaching_assignments(mod, fn: ast.AST, use: ast.Name) -> list[Optional[ast.AST]]:
    """the statements whose binding of the local `use.id` can reach the evaluation of `use` (reaching definitions on the statement CFG);
    None stands for a binding that is not a plain assignment `name = value` (loop variable, unpacking, augmented, with ... as)"""
    du = DefUse(mod, fn, set())
    out: list[Optional[ast.AST]] = []
    for kind, src, _ in du.bindings(use.id, use):
        st = mod.parent.get(id(src)) if kind == "assign" else None
        if isinstance(st, (ast.Assign, ast.AnnAssign)) and st.value is src and (isinstance(st, ast.AnnAssign) or len(st.targets) == 1 and isinstance(st.targets[0], ast.Name)):
            out.append(st)
        else:
            out.append(None)
    return out


def precedes_in(mod, scope: ast.AST, st: ast.AST, node: ast.AST) -> bool:
    """st, a statement of scope.body, comes before the statement of scope.body that contains node"""
    body = list(getattr(scope, "body", []))
    top = node
    for p in mod.parents(node):
        if p is scope:
            break
        top = p
    else:
        return False
    idx = {id(s): i for i, s in enumerate(body)}
    return id(st) in idx and id(top) in idx and idx[id(st)] < idx[id(top)]


def looked_up_through(fn: ast.AST, param: str) -> bool:
    """is the value of parameter `param` subscripted in fn: under its own name, or under a local bound once, by a plain copy `x = param` (copies of
    copies too), in the body of fn or in a function nested in it that does not bind that name itself"""
    names = {param}

    def once(name: str) -> bool:  # a local that is nothing but the copy: bound by that one statement of fn
        return sum(1 for x in ast.walk(fn) if isinstance(x, ast.Name) and x.id == name and isinstance(x.ctx, (ast.Store, ast.Del))) == 1

    grew = True
    while grew:
        grew = False
        for n in own_nodes(fn):
            v, t = None, None
            if isinstance(n, ast.Assign) and len(n.targets) == 1:
                t, v = n.targets[0], n.value
            elif isinstance(n, ast.AnnAssign):
                t, v = n.target, n.value
            if isinstance(t, ast.Name) and isinstance(v, ast.Name) and v.id in names and t.id not in names and once(t.id):
                names.add(t.id)
                grew = True

    def scan(node: ast.AST, live: set[str]) -> bool:
        for c in ast.iter_child_nodes(node):
            if isinstance(c, (ast.FunctionDef, ast.AsyncFunctionDef, ast.Lambda)):
                own = {a.arg for a in ast.walk(c.args) if isinstance(a, ast.arg)}
                if not isinstance(c, ast.Lambda):
                    own |= _stores(c.body)
                if scan(c, live - own):
                    return True
                continue
            if isinstance(c, ast.Subscript) and isinstance(c.value, ast.Name) and c.value.id in live:
                return True
            if scan(c, live):
                return True
        return False

    return scan(fn, names)


def is_operation_name(du: "DefUse", e: ast.AST) -> bool:
    """does e denote the name of the operation being translated: `<x>.name`, or a local whose one binding is a plain copy of that"""
    if norm(e).endswith(".name"):
        return True
    if isinstance(e, ast.Name):
        bs = du.bindings(e.id)
        return len(bs) == 1 and bs[0][0] == "assign" and isinstance(bs[0][1], ast.Attribute) and bs[0][1].attr == "name"
    return False


def constant_members(mod, k: ast.AST, depth: int = 0) -> Optional[set]:
    """the constants a collection expression holds: a display of constants, frozenset/set/tuple/list of one, or a name of the module that
    is bound exactly once in the whole module, at its top level, to one of these; None where it cannot be told"""
    if isinstance(k, (ast.Tuple, ast.List, ast.Set)):
        return {x.value for x in k.elts if isinstance(x, ast.Constant)}
    if isinstance(k, ast.Call) and isinstance(k.func, ast.Name) and k.func.id in ("frozenset", "set", "tuple", "list") and len(k.args) == 1 and not k.keywords:
        return constant_members(mod, k.args[0], depth)
    if isinstance(k, ast.Name) and depth < 3:
        stores = [n for n in ast.walk(mod.tree) if isinstance(n, ast.Name) and n.id == k.id and isinstance(n.ctx, (ast.Store, ast.Del))]
        args = [a for a in ast.walk(mod.tree) if isinstance(a, ast.arg) and a.arg == k.id]
        if len(stores) != 1 or args:
            return None
        for st in mod.tree.body:
            if isinstance(st, (ast.Assign, ast.AnnAssign)):
                v = bound_value(st, k.id)
                if v is not None:
                    return constant_members(mod, v, depth + 1)
    return None
