"""Helpers of check C10 (rules m-s): guard facts that hold at a node, def-use of locals, request-rootedness.

Everything here is syntactic over one function; names are resolved by def-use, never by spelling.
"""
from __future__ import annotations

import ast
from typing import Iterator, Optional

from .cfg import CFG, eval3, reaching_defs
from .core import norm, own_nodes

_TERMINATORS = (ast.Continue, ast.Return, ast.Raise, ast.Break)
_COMPS = (ast.ListComp, ast.SetComp, ast.GeneratorExp, ast.DictComp)


def _terminates(body: list) -> bool:
    return bool(body) and isinstance(body[-1], _TERMINATORS)


def _stores(stmts) -> set[str]:
    out: set[str] = set()
    for s in stmts:
        for n in ast.walk(s):
            if isinstance(n, ast.Name) and isinstance(n.ctx, (ast.Store, ast.Del)):
                out.add(n.id)
    return out


def _names(e: ast.AST) -> set[str]:
    return {n.id for n in ast.walk(e) if isinstance(n, ast.Name)}


def guard_facts(mod, fn: ast.AST, node: ast.AST) -> list[tuple[ast.expr, bool]]:
    """(condition, truth) pairs that hold whenever `node` is evaluated inside fn: tests of the enclosing if / while / conditional
    expressions, the operands that short-circuit evaluation has already decided, comprehension filters, and the early exits
    (`if T: continue|return|raise|break`, `assert T`) among the statements that precede it in every enclosing block.  A condition
    that mentions a local re-bound between the test and the node is dropped."""
    facts: list[tuple[ast.expr, bool]] = []
    killed: set[str] = set()

    def add(test: ast.expr, truth: bool) -> None:
        if not (_names(test) & killed):
            facts.append((test, truth))

    child = node
    for p in mod.parents(node):
        # expression level
        if isinstance(p, ast.IfExp):
            if child is p.body:
                add(p.test, True)
            elif child is p.orelse:
                add(p.test, False)
        elif isinstance(p, ast.BoolOp):
            for v in p.values:
                if v is child:
                    break
                add(v, isinstance(p.op, ast.And))
        elif isinstance(p, _COMPS):
            if child is getattr(p, "elt", None) or child is getattr(p, "key", None) or child is getattr(p, "value", None):
                for gen in p.generators:
                    for c in gen.ifs:
                        add(c, True)
        elif isinstance(p, ast.comprehension):
            if child in p.ifs:
                for c in p.ifs[:p.ifs.index(child)]:
                    add(c, True)
        # statement level: the block that holds child
        for field in ("body", "orelse", "finalbody"):
            blk = getattr(p, field, None)
            if not isinstance(blk, list) or not any(s is child for s in blk):
                continue
            idx = [i for i, s in enumerate(blk) if s is child][0]
            for st in reversed(blk[:idx]):
                if isinstance(st, ast.If) and _terminates(st.body) and not st.orelse:
                    add(st.test, False)
                elif isinstance(st, ast.If) and st.orelse and _terminates(st.orelse) and not _terminates(st.body):
                    add(st.test, True)
                elif isinstance(st, ast.If) and st.orelse and _terminates(st.body) and not _terminates(st.orelse):
                    add(st.test, False)
                elif isinstance(st, ast.Assert):
                    add(st.test, True)
                killed |= _stores([st])
            if isinstance(p, (ast.If, ast.While)):
                if field == "body":
                    add(p.test, True)
                elif field == "orelse" and isinstance(p, ast.If):
                    add(p.test, False)
        if isinstance(p, (ast.For, ast.AsyncFor, ast.While)):
            killed |= _stores([p])  # anything the loop re-binds may differ from what an outer test saw
        if p is fn:
            break
        child = p
    return facts


def atoms(facts: list[tuple[ast.expr, bool]]) -> Iterator[tuple[ast.expr, bool]]:
    """split conjunctions that hold / disjunctions that fail into their operands, push `not` inwards"""
    for e, truth in facts:
        if isinstance(e, ast.BoolOp) and ((isinstance(e.op, ast.And) and truth) or (isinstance(e.op, ast.Or) and not truth)):
            yield from atoms([(v, truth) for v in e.values])
        elif isinstance(e, ast.UnaryOp) and isinstance(e.op, ast.Not):
            yield from atoms([(e.operand, not truth)])
        else:
            yield e, truth


def feasible(mod, fn: ast.AST, node: ast.AST, env: dict[str, Optional[bool]]) -> bool:
    """can `node` be evaluated when the invariant conditions have the truth values of env (three-valued; unknown = feasible)"""
    for test, truth in guard_facts(mod, fn, node):
        v = eval3(test, env)
        if v is not None and v != truth:
            return False
    return True


def isinstance_facts(mod, fn: ast.AST, node: ast.AST) -> list[tuple[str, list[ast.expr], bool]]:
    """(normalised subject, class expressions, truth) of every isinstance atom that holds at node"""
    out = []
    for e, truth in atoms(guard_facts(mod, fn, node)):
        if isinstance(e, ast.Call) and isinstance(e.func, ast.Name) and e.func.id == "isinstance" and len(e.args) == 2:
            cl = e.args[1]
            out.append((norm(e.args[0]), list(cl.elts) if isinstance(cl, ast.Tuple) else [cl], truth))
    return out


def not_none_facts(mod, fn: ast.AST, node: ast.AST) -> set[str]:
    """normalised expressions known to be `is not None` at node"""
    out = set()
    for e, truth in atoms(guard_facts(mod, fn, node)):
        if isinstance(e, ast.Compare) and len(e.ops) == 1 and isinstance(e.comparators[0], ast.Constant) and e.comparators[0].value is None:
            if (isinstance(e.ops[0], ast.Is) and not truth) or (isinstance(e.ops[0], ast.IsNot) and truth):
                out.add(norm(e.left))
    return out


# ------------------------------------------------------------------------------------------------------------- def-use
def container_of(it: ast.AST) -> ast.AST:
    """the container a loop head iterates: `X`, `X.items()`, `X.keys()`, `list(X)`, `sorted(X)` -> X"""
    while True:
        if isinstance(it, ast.Call) and isinstance(it.func, ast.Attribute) and it.func.attr in ("items", "keys") and not it.args:
            it = it.func.value
        elif isinstance(it, ast.Call) and isinstance(it.func, ast.Name) and it.func.id in ("list", "tuple", "sorted") and len(it.args) == 1:
            it = it.args[0]
        else:
            return it


class DefUse:
    """flow-sensitive def-use of the locals of one function (a name may be re-used for unrelated things: `g` in the update
    evaluators is the default graph AND the loop variable over the GRAPH blocks) - reaching definitions on the statement CFG"""

    def __init__(self, mod, fn: ast.AST, params: set[str]):
        self.mod, self.fn, self.params = mod, fn, params
        self.cfg = CFG(fn)

    def bindings(self, name: str, at: Optional[ast.AST] = None) -> list[tuple[str, ast.AST, Optional[int]]]:
        """bindings of local `name` (those that can reach the evaluation of node `at`, if given):
        ('assign', value, None) | ('unpack', value, i) | ('for', loop, i or None) | ('comp', comprehension, i or None) | ('other', node, None)"""
        out: list[tuple[str, ast.AST, Optional[int], ast.AST]] = []

        def tgt(t: ast.AST, kind: str, src: ast.AST, stmt: ast.AST) -> None:
            if isinstance(t, ast.Name) and t.id == name:
                out.append((kind, src, None, stmt))
            elif isinstance(t, (ast.Tuple, ast.List)):
                for i, e in enumerate(t.elts):
                    if isinstance(e, ast.Name) and e.id == name:
                        out.append(("unpack" if kind == "assign" else kind, src, i, stmt))
                    elif isinstance(e, (ast.Tuple, ast.List, ast.Starred)) and name in _names(e):
                        out.append(("other", src, None, stmt))

        if at is not None:  # a comprehension variable shadows the function's local inside the comprehension
            child = at
            for p in self.mod.parents(at):
                if isinstance(p, _COMPS):
                    for gen in p.generators:
                        if name in _names(gen.target) and not (child is gen and gen is p.generators[0]):
                            tgt(gen.target, "comp", gen, p)
                            return [(k, s, i) for k, s, i, _ in out]
                if p is self.fn:
                    break
                child = p
        for n in own_nodes(self.fn):
            if isinstance(n, ast.Assign):
                for t in n.targets:
                    tgt(t, "assign", n.value, n)
            elif isinstance(n, ast.AnnAssign) and n.value is not None:
                tgt(n.target, "assign", n.value, n)
            elif isinstance(n, (ast.For, ast.AsyncFor)):
                tgt(n.target, "for", n, n)
            elif isinstance(n, ast.AugAssign) and isinstance(n.target, ast.Name) and n.target.id == name:
                out.append(("other", n, None, n))
            elif isinstance(n, ast.NamedExpr) and n.target.id == name:
                out.append(("other", n, None, n))
            elif isinstance(n, (ast.With, ast.AsyncWith)):
                for it in n.items:
                    if it.optional_vars is not None and name in _names(it.optional_vars):
                        out.append(("other", n, None, n))
        if at is not None:
            rd = reaching_defs(self.cfg, self.cfg.node_of(at, self.mod), name, {})
            out = [b for b in out if self.cfg.by_ast.get(id(b[3])) in rd]
        return [(k, s, i) for k, s, i, _ in out]

    def rooted_in(self, e: ast.AST, at: ast.AST, depth: int = 0) -> bool:
        """e (evaluated at node `at`) denotes part of the parsed request: an attribute / subscript / dict-view chain rooted in one of
        the request parameters, or a local that can only have been bound by iterating, unpacking or copying such an expression"""
        while True:
            if isinstance(e, (ast.Attribute, ast.Subscript, ast.Starred)):
                e = e.value
            elif isinstance(e, ast.Call) and isinstance(e.func, ast.Attribute) and e.func.attr in ("items", "keys", "values", "get", "copy"):
                e = e.func.value
            elif isinstance(e, ast.Call) and isinstance(e.func, ast.Name) and e.func.id in ("list", "tuple", "sorted") and len(e.args) == 1:
                e = e.args[0]
            else:
                break
        if not isinstance(e, ast.Name):
            return False
        if e.id in self.params:
            return True
        if depth > 4:
            return False
        bs = self.bindings(e.id, at)
        if not bs:
            return False
        for kind, src, _ in bs:
            if kind in ("for", "comp"):
                if not self.rooted_in(src.iter, src.iter, depth + 1):  # type: ignore[attr-defined]
                    return False
            elif kind in ("assign", "unpack"):
                if not self.rooted_in(src, src, depth + 1):
                    return False
            else:
                return False
        return True

    def request_key(self, e: ast.AST, at: ast.AST) -> Optional[str]:
        """if e is a local that (at `at`) can only be the iteration variable - or the first element of the `.items()` pair - of a loop
        over a container of the parsed request, i.e. a graph term of the request used as it is: the normalised text of that container"""
        if not isinstance(e, ast.Name) or e.id in self.params:
            return None
        bs = self.bindings(e.id, at)
        if not bs:
            return None
        conts = set()
        for kind, src, i in bs:
            if kind not in ("for", "comp") or i not in (None, 0):
                return None
            it = src.iter  # type: ignore[attr-defined]
            if not self.rooted_in(it, it):
                return None
            conts.add(norm(container_of(it)))
        return conts.pop() if len(conts) == 1 else None

    def solution_lookup(self, e: ast.AST, at: ast.AST, depth: int = 0) -> Optional[tuple[str, ast.AST]]:
        """if e is `S.get(K)` / `S[K]` with K a request key and S not part of the request (or a local that can only hold such a
        lookup): (container of K, the lookup expression)"""
        if isinstance(e, ast.Call) and isinstance(e.func, ast.Attribute) and e.func.attr == "get" and e.args:
            k = self.request_key(e.args[0], at)
            if k is not None and not self.rooted_in(e.func.value, at):
                return k, e
        if isinstance(e, ast.Subscript):
            k = self.request_key(e.slice, at)
            if k is not None and not self.rooted_in(e.value, at):
                return k, e
        if isinstance(e, ast.Name) and e.id not in self.params and depth < 3:
            found = []
            for kind, src, _ in self.bindings(e.id, at):
                r = self.solution_lookup(src, src, depth + 1) if kind == "assign" else None
                if r is None:
                    return None
                found.append(r)
            if found and len({r[0] for r in found}) == 1:
                return found[0]
        return None
