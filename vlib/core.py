"""Shared infrastructure of the static checks.

* Repo      – parses every rdflib/**/*.py of the tree under analysis (default
              /repo, env VERIF_REPO overrides for self-test scratch copies)
              with stdlib ``ast``; never imports rdflib.
* Typed     – facts from the type-checked program (mypy as a library, run in a
              subprocess, cached by digest of the sources).
* Report    – obligations, findings, known findings, evidence, exit code.
"""
from __future__ import annotations

import ast
import hashlib
import json
import os
import subprocess
import sys
import time
from pathlib import Path
from typing import Any, Callable, Iterable, Iterator, Optional

VERIF = Path(__file__).resolve().parent.parent
REPO_ROOT = Path(os.environ.get("VERIF_REPO", "/repo"))
CACHE = Path(os.environ.get("VERIF_CACHE", str(VERIF / ".cache")))
EVID_DIR = Path(os.environ.get("VERIF_EVIDENCE_DIR", str(VERIF / "evidence")))
PY = "/venv/bin/python"


class AnalysisError(Exception):
    """The analysis cannot decide (anchor vanished, unmodelled idiom)."""


# --------------------------------------------------------------------------- AST


def norm(node: ast.AST | str) -> str:
    """Normalised text of a construct: position- and formatting-independent."""
    if isinstance(node, str):
        return " ".join(node.split())
    try:
        return " ".join(ast.unparse(node).split())
    except Exception:  # pragma: no cover
        return type(node).__name__


def canon(construct: "ast.AST | str") -> str:
    """alpha-canonical form of a construct: every Name is replaced by v0, v1, ... in order of first occurrence, so that
    table rows and known findings keep matching when local variables are renamed.  Falls back to the normalised text
    when the construct is not a parsable statement/expression."""
    text = norm(construct)
    try:
        tree = ast.parse(text)
    except SyntaxError:
        return text
    # a bare name (or `not name`) carries no structure besides the name itself: keep it
    body = tree.body[0] if len(tree.body) == 1 else None
    if isinstance(body, ast.Expr) and isinstance(body.value, (ast.Name, ast.Constant)):
        return text
    # assign in source order, not walk order
    order: dict[str, str] = {}
    for n in sorted((x for x in ast.walk(tree) if isinstance(x, ast.Name)), key=lambda x: (x.lineno, x.col_offset)):
        if n.id not in order:
            order[n.id] = "v%d" % len(order)
    for n in ast.walk(tree):
        if isinstance(n, ast.Name):
            n.id = order[n.id]
    return norm(ast.unparse(tree))


class Module:
    def __init__(self, name: str, path: Path, rel: str, text: str):
        self.name = name
        self.path = path
        self.rel = rel
        self.text = text
        self.tree = ast.parse(text, filename=str(path))
        self.parent: dict[int, ast.AST] = {}
        self.scope: dict[int, str] = {}
        self.defs: dict[str, ast.AST] = {}  # qualname -> FunctionDef/ClassDef
        self._index(self.tree, None, "")

    def _index(self, node: ast.AST, parent: Optional[ast.AST], qual: str) -> None:
        for child in ast.iter_child_nodes(node):
            self.parent[id(child)] = node
            q = qual
            if isinstance(child, (ast.FunctionDef, ast.AsyncFunctionDef, ast.ClassDef)):
                q = (qual + "." if qual else "") + child.name
                # keep the *last* definition with a body for overloads
                if q in self.defs and _is_overload(child):
                    pass
                else:
                    self.defs[q] = child
            self.scope[id(child)] = q
            self._index(child, node, q)

    # -- lookup
    def get(self, qualname: str) -> ast.AST:
        try:
            return self.defs[qualname]
        except KeyError:
            raise AnalysisError(
                "anchor vanished: %s:%s not found" % (self.rel, qualname)
            ) from None

    def has(self, qualname: str) -> bool:
        return qualname in self.defs

    def func(self, qualname: str) -> ast.FunctionDef:
        n = self.get(qualname)
        if not isinstance(n, (ast.FunctionDef, ast.AsyncFunctionDef)):
            raise AnalysisError("%s:%s is not a function" % (self.rel, qualname))
        return n  # type: ignore[return-value]

    def cls(self, qualname: str) -> ast.ClassDef:
        n = self.get(qualname)
        if not isinstance(n, ast.ClassDef):
            raise AnalysisError("%s:%s is not a class" % (self.rel, qualname))
        return n

    def qual_of(self, node: ast.AST) -> str:
        """Qualified name of the innermost def/class enclosing node."""
        if isinstance(node, (ast.FunctionDef, ast.AsyncFunctionDef, ast.ClassDef)):
            return self.scope.get(id(node), "")
        return self.scope.get(id(node), "")

    def parents(self, node: ast.AST) -> Iterator[ast.AST]:
        p = self.parent.get(id(node))
        while p is not None:
            yield p
            p = self.parent.get(id(p))

    def functions(self) -> Iterator[tuple[str, ast.FunctionDef]]:
        for q, n in self.defs.items():
            if isinstance(n, (ast.FunctionDef, ast.AsyncFunctionDef)):
                yield q, n  # type: ignore[misc]

    def methods(self, cls: str) -> dict[str, ast.FunctionDef]:
        c = self.cls(cls)
        out = {}
        for st in c.body:
            if isinstance(st, (ast.FunctionDef, ast.AsyncFunctionDef)):
                if st.name in out and _is_overload(st):
                    continue
                out[st.name] = st
        return out

    def loc(self, node: ast.AST) -> str:
        return "%s:%s" % (self.rel, getattr(node, "lineno", "?"))


def _is_overload(fn: ast.AST) -> bool:
    for d in getattr(fn, "decorator_list", []):
        if (isinstance(d, ast.Name) and d.id == "overload") or (
            isinstance(d, ast.Attribute) and d.attr == "overload"
        ):
            return True
    return False


def own_nodes(fn: ast.AST, include_nested: bool = False) -> Iterator[ast.AST]:
    """Walk the body of a function without descending into nested defs/classes
    (unless include_nested)."""
    stack = list(ast.iter_child_nodes(fn))
    while stack:
        n = stack.pop()
        yield n
        if not include_nested and isinstance(
            n, (ast.FunctionDef, ast.AsyncFunctionDef, ast.ClassDef, ast.Lambda)
        ):
            continue
        stack.extend(ast.iter_child_nodes(n))


class Repo:
    def __init__(self, root: Path | None = None):
        self.root = Path(root or REPO_ROOT)
        self.pkg = self.root / "rdflib"
        if not self.pkg.is_dir():
            raise AnalysisError("no rdflib package under %s" % self.root)
        self.modules: dict[str, Module] = {}
        self._texts: dict[str, str] = {}
        for p in sorted(self.pkg.rglob("*.py")):
            rel = str(p.relative_to(self.root))
            name = rel[:-3].replace("/", ".")
            if name.endswith(".__init__"):
                name = name[: -len(".__init__")]
            text = p.read_text(encoding="utf-8")
            self._texts[rel] = text
            try:
                self.modules[name] = Module(name, p, rel, text)
            except SyntaxError as e:
                raise AnalysisError("cannot parse %s: %s" % (rel, e)) from None
        self._typed: Optional[Typed] = None

    def mod(self, name: str) -> Module:
        try:
            return self.modules[name]
        except KeyError:
            raise AnalysisError("anchor vanished: module %s" % name) from None

    def digest(self) -> str:
        h = hashlib.sha256()
        for rel in sorted(self._texts):
            h.update(rel.encode())
            h.update(b"\0")
            h.update(self._texts[rel].encode("utf-8"))
            h.update(b"\0")
        # extractor version is part of the key
        h.update((VERIF / "vlib" / "typed_extract.py").read_bytes())
        return h.hexdigest()

    @property
    def typed(self) -> "Typed":
        if self._typed is None:
            self._typed = Typed(self)
        return self._typed

    def n_functions(self) -> int:
        return sum(1 for m in self.modules.values() for _ in m.functions())


# ------------------------------------------------------------------------- typed

_KIND = {
    ast.Name: "NameExpr",
    ast.Attribute: "MemberExpr",
    ast.Call: "CallExpr",
    ast.Subscript: "IndexExpr",
    ast.BinOp: "OpExpr",
    ast.BoolOp: "OpExpr",
    ast.Compare: "ComparisonExpr",
    ast.UnaryOp: "UnaryExpr",
    ast.IfExp: "ConditionalExpr",
    ast.NamedExpr: "AssignmentExpr",
}


class TypeFact:
    __slots__ = ("text", "items", "optional", "any")

    def __init__(self, raw: list):
        self.text, self.items, self.optional, self.any = raw

    def __repr__(self) -> str:
        return self.text


class Typed:
    """Facts from mypy, cached under .cache/typed-<digest>.json."""

    def __init__(self, repo: Repo):
        self.repo = repo
        CACHE.mkdir(parents=True, exist_ok=True)
        dig = repo.digest()
        f = CACHE / ("typed-%s.json" % dig[:32])
        data = None
        for attempt in (0, 1):
            data = self._load_or_extract(repo, f, dig)
            if data is not None:
                break
        if data is None:
            raise AnalysisError("typed facts could not be loaded (cache entry vanished twice)")
        self.mods: dict[str, dict] = data["modules"]
        self.classes: dict[str, dict] = data["classes"]
        self.stats = data["stats"]

    def _load_or_extract(self, repo: Repo, f: Path, dig: str):
        self.cached = f.exists()
        if not self.cached:
            t0 = time.time()
            tmp = CACHE / ("typed-%s.%d.json" % (dig[:32], os.getpid()))
            r = subprocess.run(
                [PY, str(VERIF / "vlib" / "typed_extract.py"), str(repo.root), str(tmp)],
                capture_output=True,
                text=True,
            )
            if r.returncode != 0 or not tmp.exists():
                raise AnalysisError(
                    "mypy extraction failed: %s" % (r.stderr or r.stdout)[-2000:]
                )
            os.replace(tmp, f)
            self.extract_s = time.time() - t0
            # keep the cache small: drop older entries
            # (other check processes run concurrently: every file operation here may meet a vanished entry)
            def _mtime(p: Path) -> float:
                try:
                    return p.stat().st_mtime
                except OSError:
                    return 0.0

            olds = sorted(CACHE.glob("typed-*.json"), key=_mtime)
            for p in olds[:-40]:
                try:
                    p.unlink()
                except OSError:
                    pass
        try:
            os.utime(f)
        except OSError:
            pass
        try:
            with open(f) as fh:
                return json.load(fh)
        except (FileNotFoundError, json.JSONDecodeError):
            return None  # evicted by a concurrent run between the existence test and the read: extract again

    @staticmethod
    def _key(node: ast.AST) -> Optional[str]:
        kind = _KIND.get(type(node))
        if kind is None:
            return None
        return "%s:%d:%d:%s:%s" % (
            kind,
            node.lineno,
            node.col_offset,
            node.end_lineno,
            node.end_col_offset,
        )

    def type_of(self, mod: str, node: ast.AST) -> Optional[TypeFact]:
        k = self._key(node)
        if k is None:
            return None
        raw = self.mods.get(mod, {}).get("exprs", {}).get(k)
        return TypeFact(raw) if raw else None

    def callees(self, mod: str, call: ast.Call) -> list[str]:
        k = self._key(call)
        return self.mods.get(mod, {}).get("calls", {}).get(k, []) if k else []

    def ref(self, mod: str, node: ast.AST) -> Optional[str]:
        k = self._key(node)
        return self.mods.get(mod, {}).get("refs", {}).get(k) if k else None

    # class hierarchy helpers
    def mro(self, cls: str) -> list[str]:
        c = self.classes.get(cls)
        return c["mro"] if c else [cls]

    def is_subclass(self, cls: str, base: str) -> bool:
        return base in self.mro(cls)

    def subclasses(self, base: str) -> list[str]:
        return [c for c, d in self.classes.items() if base in d["mro"]]

    def resolve_method(self, cls: str, name: str) -> Optional[str]:
        for b in self.mro(cls):
            d = self.classes.get(b)
            if d and name in d["defs"]:
                return b + "." + name
        return None

    def overrides(self, method_full: str) -> list[str]:
        """method_full = 'pkg.Class.meth' -> all definitions in subclasses
        (including itself) that a call resolved to it may dispatch to."""
        cls, _, name = method_full.rpartition(".")
        if cls not in self.classes:
            return [method_full]
        out = []
        for c, d in self.classes.items():
            if cls in d["mro"] and name in d["defs"]:
                out.append(c + "." + name)
        return out or [method_full]


# ------------------------------------------------------------------------ report


class Report:
    def __init__(self, prop: str, tier: str, repo: Repo):
        self.prop = prop
        self.tier = tier
        self.repo = repo
        self.t0 = time.time()
        self.seed = int(os.environ.get("VERIF_SEED", "0") or 0)
        self.instances: list[dict] = []
        self.findings: list[dict] = []
        self.info: dict[str, Any] = {}
        self.floors: dict[str, int] = {}
        self.rules: dict[str, str] = {}
        self.analysed_funcs: set[str] = set()
        self.assumptions: list[str] = []
        self.extra: dict[str, Any] = {}

    # -- declarations
    def rule(self, rid: str, text: str, floor: int = 1) -> None:
        self.rules[rid] = text
        self.floors[rid] = floor

    def analysed(self, *names: str) -> None:
        self.analysed_funcs.update(names)

    # -- obligations
    def ob(
        self,
        rule: str,
        mod: Module | None,
        where: str,
        construct: ast.AST | str,
        ok: bool,
        detail: str = "",
        node: ast.AST | None = None,
        path: list[str] | None = None,
        vacuous: bool = False,
    ) -> bool:
        """Record one rule instance (an obligation) and its verdict."""
        if rule not in self.rules:
            raise AnalysisError("undeclared rule %s" % rule)
        cons = norm(construct)
        n = node if node is not None else (construct if isinstance(construct, ast.AST) else None)
        inst = {
            "rule": rule,
            "file": mod.rel if mod else "",
            "function": where,
            "construct": cons[:300],
            "ok": bool(ok),
            "line": getattr(n, "lineno", None),
            "detail": detail,
            "vacuous": vacuous,
        }
        if path:
            inst["path"] = path
        self.instances.append(inst)
        if not ok:
            self.findings.append(inst)
        return ok

    # -- finish
    def _known(self) -> list[dict]:
        f = VERIF / "known_findings.json"
        if not f.exists():
            return []
        try:
            data = json.load(open(f))
        except Exception as e:
            raise AnalysisError("known_findings.json unreadable: %s" % e)
        return [
            k
            for k in data.get("findings", [])
            if k.get("property") == self.prop and k.get("status") == "open"
        ]

    @staticmethod
    def _match(k: dict, f: dict) -> bool:
        return (
            k.get("rule") == f["rule"]
            and k.get("function") == f["function"]
            and canon(k.get("construct", "")) == canon(f["construct"])
        )

    def finish(self) -> int:
        # vacuity floors
        counts: dict[str, int] = {}
        for i in self.instances:
            if not i.get("vacuous"):
                counts[i["rule"]] = counts.get(i["rule"], 0) + 1
        floor_errors = []
        for rid, floor in self.floors.items():
            if counts.get(rid, 0) < floor:
                floor_errors.append(
                    "rule %s matched %d instance(s), fewer than the %d confirmed by hand "
                    "on the pinned tree - the rule has lost its anchor"
                    % (rid, counts.get(rid, 0), floor)
                )
        known = self._known()
        unlisted, listed = [], []
        for f in self.findings:
            if any(self._match(k, f) for k in known):
                listed.append(f)
            else:
                unlisted.append(f)
        # replay files
        rdir = EVID_DIR / "replay"
        rdir.mkdir(parents=True, exist_ok=True)
        for old in rdir.glob("%s-*.json" % self.prop):
            old.unlink()
        lines = []
        for n, f in enumerate(unlisted):
            rp = rdir / ("%s-%d.json" % (self.prop, n))
            json.dump(
                {
                    "property": self.prop,
                    "rule": f["rule"],
                    "rule_text": self.rules[f["rule"]],
                    "finding": f,
                    "repo_root": str(self.repo.root),
                    "how_to_replay": "%s %s/check.py %s   # static: re-run the rule on the tree"
                    % (PY, VERIF, self.prop),
                },
                open(rp, "w"),
                indent=1,
            )
            lines.append(
                "VIOLATION property=%s replay=%s   # %s %s:%s %s :: %s -- %s"
                % (
                    self.prop,
                    rp,
                    f["rule"],
                    f["file"],
                    f["line"],
                    f["function"],
                    f["construct"][:120],
                    f["detail"][:200],
                )
            )
        for f in listed:
            print(
                "KNOWN-FINDING: property=%s %s %s %s :: %s"
                % (self.prop, f["rule"], f["file"], f["function"], f["construct"][:160])
            )
        for ln in lines:
            print(ln)
        if floor_errors and not unlisted:
            # no concrete violation to report, and a rule matched (almost) nothing:
            # the analysis is broken, never a silent pass
            raise AnalysisError("; ".join(floor_errors))
        for fe in floor_errors:
            print("ANALYSIS-WARNING property=%s %s" % (self.prop, fe))
        self._write_evidence(len(unlisted), len(listed))
        nonvac = [i for i in self.instances if not i.get("vacuous")]
        print(
            "%s %s: %d rule(s), %d instance(s) (%d ok, %d known finding(s), %d violation(s)), %d function(s) analysed, %.2fs"
            % (
                self.prop,
                self.tier,
                len(self.rules),
                len(nonvac),
                sum(1 for i in nonvac if i["ok"]),
                len(listed),
                len(unlisted),
                len(self.analysed_funcs),
                time.time() - self.t0,
            )
        )
        return 1 if unlisted else 0

    def _write_evidence(self, n_viol: int, n_known: int) -> None:
        EVID_DIR.mkdir(parents=True, exist_ok=True)
        nonvac = [i for i in self.instances if not i.get("vacuous")]
        distinct = {(i["rule"], i["function"], i["construct"]) for i in nonvac}
        per_rule: dict[str, dict] = {}
        for rid, text in self.rules.items():
            ins = [i for i in nonvac if i["rule"] == rid]
            per_rule[rid] = {
                "rule": text,
                "instances": len(ins),
                "satisfied": sum(1 for i in ins if i["ok"]),
                "floor": self.floors[rid],
            }
        samples = []
        seen_rules: dict[str, int] = {}
        for i in nonvac:
            c = seen_rules.get(i["rule"], 0)
            if c < 4 or not i["ok"]:
                samples.append(
                    {
                        k: i[k]
                        for k in ("rule", "file", "function", "construct", "ok", "detail", "line")
                    }
                )
                seen_rules[i["rule"]] = c + 1
        cov = {
            "explanation": self.extra.pop("explanation", ""),
            "evaluations": len(nonvac),
            "distinct_nontrivial": len(distinct),
            "rule": "one evaluation = one rule instance (obligation) found in the source by the rule's "
            "matcher; distinct = distinct (rule, qualified function, normalised construct); "
            "non-trivial = a real obligation of the property clause (vacuous matches excluded)",
            "obligations": len(nonvac),
            "discharged": sum(1 for i in nonvac if i["ok"]),
            "known_findings_matched": n_known,
            "samples": samples[:80],
            "rules": per_rule,
            "modules_parsed": len(self.repo.modules),
            "functions_in_package": self.repo.n_functions(),
            "functions_analysed": sorted(self.analysed_funcs)[:400],
            "n_functions_analysed": len(self.analysed_funcs),
            "files_with_rule_instances": sorted({i["file"] for i in self.instances if i.get("file") and i["file"].endswith(".py")}),
            "repo_root": str(self.repo.root),
            "source_digest": self.repo.digest()[:16],
            "exhaustive": True,
            "trusted_base": ["CPython ast", "mypy 2.3.1 inference (where typed facts are used)", "rule tables under /verif/checks"],
        }
        cov.update(self.extra)
        cov.update(self.info)
        ev = {
            "property_id": self.prop,
            "tier": self.tier,
            "seed": self.seed,
            "level": "other",
            "coverage": cov,
            "assumptions": self.assumptions,
            "wall_s": round(time.time() - self.t0, 3),
            "violations": n_viol,
        }
        tmp = EVID_DIR / ("%s.json.tmp%d" % (self.prop, os.getpid()))
        json.dump(ev, open(tmp, "w"), indent=1)
        os.replace(tmp, EVID_DIR / ("%s.json" % self.prop))


def run_check(prop: str, fn: Callable[[Repo, Report], None], tier: str) -> int:
    """Run one property's rules; map outcomes to the exit-code contract."""
    try:
        repo = Repo()
        rep = Report(prop, tier, repo)
        fn(repo, rep)
        return rep.finish()
    except AnalysisError as e:
        print("ANALYSIS-ERROR property=%s %s" % (prop, e))
        return 2
    except Exception as e:  # a crash must not look like a violation
        import traceback

        traceback.print_exc()
        print("ANALYSIS-ERROR property=%s internal error: %r" % (prop, e))
        return 2


def borrow(repo: "Repo", rep: "Report", own: str, sibling: str, rules: tuple[str, ...]) -> None:
    """Run the sibling property's own rules into a scratch report and keep the obligations of `rules` (ids or id prefixes like
    'C11.g') under this property as `<own>.via-<sibling rule id>`.  Instances that are open known findings of the sibling stay there."""
    import importlib

    mod = importlib.import_module("checks." + sibling.lower())
    sub = Report(sibling, rep.tier, repo)
    getattr(mod, "_run_before_borrow", mod.run)(repo, sub)
    known = sub._known()
    for rid, text in sub.rules.items():
        if not any(rid == s_ or rid.startswith(s_ + "-") for s_ in rules):
            continue
        new = "%s.via-%s" % (own, rid)
        rep.rule(new, "(rule %s of the check for %s, which this property depends on as well) %s" % (rid.split("-")[0], sibling, text), floor=sub.floors.get(rid, 1))
        for inst in sub.instances:
            if inst["rule"] != rid:
                continue
            if not inst["ok"] and any(Report._match(k, inst) for k in known):
                continue
            c = dict(inst)
            c["rule"] = new
            rep.instances.append(c)
            if not c["ok"]:
                rep.findings.append(c)
    rep.analysed_funcs.update(sub.analysed_funcs)
