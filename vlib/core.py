"""Shared infrastructure of the static checks.

* Repo      – parses every rdflib/**/*.py of the tree under analysis (default
              /repo, env VERIF_REPO overrides for self-test scratch copies)
              with stdlib ``ast``; never imports rdflib.
* Typed     – facts from the type-checked program (mypy as a library, run in a
              subprocess, cached by digest of the sources).
* Report    – obligations, findings, known findings, evidence, exit code.
"""
from __future__ import annotations

import ast
import hashlib
import json
import os
import subprocess
import sys
import time
from pathlib import Path
from collections.abc import Mapping
from typing import Any, Callable, Iterable, Iterator, Optional

VERIF = Path(__file__).resolve().parent.parent
REPO_ROOT = Path(os.environ.get("VERIF_REPO", "/repo"))
CACHE = Path(os.environ.get("VERIF_CACHE", str(VERIF / ".cache")))
EVID_DIR = Path(os.environ.get("VERIF_EVIDENCE_DIR", str(VERIF / "evidence")))
PY = "/venv/bin/python"


class AnalysisError(Exception):
    """The analysis cannot decide (anchor vanished, unmodelled idiom)."""


# --------------------------------------------------------------------------- AST


def norm(node: ast.AST | str) -> str:
    """Normalised text of a construct: position- and formatting-independent."""
    if isinstance(node, str):
        return " ".join(node.split())
    try:
        return " ".join(ast.unparse(node).split())
    except Exception:  # pragma: no cover
        return type(node).__name__


def canon(construct: "ast.AST | str") -> str:
    """alpha-canonical form of a construct: every Name is replaced by v0, v1, ... in order of first occurrence, so that
    table rows and known findings keep matching when local variables are renamed.  Falls back to the normalised text
    when the construct is not a parsable statement/expression."""
    text = norm(construct)
    try:
        tree = ast.parse(text)
    except SyntaxError:
        return text
    # a bare name (or `not name`) carries no structure besides the name itself: keep it
    body = tree.body[0] if len(tree.body) == 1 else None
    if isinstance(body, ast.Expr) and isinstance(body.value, (ast.Name, ast.Constant)):
        return text
    # assign in source order, not walk order
    order: dict[str, str] = {}
    for n in sorted((x for x in ast.walk(tree) if isinstance(x, ast.Name)), key=lambda x: (x.lineno, x.col_offset)):
        if n.id not in order:
            order[n.id] = "v%d" % len(order)
    for n in ast.walk(tree):
        if isinstance(n, ast.Name):
            n.id = order[n.id]
    return norm(ast.unparse(tree))


class Module:
    def __init__(self, name: str, path: Path, rel: str, text: str, tree: Optional[ast.Module] = None):
        self.name = name
        self.path = path
        self.rel = rel
        self.text = text
        # `tree` is given for an equivalent view of the module (vlib/views.py): same positions, rewritten statements
        self.tree = tree if tree is not None else ast.parse(text, filename=str(path))
        self.parent: dict[int, ast.AST] = {}
        self.scope: dict[int, str] = {}
        self.defs: dict[str, ast.AST] = {}  # qualname -> FunctionDef/ClassDef
        self._index(self.tree, None, "")

    def _index(self, node: ast.AST, parent: Optional[ast.AST], qual: str) -> None:
        for child in ast.iter_child_nodes(node):
            self.parent[id(child)] = node
            q = qual
            if isinstance(child, (ast.FunctionDef, ast.AsyncFunctionDef, ast.ClassDef)):
                q = (qual + "." if qual else "") + child.name
                # keep the *last* definition with a body for overloads
                if q in self.defs and _is_overload(child):
                    pass
                else:
                    self.defs[q] = child
            self.scope[id(child)] = q
            self._index(child, node, q)

    # -- lookup
    def get(self, qualname: str) -> ast.AST:
        try:
            return self.defs[qualname]
        except KeyError:
            raise AnalysisError(
                "anchor vanished: %s:%s not found" % (self.rel, qualname)
            ) from None

    def has(self, qualname: str) -> bool:
        return qualname in self.defs

    def func(self, qualname: str) -> ast.FunctionDef:
        n = self.get(qualname)
        if not isinstance(n, (ast.FunctionDef, ast.AsyncFunctionDef)):
            raise AnalysisError("%s:%s is not a function" % (self.rel, qualname))
        return n  # type: ignore[return-value]

    def cls(self, qualname: str) -> ast.ClassDef:
        n = self.get(qualname)
        if not isinstance(n, ast.ClassDef):
            raise AnalysisError("%s:%s is not a class" % (self.rel, qualname))
        return n

    def qual_of(self, node: ast.AST) -> str:
        """Qualified name of the innermost def/class enclosing node."""
        if isinstance(node, (ast.FunctionDef, ast.AsyncFunctionDef, ast.ClassDef)):
            return self.scope.get(id(node), "")
        return self.scope.get(id(node), "")

    def parents(self, node: ast.AST) -> Iterator[ast.AST]:
        p = self.parent.get(id(node))
        while p is not None:
            yield p
            p = self.parent.get(id(p))

    def functions(self) -> Iterator[tuple[str, ast.FunctionDef]]:
        for q, n in self.defs.items():
            if isinstance(n, (ast.FunctionDef, ast.AsyncFunctionDef)):
                yield q, n  # type: ignore[misc]

    def methods(self, cls: str) -> dict[str, ast.FunctionDef]:
        c = self.cls(cls)
        out = {}
        for st in c.body:
            if isinstance(st, (ast.FunctionDef, ast.AsyncFunctionDef)):
                if st.name in out and _is_overload(st):
                    continue
                out[st.name] = st
        return out

    def loc(self, node: ast.AST) -> str:
        return "%s:%s" % (self.rel, getattr(node, "lineno", "?"))


def _is_overload(fn: ast.AST) -> bool:
    for d in getattr(fn, "decorator_list", []):
        if (isinstance(d, ast.Name) and d.id == "overload") or (
            isinstance(d, ast.Attribute) and d.attr == "overload"
        ):
            return True
    return False


def own_nodes(fn: ast.AST, include_nested: bool = False) -> Iterator[ast.AST]:
    """Walk the body of a function without descending into nested defs/classes
    (unless include_nested)."""
    stack = list(ast.iter_child_nodes(fn))
    while stack:
        n = stack.pop()
        yield n
        if not include_nested and isinstance(
            n, (ast.FunctionDef, ast.AsyncFunctionDef, ast.ClassDef, ast.Lambda)
        ):
            continue
        stack.extend(ast.iter_child_nodes(n))


class _LazyModules(Mapping):  # type: ignore[type-arg]
    """The modules of a view, rewritten when first asked for (most checks look at a handful of modules)."""

    def __init__(self, names: list[str], build: Callable[[str], "Module"]):
        self._names = names
        self._build = build
        self._made: dict[str, Module] = {}

    def __getitem__(self, name: str) -> "Module":
        if name not in self._made:
            if name not in self._names:
                raise KeyError(name)
            self._made[name] = self._build(name)
        return self._made[name]

    def __iter__(self):
        return iter(self._names)

    def __len__(self) -> int:
        return len(self._names)


class Repo:
    def __init__(self, root: Path | None = None):
        self.root = Path(root or REPO_ROOT)
        self.pkg = self.root / "rdflib"
        if not self.pkg.is_dir():
            raise AnalysisError("no rdflib package under %s" % self.root)
        self.modules: dict[str, Module] = {}
        self._texts: dict[str, str] = {}
        for p in sorted(self.pkg.rglob("*.py")):
            rel = str(p.relative_to(self.root))
            name = rel[:-3].replace("/", ".")
            if name.endswith(".__init__"):
                name = name[: -len(".__init__")]
            text = p.read_text(encoding="utf-8")
            self._texts[rel] = text
            try:
                self.modules[name] = Module(name, p, rel, text)
            except SyntaxError as e:
                raise AnalysisError("cannot parse %s: %s" % (rel, e)) from None
        self._typed: Optional[Typed] = None

    def mod(self, name: str) -> Module:
        try:
            return self.modules[name]
        except KeyError:
            raise AnalysisError("anchor vanished: module %s" % name) from None

    def digest(self) -> str:
        h = hashlib.sha256()
        for rel in sorted(self._texts):
            h.update(rel.encode())
            h.update(b"\0")
            h.update(self._texts[rel].encode("utf-8"))
            h.update(b"\0")
        # extractor version is part of the key
        h.update((VERIF / "vlib" / "typed_extract.py").read_bytes())
        return h.hexdigest()

    @property
    def typed(self) -> "Typed":
        base = getattr(self, "base", None)
        if base is not None:  # a view: positions are those of the real sources, so are the typed facts
            return base.typed
        if self._typed is None:
            self._typed = Typed(self)
        return self._typed

    def view(self, kind: str) -> "Repo":
        """An equivalent view of the package (vlib/views.py): a Repo whose modules carry behaviour-preserving rewritings
        of the parsed trees (private helpers inlined, aliases resolved, guard clauses <-> nested ifs, casts and logging
        dropped).  Nothing is executed; source positions are kept."""
        from . import views

        cache = self.__dict__.setdefault("_views", {})
        if kind in cache:
            return cache[kind]
        amb = self.__dict__.get("_ambiguous")
        if amb is None:
            amb = self.__dict__["_ambiguous"] = views.ambiguous_method_names({n: m.tree for n, m in self.modules.items()})
        views.PACKAGE_TREES.clear()
        views.PACKAGE_TREES.update({n: m.tree for n, m in self.modules.items()})
        views.UNSTABLE_ATTRS.clear()
        views.UNSTABLE_ATTRS.update(self.__dict__.setdefault("_unstable", views.unstable_attribute_names({n: m.tree for n, m in self.modules.items()})))
        v = Repo.__new__(Repo)
        v.root, v.pkg, v._texts, v._typed = self.root, self.pkg, self._texts, None
        v.base = self  # type: ignore[attr-defined]
        v.view_kind = kind  # type: ignore[attr-defined]
        stats = {"inlined_calls": 0, "modules_rewritten": 0}
        ext = self.__dict__.get("_private_refs")
        if ext is None:
            ext = self.__dict__["_private_refs"] = {}
            for name, m in self.modules.items():
                for r_ in views.private_refs(m.tree):
                    ext.setdefault(r_, set()).add(name)
        base_modules = self.modules

        def build(name: str) -> Module:
            m = base_modules[name]
            try:
                tree, st = views.transform(m.tree, kind, amb, ext, name)
            except RecursionError:
                tree, st = m.tree, {"inlined_calls": 0}
            stats["inlined_calls"] += st.get("inlined_calls", 0)
            stats["modules_rewritten"] += 1
            return Module(m.name, m.path, m.rel, m.text, tree=tree)

        v.modules = _LazyModules(list(base_modules), build)  # type: ignore[assignment]
        v.view_stats = stats  # type: ignore[attr-defined]
        cache[kind] = v
        return v

    def n_functions(self) -> int:
        return sum(1 for m in self.modules.values() for _ in m.functions())


# ------------------------------------------------------------------------- typed

_KIND = {
    ast.Name: "NameExpr",
    ast.Attribute: "MemberExpr",
    ast.Call: "CallExpr",
    ast.Subscript: "IndexExpr",
    ast.BinOp: "OpExpr",
    ast.BoolOp: "OpExpr",
    ast.Compare: "ComparisonExpr",
    ast.UnaryOp: "UnaryExpr",
    ast.IfExp: "ConditionalExpr",
    ast.NamedExpr: "AssignmentExpr",
}


class TypeFact:
    __slots__ = ("text", "items", "optional", "any")

    def __init__(self, raw: list):
        self.text, self.items, self.optional, self.any = raw

    def __repr__(self) -> str:
        return self.text


class Typed:
    """Facts from mypy, cached under .cache/typed-<digest>.json."""

    def __init__(self, repo: Repo):
        self.repo = repo
        CACHE.mkdir(parents=True, exist_ok=True)
        dig = repo.digest()
        f = CACHE / ("typed-%s.json" % dig[:32])
        data = None
        for attempt in (0, 1):
            data = self._load_or_extract(repo, f, dig)
            if data is not None:
                break
        if data is None:
            raise AnalysisError("typed facts could not be loaded (cache entry vanished twice)")
        self.mods: dict[str, dict] = data["modules"]
        self.classes: dict[str, dict] = data["classes"]
        self.stats = data["stats"]

    def _load_or_extract(self, repo: Repo, f: Path, dig: str):
        self.cached = f.exists()
        if not self.cached:
            t0 = time.time()
            tmp = CACHE / ("typed-%s.%d.json" % (dig[:32], os.getpid()))
            r = subprocess.run(
                [PY, str(VERIF / "vlib" / "typed_extract.py"), str(repo.root), str(tmp)],
                capture_output=True,
                text=True,
            )
            if r.returncode != 0 or not tmp.exists():
                raise AnalysisError(
                    "mypy extraction failed: %s" % (r.stderr or r.stdout)[-2000:]
                )
            os.replace(tmp, f)
            self.extract_s = time.time() - t0
            # keep the cache small: drop older entries
            # (other check processes run concurrently: every file operation here may meet a vanished entry)
            def _mtime(p: Path) -> float:
                try:
                    return p.stat().st_mtime
                except OSError:
                    return 0.0

            olds = sorted(CACHE.glob("typed-*.json"), key=_mtime)
            for p in olds[:-40]:
                try:
                    p.unlink()
                except OSError:
                    pass
        try:
            os.utime(f)
        except OSError:
            pass
        try:
            with open(f) as fh:
                return json.load(fh)
        except (FileNotFoundError, json.JSONDecodeError):
            return None  # evicted by a concurrent run between the existence test and the read: extract again

    @staticmethod
    def _key(node: ast.AST) -> Optional[str]:
        kind = _KIND.get(type(node))
        if kind is None:
            return None
        return "%s:%d:%d:%s:%s" % (
            kind,
            node.lineno,
            node.col_offset,
            node.end_lineno,
            node.end_col_offset,
        )

    def type_of(self, mod: str, node: ast.AST) -> Optional[TypeFact]:
        k = self._key(node)
        if k is None:
            return None
        raw = self.mods.get(mod, {}).get("exprs", {}).get(k)
        return TypeFact(raw) if raw else None

    def callees(self, mod: str, call: ast.Call) -> list[str]:
        k = self._key(call)
        return self.mods.get(mod, {}).get("calls", {}).get(k, []) if k else []

    def ref(self, mod: str, node: ast.AST) -> Optional[str]:
        k = self._key(node)
        return self.mods.get(mod, {}).get("refs", {}).get(k) if k else None

    # class hierarchy helpers
    def mro(self, cls: str) -> list[str]:
        c = self.classes.get(cls)
        return c["mro"] if c else [cls]

    def is_subclass(self, cls: str, base: str) -> bool:
        return base in self.mro(cls)

    def subclasses(self, base: str) -> list[str]:
        return [c for c, d in self.classes.items() if base in d["mro"]]

    def resolve_method(self, cls: str, name: str) -> Optional[str]:
        for b in self.mro(cls):
            d = self.classes.get(b)
            if d and name in d["defs"]:
                return b + "." + name
        return None

    def overrides(self, method_full: str) -> list[str]:
        """method_full = 'pkg.Class.meth' -> all definitions in subclasses
        (including itself) that a call resolved to it may dispatch to."""
        cls, _, name = method_full.rpartition(".")
        if cls not in self.classes:
            return [method_full]
        out = []
        for c, d in self.classes.items():
            if cls in d["mro"] and name in d["defs"]:
                out.append(c + "." + name)
        return out or [method_full]


# ------------------------------------------------------------------------ report


class Report:
    def __init__(self, prop: str, tier: str, repo: Repo):
        self.prop = prop
        self.tier = tier
        self.repo = repo
        self.t0 = time.time()
        self.seed = int(os.environ.get("VERIF_SEED", "0") or 0)
        self.instances: list[dict] = []
        self.findings: list[dict] = []
        self.info: dict[str, Any] = {}
        self.floors: dict[str, int] = {}
        self.rules: dict[str, str] = {}
        self.analysed_funcs: set[str] = set()
        self.assumptions: list[str] = []
        self.extra: dict[str, Any] = {}
        # layers (see `layer` below): a check file is a stack of rule layers; an analysis error in one layer is
        # recorded against the rules of that layer and the other layers still run
        self._settled: set[str] = set()
        self.layer_of: dict[str, int] = {}
        self.layer_errors: dict[int, str] = {}
        self.n_layers = 0
        self.fatal: Optional[str] = None
        self.flat_layers: dict[int, int] = {}
        self.skip_layers: set[int] = set()
        self.n_layer_calls = 0

    def _layer_failed(self, msg: str) -> None:
        self.layer_errors[self.n_layers] = msg

    def _layer_done(self) -> None:
        for r in self.rules:
            if r not in self._settled:
                self.layer_of[r] = self.n_layers
        self._settled = set(self.rules)
        self.n_layers += 1

    # -- declarations
    def rule(self, rid: str, text: str, floor: int = 1) -> None:
        self.rules[rid] = text
        self.floors[rid] = floor

    def analysed(self, *names: str) -> None:
        self.analysed_funcs.update(names)

    # -- obligations
    def ob(
        self,
        rule: str,
        mod: Module | None,
        where: str,
        construct: ast.AST | str,
        ok: bool,
        detail: str = "",
        node: ast.AST | None = None,
        path: list[str] | None = None,
        vacuous: bool = False,
    ) -> bool:
        """Record one rule instance (an obligation) and its verdict."""
        if rule not in self.rules:
            raise AnalysisError("undeclared rule %s" % rule)
        cons = norm(construct)
        n = node if node is not None else (construct if isinstance(construct, ast.AST) else None)
        inst = {
            "rule": rule,
            "file": mod.rel if mod else "",
            "function": where,
            "construct": cons[:300],
            "ok": bool(ok),
            "line": getattr(n, "lineno", None),
            "detail": detail,
            "vacuous": vacuous,
        }
        if path:
            inst["path"] = path
        self.instances.append(inst)
        if not ok:
            self.findings.append(inst)
        return ok

    # -- finish
    def _known(self) -> list[dict]:
        f = VERIF / "known_findings.json"
        if not f.exists():
            return []
        try:
            data = json.load(open(f))
        except Exception as e:
            raise AnalysisError("known_findings.json unreadable: %s" % e)
        return [
            k
            for k in data.get("findings", [])
            if k.get("property") == self.prop and k.get("status") == "open"
        ]

    @staticmethod
    def _match(k: dict, f: dict) -> bool:
        return (
            k.get("rule") == f["rule"]
            and k.get("function") == f["function"]
            and canon(k.get("construct", "")) == canon(f["construct"])
        )

    def finish(self) -> int:
        # vacuity floors
        counts: dict[str, int] = {}
        for i in self.instances:
            if not i.get("vacuous"):
                counts[i["rule"]] = counts.get(i["rule"], 0) + 1
        floor_errors = []
        for rid, floor in self.floors.items():
            if counts.get(rid, 0) < floor:
                floor_errors.append(
                    "rule %s matched %d instance(s), fewer than the %d confirmed by hand "
                    "on the pinned tree - the rule has lost its anchor"
                    % (rid, counts.get(rid, 0), floor)
                )
        known = self._known()
        unlisted, listed = [], []
        for f in self.findings:
            if any(self._match(k, f) for k in known):
                listed.append(f)
            else:
                unlisted.append(f)
        # replay files
        rdir = EVID_DIR / "replay"
        rdir.mkdir(parents=True, exist_ok=True)
        for old in rdir.glob("%s-*.json" % self.prop):
            old.unlink()
        lines = []
        for n, f in enumerate(unlisted):
            rp = rdir / ("%s-%d.json" % (self.prop, n))
            json.dump(
                {
                    "property": self.prop,
                    "rule": f["rule"],
                    "rule_text": self.rules[f["rule"]],
                    "finding": f,
                    "repo_root": str(self.repo.root),
                    "how_to_replay": "%s %s/check.py %s   # static: re-run the rule on the tree"
                    % (PY, VERIF, self.prop),
                },
                open(rp, "w"),
                indent=1,
            )
            lines.append(
                "VIOLATION property=%s replay=%s   # %s %s:%s %s :: %s -- %s"
                % (
                    self.prop,
                    rp,
                    f["rule"],
                    f["file"],
                    f["line"],
                    f["function"],
                    f["construct"][:120],
                    f["detail"][:200],
                )
            )
        for f in listed:
            print(
                "KNOWN-FINDING: property=%s %s %s %s :: %s"
                % (self.prop, f["rule"], f["file"], f["function"], f["construct"][:160])
            )
        for ln in lines:
            print(ln)
        if floor_errors and not unlisted:
            # no concrete violation to report, and a rule matched (almost) nothing:
            # the analysis is broken, never a silent pass
            raise AnalysisError("; ".join(floor_errors))
        for fe in floor_errors:
            print("ANALYSIS-WARNING property=%s %s" % (self.prop, fe))
        self._write_evidence(len(unlisted), len(listed))
        nonvac = [i for i in self.instances if not i.get("vacuous")]
        print(
            "%s %s: %d rule(s), %d instance(s) (%d ok, %d known finding(s), %d violation(s)), %d function(s) analysed, %.2fs"
            % (
                self.prop,
                self.tier,
                len(self.rules),
                len(nonvac),
                sum(1 for i in nonvac if i["ok"]),
                len(listed),
                len(unlisted),
                len(self.analysed_funcs),
                time.time() - self.t0,
            )
        )
        return 1 if unlisted else 0

    def _write_evidence(self, n_viol: int, n_known: int) -> None:
        EVID_DIR.mkdir(parents=True, exist_ok=True)
        nonvac = [i for i in self.instances if not i.get("vacuous")]
        distinct = {(i["rule"], i["function"], i["construct"]) for i in nonvac}
        per_rule: dict[str, dict] = {}
        for rid, text in self.rules.items():
            ins = [i for i in nonvac if i["rule"] == rid]
            per_rule[rid] = {
                "rule": text,
                "instances": len(ins),
                "satisfied": sum(1 for i in ins if i["ok"]),
                "floor": self.floors[rid],
            }
        samples = []
        seen_rules: dict[str, int] = {}
        for i in nonvac:
            c = seen_rules.get(i["rule"], 0)
            if c < 4 or not i["ok"]:
                samples.append(
                    {
                        k: i[k]
                        for k in ("rule", "file", "function", "construct", "ok", "detail", "line")
                    }
                )
                seen_rules[i["rule"]] = c + 1
        cov = {
            "explanation": self.extra.pop("explanation", ""),
            "evaluations": len(nonvac),
            "distinct_nontrivial": len(distinct),
            "rule": "one evaluation = one rule instance (obligation) found in the source by the rule's "
            "matcher; distinct = distinct (rule, qualified function, normalised construct); "
            "non-trivial = a real obligation of the property clause (vacuous matches excluded)",
            "obligations": len(nonvac),
            "discharged": sum(1 for i in nonvac if i["ok"]),
            "known_findings_matched": n_known,
            "samples": samples[:80],
            "rules": per_rule,
            "modules_parsed": len(self.repo.modules),
            "functions_in_package": self.repo.n_functions(),
            "functions_analysed": sorted(self.analysed_funcs)[:400],
            "n_functions_analysed": len(self.analysed_funcs),
            "files_with_rule_instances": sorted({i["file"] for i in self.instances if i.get("file") and i["file"].endswith(".py")}),
            "repo_root": str(self.repo.root),
            "source_digest": self.repo.digest()[:16],
            "exhaustive": True,
            "trusted_base": ["CPython ast", "mypy 2.3.1 inference (where typed facts are used)", "rule tables under /verif/checks"],
        }
        cov.update(self.extra)
        cov.update(self.info)
        ev = {
            "property_id": self.prop,
            "tier": self.tier,
            "seed": self.seed,
            "level": "other",
            "coverage": cov,
            "assumptions": self.assumptions,
            "wall_s": round(time.time() - self.t0, 3),
            "violations": n_viol,
        }
        tmp = EVID_DIR / ("%s.json.tmp%d" % (self.prop, os.getpid()))
        json.dump(ev, open(tmp, "w"), indent=1)
        os.replace(tmp, EVID_DIR / ("%s.json" % self.prop))


def layer(rep: Report, f: Callable[[Repo, Report], None], repo: Repo) -> None:
    """Run the rule layer `f` (an earlier `run` of a check file).  An AnalysisError (a rule lost its anchor) or a crash in
    it is recorded against the rules that layer had declared; the layers stacked on it still run, so that the loss can be
    judged rule by rule on the equivalent views of the tree (see run_check)."""
    entry = rep.n_layers
    call_no = rep.n_layer_calls
    rep.n_layer_calls += 1
    if call_no in rep.skip_layers:
        # (on an equivalent view) a layer without inner layers whose rules are all satisfied on the tree as it is
        rep._layer_done()
        return
    try:
        f(repo, rep)
    except AnalysisError as e:
        rep._layer_failed(str(e))
    except RecursionError:
        rep._layer_failed("internal error in a rule: the analysis recursed too deep (RecursionError)")
    except Exception as e:
        rep._layer_failed("internal error in a rule: %r" % (e,))
    if rep.n_layers == entry:
        rep.flat_layers[call_no] = entry  # no layer was run inside this one: call number -> layer index
    rep._layer_done()


class _ViewResult:
    def __init__(self, kind: str, rep: Report):
        self.kind = kind
        self.rep = rep
        counts: dict[str, int] = {}
        for i in rep.instances:
            if not i.get("vacuous"):
                counts[i["rule"]] = counts.get(i["rule"], 0) + 1
        known = rep._known()
        self.unlisted: dict[str, list[dict]] = {}
        for f in rep.findings:
            if not any(Report._match(k, f) for k in known):
                self.unlisted.setdefault(f["rule"], []).append(f)
        self.status: dict[str, str] = {}
        for rid in rep.rules:
            if rep.layer_of.get(rid) in rep.layer_errors:
                self.status[rid] = "error"
            elif self.unlisted.get(rid):
                self.status[rid] = "violated"
            elif counts.get(rid, 0) < rep.floors.get(rid, 1):
                self.status[rid] = "floor"
            else:
                self.status[rid] = "ok"
        self.counts = counts
        self.clean = rep.fatal is None and not rep.layer_errors and all(v == "ok" for v in self.status.values())

    def satisfies(self, rid: str, v0: "_ViewResult") -> bool:
        """This view satisfies the rule - and not merely because it no longer shows the construct the rule judges: where
        the tree as it is has a violated obligation of the rule, the view must show at least as many obligations of it
        (a rule of the kind "no X where Y" is vacuously happy on a rewriting in which it does not recognise X)."""
        if self.status.get(rid) != "ok":
            return False
        if self is v0 or v0.status.get(rid) != "violated":
            return True
        return self.counts.get(rid, 0) >= v0.counts.get(rid, 0)


def _run_view(prop: str, tier: str, repo: Repo, fn: Callable[[Repo, Report], None], kind: str, v0: Optional[_ViewResult] = None) -> _ViewResult:
    rep = Report(prop, tier, repo)
    if v0 is not None:
        # on a view only the layers are run again that hold a rule which is not in order on the tree as it is
        by_layer: dict[int, list[str]] = {}
        for rid, k in v0.rep.layer_of.items():
            by_layer.setdefault(k, []).append(rid)
        rep.skip_layers = {c for c, k in v0.rep.flat_layers.items() if k not in v0.rep.layer_errors and by_layer.get(k)
                           and all(v0.status.get(r) == "ok" for r in by_layer[k])}
    layer(rep, fn, repo)
    return _ViewResult(kind, rep)


def run_check(prop: str, fn: Callable[[Repo, Report], None], tier: str) -> int:
    """Run one property's rules; map outcomes to the exit-code contract.

    The rules run on the tree as it is.  Only if something is not in order there (a violation that is not a listed
    finding, a rule that matched fewer constructs than its floor, a rule that lost its anchor) they are run again on
    equivalent views of the tree (vlib/views.py).  A rule is a sufficient condition for a clause about behaviour, and a
    view has the behaviour of the tree, so a rule that is satisfied on some view is satisfied; what is reported is what
    no view satisfies."""
    slot = _acquire_slot()
    try:
        repo = Repo()
        v0 = _run_view(prop, tier, repo, fn, "as-is")
        if v0.clean or os.environ.get("VERIF_NO_VIEWS"):
            return _finish_single(v0)
        from . import views

        results = [v0]
        for kind in views.KINDS:
            try:
                rv = _run_view(prop, tier, repo.view(kind), fn, kind, v0)
                if rv.rep.skip_layers and any("internal error" in m for m in rv.rep.layer_errors.values()):
                    # a layer crashed that may have relied on something a skipped layer leaves behind: run them all
                    rv = _run_view(prop, tier, repo.view(kind), fn, kind, None)
            except RecursionError:
                continue
            if rv.rep.fatal is None:
                results.append(rv)
            if _failing(results) == ([], []):
                break
        return _merge(prop, tier, repo, results).finish()
    except AnalysisError as e:
        print("ANALYSIS-ERROR property=%s %s" % (prop, e))
        return 2
    except Exception as e:  # a crash must not look like a violation
        import traceback

        traceback.print_exc()
        print("ANALYSIS-ERROR property=%s internal error: %r" % (prop, e))
        return 2
    finally:
        if slot is not None:
            slot.close()


def _acquire_slot():
    """At most VERIF_SLOTS (default: 1.25 x cores) analyses at a time on this machine, whoever started them: the self-tests
    and the matrices start many, and each holds the parsed package and the typed facts in memory.  A slot is an flock on a
    file created on demand under the system temp directory; it is released when the analysis ends (or the process dies)."""
    import fcntl
    import tempfile

    try:
        n = int(os.environ.get("VERIF_SLOTS", "0")) or max(4, int((os.cpu_count() or 4) * 1.25))
        d = Path(tempfile.gettempdir()) / "verif-slots"
        d.mkdir(exist_ok=True)
        t_end = time.time() + 3600
        while time.time() < t_end:
            for i in range(n):
                f = open(d / ("slot%d" % i), "w")
                try:
                    fcntl.flock(f, fcntl.LOCK_EX | fcntl.LOCK_NB)
                    return f
                except OSError:
                    f.close()
            time.sleep(0.5)
    except Exception:
        pass
    return None


def _finish_single(v: _ViewResult) -> int:
    rep = v.rep
    if rep.fatal:
        raise AnalysisError(rep.fatal)
    if rep.layer_errors and not any(v.unlisted.values()):
        raise AnalysisError("; ".join(rep.layer_errors[k] for k in sorted(rep.layer_errors)))
    for k in sorted(rep.layer_errors):
        print("ANALYSIS-WARNING property=%s %s" % (rep.prop, rep.layer_errors[k]))
    return rep.finish()


def _failing(results: list[_ViewResult]) -> tuple[list[str], list[int]]:
    """(rules no view satisfies, layers that ran to their end in no view)."""
    rules: list[str] = []
    for r in results:
        for rid in r.rep.rules:
            if rid not in rules:
                rules.append(rid)
    bad = [rid for rid in rules if not any(r.satisfies(rid, results[0]) for r in results)]
    n_layers = max(r.rep.n_layers for r in results)
    lost = [k for k in range(n_layers) if all(k in r.rep.layer_errors for r in results)]
    return bad, lost


def _merge(prop: str, tier: str, repo: Repo, results: list[_ViewResult]) -> Report:
    """One report out of the views: every rule is taken from the first view that satisfies it (the tree as it is first);
    a rule that no view satisfies is taken from the tree as it is if it is violated there, else from the first view that
    shows a violation."""
    v0 = results[0]
    bad, lost = _failing(results)
    if os.environ.get("VERIF_VIEWS_DEBUG"):
        for r in results:
            for k in sorted(r.rep.layer_errors):
                print("VIEW-DEBUG layer %d of view %s: %s" % (k, r.kind, r.rep.layer_errors[k][:300]))
        for rid in bad:
            for r in results:
                st = r.status.get(rid, "-")
                why = ""
                if st == "violated":
                    f = r.unlisted[rid][0]
                    why = "%s :: %s -- %s" % (f["function"], f["construct"][:100], f["detail"][:160])
                elif st == "error":
                    why = r.rep.layer_errors.get(r.rep.layer_of.get(rid, -1), "")[:260]
                print("VIEW-DEBUG %s %-9s %-8s %s" % (rid, r.kind, st, why))
    final = Report(prop, tier, repo)
    final.t0 = v0.rep.t0
    used: dict[str, list[str]] = {}
    errors: list[str] = []
    order: list[str] = []
    for r in results:
        for rid in r.rep.rules:
            if rid not in order:
                order.append(rid)
    for rid in order:
        src = next((r for r in results if r.satisfies(rid, v0)), None)
        if src is None:
            src = next((r for r in results if r.status.get(rid) == "violated"), None)
        if src is None:
            src = next((r for r in results if r.status.get(rid) == "floor"), None)
        if src is None:  # only errors
            src = next(r for r in results if rid in r.rep.rules)
            errors.append("%s: %s" % (rid, src.rep.layer_errors.get(src.rep.layer_of.get(rid, -1), "lost its anchor")))
        final.rules[rid] = src.rep.rules[rid]
        final.floors[rid] = src.rep.floors[rid]
        for i in src.rep.instances:
            if i["rule"] == rid:
                final.instances.append(i)
                if not i["ok"]:
                    final.findings.append(i)
        if src.kind != "as-is":
            used.setdefault(src.kind, []).append(rid)
    for k in lost:
        errors.append(v0.rep.layer_errors.get(k, "a rule layer could not be analysed on any view"))
    src0 = next((r for r in results if not r.rep.layer_errors), v0)
    final.analysed_funcs = set().union(*[r.rep.analysed_funcs for r in results])
    final.assumptions = list(src0.rep.assumptions)
    final.extra = dict(src0.rep.extra)
    final.info = dict(src0.rep.info)
    final.info["equivalent_views"] = {
        "why": "the tree as it is did not satisfy every rule; the rules were run again on behaviour-preserving rewritings of it (vlib/views.py)",
        "views_run": [r.kind for r in results],
        "rules_satisfied_only_on_a_view": used,
        "rules_no_view_satisfies": bad,
    }
    if errors:
        known = final._known()
        if not any(not any(Report._match(k, f) for k in known) for f in final.findings):
            raise AnalysisError("; ".join(errors))
        for e in errors:
            print("ANALYSIS-WARNING property=%s %s" % (prop, e))
    return final


def borrow(repo: "Repo", rep: "Report", own: str, sibling: str, rules: tuple[str, ...]) -> None:
    """`_borrow` as a rule layer of its own (see `layer`): the rules declared before it are settled first, and a loss of
    anchor in the sibling's rules is recorded against the borrowed rules only."""
    rep._layer_done()
    layer(rep, lambda _repo, _rep: _borrow(_repo, _rep, own, sibling, rules), repo)


def _borrow(repo: "Repo", rep: "Report", own: str, sibling: str, rules: tuple[str, ...]) -> None:
    """Run the sibling property's own rules into a scratch report and keep the obligations of `rules` (ids or id prefixes like
    'C11.g') under this property as `<own>.via-<sibling rule id>`.  Instances that are open known findings of the sibling stay there."""
    import importlib

    mod = importlib.import_module("checks." + sibling.lower())
    sub = Report(sibling, rep.tier, repo)
    layer(sub, getattr(mod, "_run_before_borrow", mod.run), repo)
    known = sub._known()
    if sub.layer_errors and not any(any(rid == s_ or rid.startswith(s_ + "-") for s_ in rules) and sub.layer_of.get(rid) not in sub.layer_errors for rid in sub.rules):
        raise AnalysisError("; ".join(sub.layer_errors[k] for k in sorted(sub.layer_errors)))
    for rid, text in sub.rules.items():
        if not any(rid == s_ or rid.startswith(s_ + "-") for s_ in rules):
            continue
        new = "%s.via-%s" % (own, rid)
        if sub.layer_of.get(rid) in sub.layer_errors:
            raise AnalysisError(sub.layer_errors[sub.layer_of[rid]])
        rep.rule(new, "(rule %s of the check for %s, which this property depends on as well) %s" % (rid.split("-")[0], sibling, text), floor=sub.floors.get(rid, 1))
        for inst in sub.instances:
            if inst["rule"] != rid:
                continue
            if not inst["ok"] and any(Report._match(k, inst) for k in known):
                continue
            c = dict(inst)
            c["rule"] = new
            rep.instances.append(c)
            if not c["ok"]:
                rep.findings.append(c)
    rep.analysed_funcs.update(sub.analysed_funcs)
