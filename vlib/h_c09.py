"""Helpers of the later C09 rules (checks/c09.py): branch facts that hold at a node (with one-step substitution of
single-assignment locals), `well-typed` facts about Literal operands, one-step def-use of local names.
Pure `ast`; nothing of the analysed tree is executed."""
from __future__ import annotations

import ast
import copy
from typing import Iterator

from .core import Module, norm, own_nodes

# --------------------------------------------------------------------------- branch facts


def terminates(stmts: list) -> bool:
    """the statement list never falls through (ends in return / raise / continue / break on every branch)"""
    if not stmts:
        return False
    last = stmts[-1]
    if isinstance(last, (ast.Return, ast.Raise, ast.Continue, ast.Break)):
        return True
    if isinstance(last, ast.If):
        return terminates(last.body) and terminates(last.orelse)
    return False


def _stored(stmts) -> set[str]:
    return {n.id for s in stmts for n in ast.walk(s) if isinstance(n, ast.Name) and isinstance(n.ctx, (ast.Store, ast.Del))}


def _names(e: ast.AST) -> set[str]:
    return {n.id for n in ast.walk(e) if isinstance(n, ast.Name)}


def split_fact(test: ast.expr, pol: bool) -> Iterator[tuple[ast.expr, bool]]:
    """a fact and what it implies structurally: `a and b` true -> a, b true; `a or b` false -> a, b false; `not a` flips"""
    yield test, pol
    if isinstance(test, ast.UnaryOp) and isinstance(test.op, ast.Not):
        yield from split_fact(test.operand, not pol)
    elif isinstance(test, ast.BoolOp):
        if (isinstance(test.op, ast.And) and pol) or (isinstance(test.op, ast.Or) and not pol):
            for v in test.values:
                yield from split_fact(v, pol)


def bound_in(n: ast.AST, name: str) -> list[ast.AST | None]:
    """the expressions one statement / clause binds to the local `name` (element-wise through tuple unpacking of a tuple display);
    None stands for a binding whose value is not an expression of its own (loop target, with, augmented assignment ...)"""
    out: list[ast.AST | None] = []
    if isinstance(n, ast.Assign):
        for t in n.targets:
            if isinstance(t, ast.Name) and t.id == name:
                out.append(n.value)
            elif isinstance(t, (ast.Tuple, ast.List)):
                for i, el in enumerate(t.elts):
                    if isinstance(el, ast.Name) and el.id == name:
                        if isinstance(n.value, (ast.Tuple, ast.List)) and len(n.value.elts) == len(t.elts) \
                                and not any(isinstance(x, ast.Starred) for x in list(t.elts) + list(n.value.elts)):
                            out.append(n.value.elts[i])
                        else:
                            out.append(None)
                    elif any(isinstance(x, ast.Name) and x.id == name for x in ast.walk(el)):
                        out.append(None)
    elif isinstance(n, ast.AnnAssign):
        if isinstance(n.target, ast.Name) and n.target.id == name and n.value is not None:
            out.append(n.value)
    elif isinstance(n, (ast.AugAssign, ast.NamedExpr)):
        if isinstance(n.target, ast.Name) and n.target.id == name:
            out.append(None)
    elif isinstance(n, (ast.For, ast.AsyncFor, ast.comprehension)):
        if any(isinstance(x, ast.Name) and x.id == name for x in ast.walk(n.target)):
            out.append(None)
    elif isinstance(n, ast.withitem):
        if n.optional_vars is not None and any(isinstance(x, ast.Name) and x.id == name for x in ast.walk(n.optional_vars)):
            out.append(None)
    elif isinstance(n, ast.ExceptHandler):
        if n.name == name:
            out.append(None)
    return out


def defs_of(fn: ast.AST, name: str) -> list[ast.AST | None]:
    """the expressions bound to the local `name` anywhere in fn (see bound_in)"""
    out: list[ast.AST | None] = []
    for n in own_nodes(fn):
        out.extend(bound_in(n, name))
    return out


def reaching_values(mod: Module, fn: ast.AST, node: ast.AST, name: str) -> list[ast.AST | None]:
    """the expressions that can be the value of the local `name` when `node` is evaluated: the bindings that reach the statement of
    node in the CFG of fn (None: the value at function entry - a parameter - or a binding without an expression of its own)"""
    from .cfg import CFG, reaching_defs
    g = CFG(fn)
    n: ast.AST | None = node
    while n is not None and id(n) not in g.by_ast:
        n = mod.parent.get(id(n))
    if n is None:
        return defs_of(fn, name) + [None]
    out: list[ast.AST | None] = []
    for d in sorted(reaching_defs(g, g.by_ast[id(n)], name)):
        st = g.nodes[d].ast
        if d == g.entry or st is None:
            out.append(None)
            continue
        b = bound_in(st, name)
        if isinstance(st, (ast.With, ast.AsyncWith)):
            b = [x for it in st.items for x in bound_in(it, name)]
        out.extend(b or [None])
    return out


def _never_rebound(fn: ast.AST, e: ast.AST) -> bool:
    """every local name the expression reads is a parameter that is never assigned (its value is the same wherever it is read)"""
    return all(not defs_of(fn, x) for x in _names(e))


def _at_test_time(mod: Module, fn: ast.AST, at: ast.AST, e: ast.expr, rebound: set[str]) -> ast.expr | None:
    """`e` as it was evaluated by the statement `at`, written without the names in `rebound` (re-bound between the test and the place the
    fact is used): each is replaced by the one expression bound to it on every path to `at`, when that expression reads never-assigned
    names only.  None when there is no such rewriting."""
    subst: dict[str, ast.AST] = {}
    for name in rebound:
        vals = reaching_values(mod, fn, at, name)
        if len(vals) != 1 or vals[0] is None or not _never_rebound(fn, vals[0]):
            return None
        subst[name] = vals[0]

    class _S(ast.NodeTransformer):
        def visit_Name(self, n: ast.Name):  # noqa: N802
            if isinstance(n.ctx, ast.Load) and n.id in subst:
                return ast.copy_location(copy.deepcopy(subst[n.id]), n)
            return n

    return _S().visit(copy.deepcopy(e))


def facts_at(mod: Module, fn: ast.AST, node: ast.AST) -> list[tuple[ast.expr, bool]]:
    """(expression, truth value) pairs that hold whenever `node` is evaluated inside `fn`:
    * the tests of the enclosing `if` statements / conditional expressions and the earlier operands of an enclosing and/or,
    * the tests of earlier sibling `if` statements one branch of which never falls through (`if c: return` => not c afterwards),
    * for a fact that is a local name bound exactly once: the same about the expression bound to it.
    A test is first taken apart (`a and b` true -> a, b; `a or b` false -> not a, not b); a part that reads a local name which is
    re-bound between the test and the node is restated in terms of the value the name had at the test (the one binding that reaches
    the test, when it reads never-assigned names only) and dropped otherwise; the other parts stay."""
    raw: list[tuple[ast.expr, bool, set[str], ast.AST]] = []
    child: ast.AST = node
    for p in mod.parents(node):
        if isinstance(p, (ast.If, ast.While)):
            if any(child is s for s in p.body):
                i = [k for k, s in enumerate(p.body) if s is child][0]
                raw.append((p.test, True, _stored(p.body if isinstance(p, ast.While) else p.body[:i]), p))
            elif isinstance(p, ast.If) and any(child is s for s in p.orelse):
                i = [k for k, s in enumerate(p.orelse) if s is child][0]
                raw.append((p.test, False, _stored(p.orelse[:i]), p))
        elif isinstance(p, ast.IfExp):
            if child is p.body:
                raw.append((p.test, True, set(), p))
            elif child is p.orelse:
                raw.append((p.test, False, set(), p))
        elif isinstance(p, ast.BoolOp):
            idx = [k for k, v in enumerate(p.values) if v is child]
            if idx:
                for v in p.values[: idx[0]]:
                    raw.append((v, isinstance(p.op, ast.And), set(), p))
        for field in ("body", "orelse", "finalbody"):
            lst = getattr(p, field, None)
            if isinstance(lst, list) and any(child is s for s in lst):
                i = [k for k, s in enumerate(lst) if s is child][0]
                for j, s in enumerate(lst[:i]):
                    if not isinstance(s, ast.If):
                        continue
                    between = _stored(lst[j + 1: i])
                    if terminates(s.body) and not terminates(s.orelse):
                        raw.append((s.test, False, between | _stored(s.orelse), s))
                    elif s.orelse and terminates(s.orelse) and not terminates(s.body):
                        raw.append((s.test, True, between | _stored(s.body), s))
        if p is fn:
            break
        child = p
    out: list[tuple[ast.expr, bool]] = []
    seen: set[tuple[str, bool]] = set()
    work: list[tuple[ast.expr, bool]] = []
    for t, pol, stored, at in raw:
        for e, pl in split_fact(t, pol):
            rebound = _names(e) & stored
            if rebound:
                if not isinstance(at, ast.stmt):
                    continue
                e2 = _at_test_time(mod, fn, at, e, rebound)
                if e2 is None:
                    continue
                e = e2
            work.append((e, pl))
    while work:
        e, pol = work.pop()
        k = (norm(e), pol)
        if k in seen:
            continue
        seen.add(k)
        out.append((e, pol))
        if isinstance(e, ast.Name):
            ds = defs_of(fn, e.id)
            if len(ds) == 1 and ds[0] is not None and not (_names(ds[0]) & {e.id}):
                # (the names read by the bound expression must be stable, too: parameters or single-assignment locals)
                if all(len(defs_of(fn, x)) <= 1 for x in _names(ds[0])):
                    work.extend(split_fact(ds[0], pol))
    return out


# --------------------------------------------------------------------------- `X is well-typed` facts


def ill_subject(e: ast.AST, local_flags: dict[str, str] | None = None) -> str | None:
    """the operand whose ill-typedness an expression reads: `R.ill_typed` / `R._ill_typed` -> norm(R), through bool(...);
    a local name listed in local_flags (name -> subject) stands for the flag of that subject"""
    if isinstance(e, ast.Call) and isinstance(e.func, ast.Name) and e.func.id == "bool" and len(e.args) == 1 and not e.keywords:
        return ill_subject(e.args[0], local_flags)
    if isinstance(e, ast.Attribute) and e.attr in ("ill_typed", "_ill_typed"):
        return norm(e.value)
    if isinstance(e, ast.Name) and local_flags and e.id in local_flags:
        return local_flags[e.id]
    return None


def well_typed(facts: list[tuple[ast.expr, bool]], local_flags: dict[str, str] | None = None, calls: "Calls | None" = None, mod: Module | None = None,
               depth: int = 0) -> set[str]:
    """subjects S for which the facts establish that S's ill-typed flag is not true: `not S.ill_typed`, `S.ill_typed is not True`,
    `S.ill_typed is False`, through `bool(A.ill_typed) != bool(B.ill_typed)` known false the flag of the other operand, and - with
    `calls` - a call of a function of the package whose truth value is known: what every return of the callee that can give that
    truth value establishes about its parameters (Calls.implied_well_typed)"""
    ok: set[str] = set()
    equiv: list[tuple[str, str]] = []
    for e, pol in facts:
        if calls is not None and mod is not None and (isinstance(e, ast.Call) or (isinstance(e, ast.Attribute) and ill_subject(e, local_flags) is None)):
            ok |= calls.implied_well_typed(mod, e, pol, depth)
        s = ill_subject(e, local_flags)
        if s is not None:
            if not pol:
                ok.add(s)
            continue
        if isinstance(e, ast.Compare) and len(e.ops) == 1:
            a, b, op = e.left, e.comparators[0], e.ops[0]
            sa, sb = ill_subject(a, local_flags), ill_subject(b, local_flags)
            if sa is not None and sb is not None:
                if (isinstance(op, ast.NotEq) and not pol) or (isinstance(op, ast.Eq) and pol):
                    equiv.append((sa, sb))
                continue
            if sa is None and sb is not None:
                a, b, sa = b, a, sb
            if sa is None or not isinstance(b, ast.Constant):
                continue
            if b.value is True:
                if (isinstance(op, (ast.IsNot, ast.NotEq)) and pol) or (isinstance(op, (ast.Is, ast.Eq)) and not pol):
                    ok.add(sa)
            elif b.value is False:
                if (isinstance(op, (ast.Is, ast.Eq)) and pol) or (isinstance(op, (ast.IsNot, ast.NotEq)) and not pol):
                    ok.add(sa)
    changed = True
    while changed:
        changed = False
        for a, b in equiv:
            for x, y in ((a, b), (b, a)):
                if x in ok and y not in ok:
                    ok.add(y)
                    changed = True
    return ok


def value_reads(fn: ast.AST, e: ast.AST, depth: int = 0) -> set[str]:
    """operands R whose Python value (`R.value` / `R._value`) an expression reads, also through local names all of whose
    bindings are such reads"""
    out: set[str] = set()
    for n in ast.walk(e):
        if isinstance(n, ast.Attribute) and n.attr in ("value", "_value") and isinstance(n.value, ast.Name):
            out.add(n.value.id)
        elif isinstance(n, ast.Name) and isinstance(n.ctx, ast.Load) and depth < 2:
            ds = defs_of(fn, n.id)
            if ds and all(d is not None and isinstance(d, ast.Attribute) and d.attr in ("value", "_value") and isinstance(d.value, ast.Name) for d in ds):
                out |= {d.value.id for d in ds}
    return out


# --------------------------------------------------------------------------- calls into the package


def _decorated_as(fn: ast.AST, *names: str) -> bool:
    return any(norm(d).rsplit(".", 1)[-1] in names for d in getattr(fn, "decorator_list", []))


class Calls:
    """Which function of the analysed package a call expression runs (the typed facts first: the callee mypy resolved, refused when
    a subclass overrides it; by name inside the module when mypy has no fact for the call), how its parameters are bound, which
    private functions an entry point reaches, and where a function is called from."""

    def __init__(self, repo):
        self.repo = repo
        self._sites: dict[str, dict[int, list]] = {}

    def _locate(self, full: str):
        best = None
        for name in self.repo.modules:
            if full.startswith(name + ".") and (best is None or len(name) > len(best)):
                best = name
        if best is None:
            return None
        m = self.repo.modules[best]
        q = full[len(best) + 1:]
        f = m.defs.get(q)
        if isinstance(f, (ast.FunctionDef, ast.AsyncFunctionDef)):
            return m, q, f
        return None

    def target(self, mod: Module, call: ast.Call):
        """(module, qualified name, def) of the one function the call runs; None when unknown or not unique"""
        typed = self.repo.typed
        cs = typed.callees(mod.name, call)
        if len(cs) == 1 and "." in cs[0]:
            if len(typed.overrides(cs[0])) > 1:
                return None
            return self._locate(cs[0])
        if len(cs) > 1:
            return None
        # (no fact, or the bare name of a function defined inside a function)
        f = call.func
        if isinstance(f, ast.Name):
            # a function defined in an enclosing function, then one of the module
            q = mod.qual_of(call)
            while True:
                qn = (q + "." if q else "") + f.id
                d = mod.defs.get(qn)
                if isinstance(d, (ast.FunctionDef, ast.AsyncFunctionDef)) and (not q or isinstance(mod.defs.get(q), (ast.FunctionDef, ast.AsyncFunctionDef))):
                    return mod, qn, d
                if not q:
                    break
                q = q.rpartition(".")[0]
        if isinstance(f, ast.Attribute) and isinstance(f.value, ast.Name) and f.value.id in ("self", "cls"):
            q = mod.qual_of(call)
            while q:
                q = q.rpartition(".")[0]
                if isinstance(mod.defs.get(q), ast.ClassDef):
                    d = mod.defs.get(q + "." + f.attr)
                    if isinstance(d, (ast.FunctionDef, ast.AsyncFunctionDef)) and len(typed.overrides(mod.name + "." + q + "." + f.attr)) <= 1:
                        return mod, q + "." + f.attr, d
                    return None
        return None

    def getter(self, mod: Module, read: ast.AST):
        """(module, qualified name, def) of the property getter that the attribute read `R.name` runs - a call of that function with R
        as its only argument, written without parentheses: every class R can be an instance of (the typed facts; the enclosing class
        for `self`) resolves `name` to one and the same function of the package, that function is decorated as a property and no
        subclass of the package redefines the name.  None for every other read (a plain attribute, an unknown receiver)."""
        if not (isinstance(read, ast.Attribute) and isinstance(read.ctx, ast.Load)):
            return None
        typed = self.repo.typed
        tf = typed.type_of(mod.name, read.value)
        classes = [i for i in tf.items] if tf is not None and not tf.any and not tf.optional else []
        if not classes and isinstance(read.value, ast.Name) and read.value.id == "self":
            q = mod.qual_of(read)
            while q:
                q = q.rpartition(".")[0]
                if isinstance(mod.defs.get(q), ast.ClassDef):
                    classes = [mod.name + "." + q]
                    break
        if not classes or any(c not in typed.classes for c in classes):
            return None
        full = {typed.resolve_method(c, read.attr) for c in classes}
        if len(full) != 1 or None in full:
            return None
        f0 = full.pop()
        if len(typed.overrides(f0)) > 1:
            return None
        t = self._locate(f0)
        if t is None or not _decorated_as(t[2], "property", "cached_property"):
            return None
        a = t[2].args  # type: ignore[attr-defined]
        if len(a.posonlyargs) + len(a.args) != 1 or a.vararg or a.kwarg or a.kwonlyargs:
            return None
        return t

    @staticmethod
    def bind(qual: str, fn: ast.AST, call: ast.Call) -> dict[str, ast.AST] | None:
        """parameter name -> argument expression (the receiver for the first parameter of a method called as `R.m(...)`)"""
        a = fn.args  # type: ignore[attr-defined]
        if a.vararg or a.kwarg or _decorated_as(fn, "staticmethod", "classmethod", "property") or any(isinstance(x, ast.Starred) for x in call.args) \
                or any(k.arg is None for k in call.keywords):
            return None
        params = [p.arg for p in list(a.posonlyargs) + list(a.args)]
        out: dict[str, ast.AST] = {}
        args = list(call.args)
        if isinstance(call.func, ast.Attribute):  # R.m(...): the receiver is the first argument
            if not params:
                return None
            args = [call.func.value] + args
        if len(args) > len(params):
            return None
        for p, x in zip(params, args):
            out[p] = x
        for k in call.keywords:
            out[k.arg] = k.value  # type: ignore[index]
        return out

    def call_sites(self, mod: Module, fn: ast.AST) -> list:
        """every (qualified name of the caller, caller def, call) in `mod` whose callee is fn"""
        idx = self._sites.get(mod.name)
        if idx is None or idx.get(-1) is not mod:
            idx = {-1: mod}  # type: ignore[dict-item]
            for q, f in mod.functions():
                for c in own_nodes(f):
                    if isinstance(c, ast.Call):
                        t = self.target(mod, c)
                        if t is not None and t[0] is mod:
                            idx.setdefault(id(t[2]), []).append((q, f, c))
            self._sites[mod.name] = idx
        return idx.get(id(fn), [])

    def every_call_site(self, mod: Module, fn: ast.AST) -> list | None:
        """call_sites when they are all the uses there are of the private function fn: every mention of its name in the module is the
        callee of one of them and no other module mentions the name; None otherwise (fn may run in a context that is not known)"""
        nm = getattr(fn, "name", "")
        if not nm.startswith("_") or (nm.startswith("__") and nm.endswith("__")):
            return None
        sites = self.call_sites(mod, fn)
        funcs = {id(c.func) for _, _, c in sites}
        for n in ast.walk(mod.tree):
            if ((isinstance(n, ast.Name) and n.id == nm) or (isinstance(n, ast.Attribute) and n.attr == nm)) and id(n) not in funcs:
                return None
        for rel, text in getattr(self.repo, "_texts", {}).items():
            if rel != mod.rel and nm in text:
                return None
        return sites

    def private_closure(self, mod: Module, qual: str) -> list[tuple[str, ast.AST]]:
        """the function `qual` of `mod` and the private functions of the same module (single leading underscore or name-mangled:
        not part of the public interface, so their only role is the one their callers give them) that it calls, transitively"""
        f0 = mod.defs.get(qual)
        if not isinstance(f0, (ast.FunctionDef, ast.AsyncFunctionDef)):
            return []
        out: list[tuple[str, ast.AST]] = [(qual, f0)]
        seen = {id(f0)}
        work = [f0]
        while work:
            f = work.pop()
            for c in own_nodes(f):
                if not isinstance(c, ast.Call):
                    continue
                t = self.target(mod, c)
                if t is None or t[0] is not mod or id(t[2]) in seen:
                    continue
                nm = t[1].rsplit(".", 1)[-1]
                if not nm.startswith("_") or (nm.startswith("__") and nm.endswith("__")):
                    continue
                seen.add(id(t[2]))
                out.append((t[1], t[2]))
                work.append(t[2])
        return out

    # -- `the call is true/false` as a fact about the ill-typed flags of its arguments
    def implied_well_typed(self, mod: Module, call: ast.AST, pol: bool, depth: int = 0) -> set[str]:
        """subjects (normalised argument / receiver expressions) whose ill-typed flag is known not to be true when the call - `f(..)`,
        `R.m(..)`, or the read `R.p` of a property, which calls its getter - returned a true (pol) / false (not pol) value: what holds at EVERY return statement of the callee that can hand back such a value - the
        facts on the way to it together with the returned expression itself having that truth value - said about the parameters and
        carried over to the arguments bound to them"""
        if depth > 2:
            return set()
        if isinstance(call, ast.Attribute):
            # the read of a property: a call of its getter with the receiver as the argument
            t = self.getter(mod, call)
            if t is None:
                return set()
            cm, q, cf = t
            b: dict[str, ast.AST] | None = {(cf.args.posonlyargs + cf.args.args)[0].arg: call.value}  # type: ignore[attr-defined]
        else:
            t = self.target(mod, call)
            if t is None:
                return set()
            cm, q, cf = t
            b = self.bind(q, cf, call)
        if b is None or any(isinstance(n, (ast.Yield, ast.YieldFrom, ast.Await)) for n in own_nodes(cf)):
            return set()
        if not pol and not terminates(cf.body):  # type: ignore[attr-defined]
            return set()  # falling off the end hands back None, a false value, on a path with no facts
        common: set[str] | None = None
        for r in own_nodes(cf):
            if not isinstance(r, ast.Return):
                continue
            v = r.value if r.value is not None else ast.Constant(value=None)
            if isinstance(v, ast.Constant) and bool(v.value) != pol:
                continue
            here = well_typed(facts_at(cm, cf, r) + list(split_fact(v, pol)), None, self, cm, depth + 1)
            common = here if common is None else (common & here)
        if not common:
            return set()
        return {norm(b[p]) for p in common if p in b and not defs_of(cf, p)}

    # -- facts that every caller establishes
    def well_typed_at(self, mod: Module, fn: ast.AST, node: ast.AST, local_flags: dict[str, str] | None = None, scope: set[int] | None = None,
                      depth: int = 0) -> set[str]:
        """subjects whose ill-typed flag is known not to be true when `node` of `fn` is evaluated: by the facts inside fn, and - for a
        private function - by what holds at EVERY call of it about the arguments bound to its (never re-bound) parameters.  The calls
        that count: with `scope` (ids of the functions that make up the paths of interest, entry points included) the calls from
        those functions; without, all calls in the module, and only when these are all the uses of the function there are"""
        wt = well_typed(facts_at(mod, fn, node), local_flags, self, mod)
        nm = getattr(fn, "name", "")
        if depth < 3 and nm.startswith("_") and not (nm.startswith("__") and nm.endswith("__")):
            q = mod.qual_of(fn)
            sites = self.every_call_site(mod, fn) if scope is None else [x for x in self.call_sites(mod, fn) if id(x[1]) in scope]
            common: set[str] | None = None
            for cq, cf, call in sites or []:
                b = self.bind(q, fn, call) if cf is not fn else None
                if b is None:
                    common = set()
                    break
                w = self.well_typed_at(mod, cf, call, None, scope, depth + 1)
                mapped = {p for p, a in b.items() if norm(a) in w and not defs_of(fn, p)}
                common = mapped if common is None else (common & mapped)
            if common:
                wt |= common
        return wt


def ill_typed_flag_locals(calls: Calls, mod: Module, fn: ast.AST, subject: str, depth: int = 0) -> dict[str, str]:
    """local names of fn whose value becomes the `_ill_typed` flag of the literal under construction (name -> subject):
    * a name stored into `X._ill_typed`,
    * a name copied (plain `a = b`, element-wise through a tuple display) into such a name,
    * a name fn hands back - as its result, or as the i-th element of the tuple display every return statement gives - to a caller in
      the module that binds that result / that element to such a name of its own."""
    flags: set[str] = set()
    for n in own_nodes(fn):
        if isinstance(n, ast.Assign) and isinstance(n.value, ast.Name) and any(isinstance(t, ast.Attribute) and t.attr == "_ill_typed" for t in n.targets):
            flags.add(n.value.id)
    if depth < 2:
        q = mod.qual_of(fn)
        rets = [r for r in own_nodes(fn) if isinstance(r, ast.Return) and r.value is not None]
        for cq, cf, call in calls.call_sites(mod, fn):
            if cf is fn or not rets:
                continue
            st = mod.parent.get(id(call))
            if not (isinstance(st, ast.Assign) and st.value is call):
                continue
            theirs = ill_typed_flag_locals(calls, mod, cf, subject, depth + 1)
            for t in st.targets:
                if isinstance(t, ast.Name) and t.id in theirs:
                    if all(isinstance(r.value, ast.Name) for r in rets):
                        flags |= {r.value.id for r in rets}  # type: ignore[union-attr]
                elif isinstance(t, (ast.Tuple, ast.List)) and not any(isinstance(x, ast.Starred) for x in t.elts):
                    for i, el in enumerate(t.elts):
                        if isinstance(el, ast.Name) and el.id in theirs:
                            if all(isinstance(r.value, ast.Tuple) and len(r.value.elts) == len(t.elts) and isinstance(r.value.elts[i], ast.Name) for r in rets):
                                flags |= {r.value.elts[i].id for r in rets}  # type: ignore[union-attr]
    changed = True
    while changed:
        changed = False
        for n in own_nodes(fn):
            for f in list(flags):
                for v in bound_in(n, f):
                    if isinstance(v, ast.Name) and v.id not in flags:
                        flags.add(v.id)
                        changed = True
    return {f: subject for f in flags}


def value_read_nodes(fn: ast.AST, e: ast.AST) -> list[tuple[str, ast.AST]]:
    """(operand R, the node inside e at which R's Python value enters the computation): `R.value` / `R._value` itself, or the read
    of a local name all of whose bindings are such reads (see value_reads)"""
    out: list[tuple[str, ast.AST]] = []
    for n in ast.walk(e):
        if isinstance(n, ast.Attribute) and n.attr in ("value", "_value") and isinstance(n.value, ast.Name):
            out.append((n.value.id, n))
        elif isinstance(n, ast.Name) and isinstance(n.ctx, ast.Load):
            ds = defs_of(fn, n.id)
            if ds and all(d is not None and isinstance(d, ast.Attribute) and d.attr in ("value", "_value") and isinstance(d.value, ast.Name) for d in ds):
                out.extend((d.value.id, n) for d in ds)  # type: ignore[union-attr]
    return out


# --------------------------------------------------------------------------- named fields of a match (parse functions)

NUMERIC_CONSTRUCTORS = ("float", "int", "Decimal", "Fraction", "complex")


def _const_keys(e: ast.AST, mod: Module | None = None, fn: ast.AST | None = None) -> list[str] | None:
    """the strings of a constant collection of strings: a display, or (mod given) a module-level name that denotes one constant
    sequence for the whole life of the module (_module_tables) and is not a local name of fn"""
    if isinstance(e, ast.Name) and mod is not None:
        tables = mod.__dict__.get("_c09_tables")
        if tables is None:
            tables = mod.__dict__["_c09_tables"] = _module_tables(mod.tree)
        if e.id in tables and not (fn is not None and any(
                (isinstance(n, ast.Name) and n.id == e.id and isinstance(n.ctx, (ast.Store, ast.Del))) or (isinstance(n, ast.arg) and n.arg == e.id) for n in ast.walk(fn))):
            e = ast.Tuple(elts=tables[e.id], ctx=ast.Load())
    if isinstance(e, (ast.Tuple, ast.List, ast.Set)) and e.elts and all(isinstance(x, ast.Constant) and isinstance(x.value, str) for x in e.elts):
        return [x.value for x in e.elts]  # type: ignore[attr-defined]
    return None


def key_read(n: ast.AST) -> ast.AST | None:
    """the key expression of a read of a named field: `G[k]`, `G.get(k)`, `G.group(k)` (k a string constant or a name)"""
    if isinstance(n, ast.Subscript) and isinstance(n.ctx, ast.Load) and isinstance(n.slice, (ast.Constant, ast.Name)):
        if isinstance(n.slice, ast.Name) or isinstance(n.slice.value, str):
            return n.slice
    if isinstance(n, ast.Call) and isinstance(n.func, ast.Attribute) and n.func.attr in ("get", "group") and n.args and isinstance(n.args[0], (ast.Constant, ast.Name)):
        if isinstance(n.args[0], ast.Name) or isinstance(n.args[0].value, str):
            return n.args[0]
    return None


def feasible_keys(mod: Module, fn: ast.AST, read: ast.AST, universe: set[str]) -> set[str]:
    """the field names (out of `universe`) the key of a field read can denote where the read is evaluated: the constant itself; for a
    name the elements of the constant collection a comprehension / for loop around the read draws it from, else the whole universe;
    narrowed by the enclosing `key in (...)` / `key not in (...)` / `key == "..."` tests (branch facts)"""
    k = key_read(read)
    if k is None:
        return set()
    if isinstance(k, ast.Constant):
        return {k.value} & universe if universe else {k.value}
    keys = set(universe)
    for p in mod.parents(read):
        gens = p.generators if isinstance(p, (ast.GeneratorExp, ast.ListComp, ast.SetComp, ast.DictComp)) else []
        for g in gens:
            if any(isinstance(x, ast.Name) and x.id == k.id for x in ast.walk(g.target)):
                c = _const_keys(g.iter, mod, fn)
                if c is not None and isinstance(g.target, ast.Name):
                    keys &= set(c)
        if isinstance(p, (ast.For, ast.AsyncFor)) and isinstance(p.target, ast.Name) and p.target.id == k.id:
            c = _const_keys(p.iter, mod, fn)
            if c is not None:
                keys &= set(c)
        if p is fn:
            break
    for e, pol in facts_at(mod, fn, read):
        if isinstance(e, ast.Compare) and len(e.ops) == 1 and isinstance(e.left, ast.Name) and e.left.id == k.id:
            op, c = e.ops[0], e.comparators[0]
            members = _const_keys(c)
            if isinstance(op, (ast.Eq, ast.NotEq)) and isinstance(c, ast.Constant) and isinstance(c.value, str):
                members, op = [c.value], (ast.In() if isinstance(op, ast.Eq) else ast.NotIn())
            if members is None or not isinstance(op, (ast.In, ast.NotIn)):
                continue
            if isinstance(op, ast.In) == pol:
                keys &= set(members)
            else:
                keys -= set(members)
    return keys


def fields_of(mod: Module, fn: ast.AST, e: ast.AST, universe: set[str], depth: int = 0) -> set[str]:
    """the named fields the value of an expression is computed from: the field reads inside it (feasible_keys), and - through the
    local names it reads - the fields of every expression bound to them in fn (plain and tuple-display assignments element-wise; a
    tuple of n names bound to a comprehension over a constant collection of n keys: the i-th name to the i-th key)"""
    out: set[str] = set()
    for n in ast.walk(e):
        if key_read(n) is not None:
            out |= feasible_keys(mod, fn, n, universe)
        elif isinstance(n, ast.Name) and isinstance(n.ctx, ast.Load) and depth < 4:
            for st in own_nodes(fn):
                if isinstance(st, ast.Assign):
                    for t in st.targets:
                        if isinstance(t, (ast.Tuple, ast.List)) and isinstance(st.value, (ast.GeneratorExp, ast.ListComp)) and len(st.value.generators) == 1 \
                                and not st.value.generators[0].ifs and isinstance(st.value.generators[0].target, ast.Name):
                            ks = _const_keys(st.value.generators[0].iter, mod, fn)
                            if ks is not None and len(ks) == len(t.elts):
                                for i, el in enumerate(t.elts):
                                    if isinstance(el, ast.Name) and el.id == n.id:
                                        var = st.value.generators[0].target.id
                                        if any(isinstance(k_, ast.Name) and k_.id == var for r in ast.walk(st.value.elt) for k_ in [key_read(r)] if k_ is not None):
                                            out |= {ks[i]} & universe if universe else {ks[i]}
                                continue
                for v in bound_in(st, n.id):
                    if v is not None:
                        out |= fields_of(mod, fn, v, universe, depth + 1)
    return out


def text_conversions(calls: "Calls", mod: Module, fn: ast.AST, node: ast.AST, depth: int = 0) -> tuple[set[str], bool]:
    """(the numeric constructors - float, int, Decimal, Fraction - that the text read at `node` is handed to first, whether the text
    also leaves fn unconverted through a return): followed from the node outwards through what keeps a text a text (slicing, str
    methods, cast(), conditional expressions, a call of a function of the package - continued inside it at the parameter, and behind
    the call when that function hands the text back) and through the local names it is bound to; arithmetic, comparisons and
    everything else end the trail (what arrives there is no text any more, or is not converted)"""
    convs: set[str] = set()
    passes = False
    if depth > 4:
        return convs, passes
    cur = node
    while True:
        p = mod.parent.get(id(cur))
        if p is None:
            break
        if isinstance(p, ast.Subscript) and p.value is cur:
            cur = p
            continue
        if isinstance(p, ast.Attribute) and p.value is cur:
            pp = mod.parent.get(id(p))
            if isinstance(pp, ast.Call) and pp.func is p:
                cur = pp  # a str method: replace, strip, ...
                continue
            break
        if isinstance(p, ast.IfExp) and cur is not p.test:
            cur = p
            continue
        if isinstance(p, ast.keyword):
            pp = mod.parent.get(id(p))
            p_call, kw = pp, p.arg
        else:
            p_call, kw = p, None
        if isinstance(p_call, ast.Call) and (kw is not None or any(a is cur for a in p_call.args)):
            fname = norm(p_call.func).rsplit(".", 1)[-1]
            if fname in NUMERIC_CONSTRUCTORS:
                convs.add(fname)
                break
            if fname == "cast" and len(p_call.args) == 2 and p_call.args[1] is cur:
                cur = p_call
                continue
            t = calls.target(mod, p_call)
            if t is None:
                break
            cm, q, cf = t
            b = calls.bind(q, cf, p_call)
            through = False
            for prm, a in (b or {}).items():
                if a is cur:
                    for x in own_nodes(cf):
                        if isinstance(x, ast.Name) and isinstance(x.ctx, ast.Load) and x.id == prm:
                            c2, p2 = text_conversions(calls, cm, cf, x, depth + 1)
                            convs |= c2
                            through = through or p2
            if through:
                cur = p_call
                continue
            break
        if isinstance(p, ast.Return):
            passes = True
            break
        if isinstance(p, (ast.Assign, ast.AnnAssign)) and p.value is cur:
            targets = p.targets if isinstance(p, ast.Assign) else [p.target]
            for t_ in targets:
                if isinstance(t_, ast.Name):
                    for x in own_nodes(fn):
                        if isinstance(x, ast.Name) and isinstance(x.ctx, ast.Load) and x.id == t_.id:
                            c2, p2 = text_conversions(calls, mod, fn, x, depth + 1)
                            convs |= c2
                            passes = passes or p2
            break
        break
    return convs, passes


# --------------------------------------------------------------------------- loops over constant tables, written out

_PURE_CONSUMERS = ("len", "tuple", "list", "set", "frozenset", "sorted", "enumerate", "zip", "reversed", "iter", "dict", "isinstance", "issubclass")
_FUNC = (ast.FunctionDef, ast.AsyncFunctionDef)


def _module_tables(tree: ast.Module) -> dict[str, list[ast.AST]]:
    """module-level names that denote one constant sequence for the whole life of the module -> its elements: bound exactly once, by
    a plain / annotated assignment at module level, to a tuple display (or to a list display that nothing can change: no attribute
    of the name is taken, no item stored, the name is handed to no function but the pure consumers of the standard library), never
    stored, deleted, augmented or declared global anywhere else in the module"""
    cand: dict[str, ast.AST] = {}
    for st in tree.body:
        if isinstance(st, ast.Assign) and len(st.targets) == 1 and isinstance(st.targets[0], ast.Name):
            cand[st.targets[0].id] = st.value if st.targets[0].id not in cand else None  # type: ignore[assignment]
        elif isinstance(st, ast.AnnAssign) and isinstance(st.target, ast.Name) and st.value is not None:
            cand[st.target.id] = st.value if st.target.id not in cand else None  # type: ignore[assignment]
    cand = {k: v for k, v in cand.items() if isinstance(v, (ast.Tuple, ast.List)) and not any(isinstance(x, ast.Starred) for x in v.elts)}
    if not cand:
        return {}
    stores: dict[str, int] = {}
    spoiled: set[str] = set()
    for n in ast.walk(tree):
        if isinstance(n, ast.Name) and isinstance(n.ctx, (ast.Store, ast.Del)) and n.id in cand:
            stores[n.id] = stores.get(n.id, 0) + 1
        elif isinstance(n, (ast.Global, ast.Nonlocal)):
            spoiled |= set(n.names) & set(cand)
        elif isinstance(n, ast.arg) and n.arg in cand:
            spoiled.add(n.arg)
        elif isinstance(n, ast.Attribute) and isinstance(n.value, ast.Name) and n.value.id in cand and isinstance(cand[n.value.id], ast.List):
            spoiled.add(n.value.id)
        elif isinstance(n, ast.Subscript) and isinstance(n.value, ast.Name) and n.value.id in cand and not isinstance(n.ctx, ast.Load):
            spoiled.add(n.value.id)
        elif isinstance(n, ast.Call):
            pure = isinstance(n.func, ast.Name) and n.func.id in _PURE_CONSUMERS
            for a in list(n.args) + [k.value for k in n.keywords]:
                if isinstance(a, ast.Starred):
                    a = a.value
                if isinstance(a, ast.Name) and a.id in cand and isinstance(cand[a.id], ast.List) and not pure:
                    spoiled.add(a.id)
    return {k: list(v.elts) for k, v in cand.items() if stores.get(k, 0) == 1 and k not in spoiled}  # type: ignore[attr-defined]


def _stable_element(e: ast.AST, local_names: set[str]) -> bool:
    """an element of a table row that can be written where the loop variable is read: names (not local ones), attributes of them,
    constants, arithmetic on these, tuple displays of these - evaluating it again gives the object the table holds (or an equal
    immutable one)"""
    for n in ast.walk(e):
        if isinstance(n, ast.Name):
            if not isinstance(n.ctx, ast.Load) or n.id in local_names:
                return False
        elif not isinstance(n, (ast.Constant, ast.Tuple, ast.Attribute, ast.UnaryOp, ast.BinOp, ast.operator, ast.unaryop, ast.expr_context)):
            return False
    return True


def _loop_level(stmts: list) -> Iterator[ast.AST]:
    """the nodes of a loop body that belong to this loop: not those of nested function / class bodies, and of a nested loop only its
    `else` part (a break or continue in the body of a nested loop is that loop's)"""
    stack = list(stmts)
    while stack:
        n = stack.pop()
        yield n
        if isinstance(n, _FUNC + (ast.ClassDef, ast.Lambda)):
            continue
        if isinstance(n, (ast.For, ast.AsyncFor, ast.While)):
            stack.extend(n.orelse)
            continue
        stack.extend(ast.iter_child_nodes(n))


class _RowSubst(ast.NodeTransformer):
    def __init__(self, row: dict[str, ast.AST]):
        self.row = row

    def visit_Name(self, n: ast.Name):  # noqa: N802
        if isinstance(n.ctx, ast.Load) and n.id in self.row:
            return copy.deepcopy(self.row[n.id])
        return n

    def visit_Subscript(self, n: ast.Subscript):  # noqa: N802
        self.generic_visit(n)
        if isinstance(n.ctx, ast.Load) and isinstance(n.value, ast.Tuple) and isinstance(n.slice, ast.Constant) and isinstance(n.slice.value, int) \
                and not isinstance(n.slice.value, bool) and -len(n.value.elts) <= n.slice.value < len(n.value.elts) \
                and not any(isinstance(x, ast.Starred) for x in n.value.elts):
            return n.value.elts[n.slice.value]
        return n


class _Unroller:
    """`for <names> in <constant table>: BODY` written out row by row, the loop names replaced by the elements of the row - what the
    loop does, in the form of the statements it stands for:
    * BODY without break / continue: BODY[row 1]; BODY[row 2]; ...
    * BODY = PREFIX; `if T: S; break` (the only break, no continue; the first row that passes the test ends the search):
      PREFIX[1]; if T[1]: S[1] else: (PREFIX[2]; if T[2]: S[2] else: ...) - an if / elif chain when there is no PREFIX.
    Refused (the loop stays as it is): a loop with `else`, a table row of another shape than the loop target, row elements that are
    not stable (calls, local names), loop names that are read or written outside the loop, captured by a nested function / lambda /
    generator expression, or stored inside BODY, a table that is not one constant sequence (see _module_tables), more than 64 rows."""

    def __init__(self, tree: ast.Module, dry: bool = False):
        self.tables = _module_tables(tree)
        self.n = 0
        self.dry = dry

    def rows_of(self, it: ast.AST, local_names: set[str]) -> list[ast.AST] | None:
        if isinstance(it, ast.Name) and it.id in self.tables and it.id not in local_names:
            return self.tables[it.id]
        if isinstance(it, (ast.Tuple, ast.List)) and not any(isinstance(x, ast.Starred) for x in it.elts):
            return list(it.elts)
        return None

    def function(self, fn: ast.AST) -> None:
        local_names = {a.arg for a in ast.walk(fn.args)if isinstance(a, ast.arg)}  # type: ignore[attr-defined]
        local_names |= {n.id for n in ast.walk(fn) if isinstance(n, ast.Name) and isinstance(n.ctx, (ast.Store, ast.Del))}
        new = self.block(fn.body, fn, local_names)  # type: ignore[attr-defined]
        if not self.dry:
            fn.body = new  # type: ignore[attr-defined]

    def block(self, stmts: list, fn: ast.AST, local_names: set[str]) -> list:
        out: list = []
        for st in stmts:
            if isinstance(st, _FUNC + (ast.ClassDef,)):
                out.append(st)
                continue
            for fld in ("body", "orelse", "finalbody"):
                lst = getattr(st, fld, None)
                if isinstance(lst, list) and lst and isinstance(lst[0], ast.stmt):
                    new = self.block(lst, fn, local_names)
                    if not self.dry:
                        setattr(st, fld, new)
            for h in getattr(st, "handlers", []) or []:
                new = self.block(h.body, fn, local_names)
                if not self.dry:
                    h.body = new
            for c in getattr(st, "cases", []) or []:
                new = self.block(c.body, fn, local_names)
                if not self.dry:
                    c.body = new
            r = self.loop(st, fn, local_names) if isinstance(st, ast.For) else None
            if r is None:
                out.append(st)
            else:
                self.n += 1
                out.extend(r)
        return out

    def loop(self, st: ast.For, fn: ast.AST, local_names: set[str]) -> list | None:
        if st.orelse:
            return None
        rows = self.rows_of(st.iter, local_names)
        if rows is None or not (1 <= len(rows) <= 64):
            return None
        if isinstance(st.target, ast.Name):
            names = [st.target.id]
            per_row = [[r] for r in rows]
        elif isinstance(st.target, (ast.Tuple, ast.List)) and st.target.elts and all(isinstance(x, ast.Name) for x in st.target.elts):
            names = [x.id for x in st.target.elts]  # type: ignore[attr-defined]
            if len(set(names)) != len(names):
                return None
            per_row = []
            for r in rows:
                if not isinstance(r, (ast.Tuple, ast.List)) or len(r.elts) != len(names) or any(isinstance(x, ast.Starred) for x in r.elts):
                    return None
                per_row.append(list(r.elts))
        else:
            return None
        others = local_names - set(names)
        if not all(_stable_element(e, others) for r in per_row for e in r):
            return None
        if any(isinstance(x, ast.Name) and x.id in names for r in per_row for e in r for x in ast.walk(e)):
            return None
        # the loop names live in the loop only
        inside = sum(1 for n in ast.walk(st) if isinstance(n, ast.Name) and n.id in names)
        everywhere = sum(1 for n in ast.walk(fn) if isinstance(n, ast.Name) and n.id in names)
        if inside != everywhere:
            return None
        for n in [x for s in st.body for x in ast.walk(s)]:
            if isinstance(n, ast.Name) and n.id in names and not isinstance(n.ctx, ast.Load):
                return None
            if isinstance(n, _FUNC + (ast.Lambda, ast.GeneratorExp, ast.ClassDef)) and any(isinstance(x, ast.Name) and x.id in names for x in ast.walk(n)):
                return None
            if isinstance(n, (ast.Global, ast.Nonlocal, ast.NamedExpr)) and any(isinstance(x, ast.Name) and x.id in names for x in ast.walk(n)):
                return None
            if isinstance(n, (ast.Yield, ast.YieldFrom, ast.Await)):
                pass  # (a generator stays a generator: the statements are kept)
        level = list(_loop_level(st.body))
        if any(isinstance(n, ast.Continue) for n in level):
            return None
        breaks = [n for n in level if isinstance(n, ast.Break)]

        def inst(stmts: list, row: list) -> list:
            m = dict(zip(names, row))
            return [ast.fix_missing_locations(_RowSubst(m).visit(copy.deepcopy(s))) for s in stmts]

        if self.dry:
            ok = not breaks or (len(breaks) == 1 and isinstance(st.body[-1], ast.If) and not st.body[-1].orelse and st.body[-1].body[-1] is breaks[0])
            return [] if ok else None
        if not breaks:
            return [s for r in per_row for s in inst(st.body, r)]
        last = st.body[-1]
        if not (len(breaks) == 1 and isinstance(last, ast.If) and not last.orelse and last.body[-1] is breaks[0]):
            return None
        prefix = st.body[:-1]
        result: list = []
        for r in reversed(per_row):
            test = inst([ast.Expr(value=last.test)], r)[0].value
            body = inst(last.body[:-1], r) or [ast.copy_location(ast.Pass(), last.body[-1])]
            node = ast.copy_location(ast.If(test=test, body=body, orelse=result), last)
            result = inst(prefix, r) + [node]
        return result


def unrolled_tree(tree: ast.Module) -> ast.Module | None:
    """a copy of the module in which the loops over constant tables are written out (see _Unroller); None when it has no such loop"""
    probe = _Unroller(tree, dry=True)
    for fn in [n for n in ast.walk(tree) if isinstance(n, _FUNC)]:
        probe.function(fn)
    if not probe.n:
        return None
    new = copy.deepcopy(tree)
    u = _Unroller(new)
    for fn in [n for n in ast.walk(new) if isinstance(n, _FUNC)]:
        u.function(fn)
    return new if u.n else None


def unrolled(repo):
    """the package with the loops over constant tables written out: a Repo like an equivalent view of vlib/views.py (same source
    positions, so the typed facts stay valid; modules rewritten when first asked for; a module without such a loop is the module
    itself).  The rules of C09 speak about the branches of comparison / conversion code; a table of rows run through by a `for` IS a
    chain of such branches, and this is where it is given that form - nothing is executed."""
    cache = repo.__dict__.get("_c09_unrolled")
    if cache is not None:
        return cache
    from .core import Repo, _LazyModules
    base_modules = repo.modules
    v = Repo.__new__(Repo)
    v.root, v.pkg, v._texts, v._typed = repo.root, repo.pkg, repo._texts, None
    v.base = repo  # type: ignore[attr-defined]
    for k in ("view_kind", "view_stats"):
        if hasattr(repo, k):
            setattr(v, k, getattr(repo, k))

    def build(name: str) -> Module:
        m = base_modules[name]
        t = unrolled_tree(m.tree)
        return m if t is None else Module(m.name, m.path, m.rel, m.text, tree=t)

    v.modules = _LazyModules(list(base_modules), build)  # type: ignore[assignment]
    repo.__dict__["_c09_unrolled"] = v
    return v


# --------------------------------------------------------------------------- what a function writes for a given (zero) argument

import operator as _op


class _Unk(Exception):
    """the evaluation met something it does not model: no answer (never a guess)"""


class Obj:
    """an argument value known by its type name and its attribute values (the zero timedelta, the zero Duration)"""

    def __init__(self, type_name: str, attrs: dict, falsy: bool | None = None, delegate: "Obj | None" = None, bases: tuple = ()):
        self.type_name, self.attrs, self.falsy, self.delegate, self.bases = type_name, attrs, falsy, delegate, bases

    def attr(self, name: str):
        if name in self.attrs:
            return self.attrs[name]
        if self.delegate is not None:
            return self.delegate.attr(name)
        raise _Unk(name)


class Fn:
    """a function of the analysed package as a value (its def)"""

    def __init__(self, node: ast.AST):
        self.node = node


class Partial:
    """functools.partial(callee, *args, **kwargs) as a value"""

    def __init__(self, callee, args: list, kwargs: dict):
        self.callee, self.args, self.kwargs = callee, args, kwargs


_OPERATOR_FUNCTIONS = ("lt", "le", "eq", "ne", "ge", "gt", "add", "sub", "mul", "floordiv", "mod", "neg", "abs", "not_", "truth", "contains")

_BIN = {ast.Add: _op.add, ast.Sub: _op.sub, ast.Mult: _op.mul, ast.FloorDiv: _op.floordiv, ast.Mod: _op.mod, ast.Pow: _op.pow, ast.Div: _op.truediv}
_CMP = {ast.Eq: _op.eq, ast.NotEq: _op.ne, ast.Lt: _op.lt, ast.LtE: _op.le, ast.Gt: _op.gt, ast.GtE: _op.ge, ast.Is: _op.is_, ast.IsNot: _op.is_not,
        ast.In: lambda a, b: a in b, ast.NotIn: lambda a, b: a not in b}
_PLAIN = (int, str, bool, float, type(None), list, tuple)
_PURE_BUILTINS = {"abs": abs, "divmod": divmod, "str": str, "int": int, "len": len, "bool": bool, "min": min, "max": max, "repr": repr, "round": round, "sum": sum}
_STR_METHODS = ("join", "rstrip", "lstrip", "strip", "zfill", "format", "upper", "lower", "replace", "startswith", "endswith", "rjust", "ljust")


class Evaluator:
    """A small evaluator of function bodies over plain values (int, str, bool, None, list, tuple) and `Obj` arguments: assignments,
    if / for / while, return, conditional and boolean expressions, arithmetic, comparisons, string building (+, %, f-strings, join,
    format, strip ...), isinstance on an Obj, list.append, and calls of functions that `lookup` finds (evaluated the same way).
    Nothing of the analysed package is run: the evaluator walks the `ast`.  Whatever it does not model ends the evaluation (_Unk)."""

    def __init__(self, lookup, builtin_classes: dict[str, type], budget: int = 4000, module_value=None, class_lookup=None):
        self.lookup = lookup  # name -> FunctionDef | None
        self.classes = builtin_classes
        self.budget = budget
        self.module_value = module_value  # name -> the one expression bound to it at module level | None
        self.class_lookup = class_lookup  # name -> ClassDef of the analysed package | None

    @staticmethod
    def plain_class(cls: ast.AST) -> dict[str, ast.AST] | None:
        """the methods of a class whose instances the evaluator can make and call: no base class (but `object`), no metaclass or
        other class keyword, no decorator, a body of plain methods / constant attributes / docstrings only, and none of the
        methods that change what construction, attribute access or calling mean (__new__, __getattr__, __getattribute__,
        __setattr__, __init_subclass__, __class_getitem__ ...).  None for any other class."""
        if not isinstance(cls, ast.ClassDef) or cls.keywords or cls.decorator_list or any(norm(b) != "object" for b in cls.bases):
            return None
        methods: dict[str, ast.AST] = {}
        for st in cls.body:
            if isinstance(st, ast.FunctionDef):
                if st.decorator_list or st.name in methods:
                    return None
                methods[st.name] = st
            elif isinstance(st, ast.Expr) and isinstance(st.value, ast.Constant):
                continue
            elif isinstance(st, (ast.Assign, ast.AnnAssign, ast.Pass)):
                continue
            else:
                return None
        if set(methods) & {"__new__", "__getattr__", "__getattribute__", "__setattr__", "__delattr__", "__init_subclass__", "__set_name__", "__get__"}:
            return None
        return methods

    def instantiate(self, cls: ast.AST, args: list, kwargs: dict, depth: int) -> "Obj":
        """Cls(*args, **kwargs) for a plain class of the package: a fresh object, then its __init__ (evaluated; `self.a = v` sets
        the attribute of the object)"""
        methods = self.plain_class(cls)
        if methods is None:
            raise _Unk("class")
        o = Obj(cls.name, {}, None)  # type: ignore[attr-defined]
        o.methods = methods  # type: ignore[attr-defined]
        init = methods.get("__init__")
        if init is None:
            if args or kwargs:
                raise _Unk("arity")
        elif self.call(init, [o] + list(args), kwargs, depth + 1) is not None:
            raise _Unk("__init__ returns a value")
        return o

    def apply(self, f, args: list, kwargs: dict, depth: int):
        """the value a callable value gives for the arguments: a function of the package (evaluated), a functools.partial of one, a
        function of the standard `operator` module on plain values"""
        if isinstance(f, Fn):
            return self.call(f.node, args, kwargs, depth + 1)
        if isinstance(f, Partial):
            if set(f.kwargs) & set(kwargs):
                kw = dict(f.kwargs)
                kw.update(kwargs)
            else:
                kw = {**f.kwargs, **kwargs}
            return self.apply(f.callee, list(f.args) + list(args), kw, depth)
        if isinstance(f, Obj) and "__call__" in getattr(f, "methods", {}) and "__call__" not in f.attrs:
            return self.call(f.methods["__call__"], [f] + list(args), kwargs, depth + 1)  # type: ignore[attr-defined]
        if any(f is getattr(_op, n) for n in _OPERATOR_FUNCTIONS) and not kwargs and all(isinstance(x, _PLAIN) for x in args):
            try:
                return f(*args)
            except Exception:
                raise _Unk("operator") from None
        raise _Unk("not a callable value")

    class _Return(Exception):
        def __init__(self, v):
            self.v = v

    class _Break(Exception):
        pass

    class _Continue(Exception):
        pass

    def call(self, fn: ast.AST, args: list, kwargs: dict | None = None, depth: int = 0):
        if depth > 4 or any(isinstance(n, (ast.Yield, ast.YieldFrom, ast.Await, ast.Global, ast.Nonlocal)) for n in own_nodes(fn)):
            raise _Unk("call")
        a = fn.args  # type: ignore[attr-defined]
        if a.vararg or a.kwarg or getattr(fn, "decorator_list", None):
            raise _Unk("signature")
        params = list(a.posonlyargs) + list(a.args)
        env: dict = {}
        if len(args) > len(params):
            raise _Unk("arity")
        for p, v in zip(params, args):
            env[p.arg] = v
        for k, v in (kwargs or {}).items():
            if k in env or k not in [p.arg for p in params + list(a.kwonlyargs)]:
                raise _Unk("keyword")
            env[k] = v
        defaults = dict(zip([p.arg for p in params[len(params) - len(a.defaults):]], a.defaults))
        defaults.update({p.arg: d for p, d in zip(a.kwonlyargs, a.kw_defaults) if d is not None})
        for p in params + list(a.kwonlyargs):
            if p.arg not in env:
                if p.arg not in defaults:
                    raise _Unk("missing argument")
                env[p.arg] = self.expr(defaults[p.arg], {}, depth)
        if isinstance(fn, ast.Lambda):
            return self.expr(fn.body, env, depth)
        try:
            self.block(fn.body, env, depth)  # type: ignore[attr-defined]
        except Evaluator._Return as r:
            return r.v
        return None

    def truth(self, v) -> bool:
        if isinstance(v, Obj):
            if v.falsy is None:
                raise _Unk("truth value")
            return not v.falsy
        if isinstance(v, _PLAIN):
            return bool(v)
        raise _Unk("truth value")

    def block(self, stmts: list, env: dict, depth: int) -> None:
        for st in stmts:
            self.budget -= 1
            if self.budget < 0:
                raise _Unk("budget")
            if isinstance(st, ast.Pass) or (isinstance(st, ast.Expr) and isinstance(st.value, ast.Constant)):
                continue
            if isinstance(st, ast.Return):
                raise Evaluator._Return(None if st.value is None else self.expr(st.value, env, depth))
            if isinstance(st, ast.If):
                self.block(st.body if self.truth(self.expr(st.test, env, depth)) else st.orelse, env, depth)
            elif isinstance(st, ast.Assign):
                v = self.expr(st.value, env, depth)
                for t in st.targets:
                    self.store(t, v, env)
            elif isinstance(st, ast.AnnAssign):
                if st.value is not None:
                    self.store(st.target, self.expr(st.value, env, depth), env)
            elif isinstance(st, ast.AugAssign) and isinstance(st.target, ast.Name) and type(st.op) in _BIN:
                cur = self.expr(ast.Name(id=st.target.id, ctx=ast.Load()), env, depth)
                env[st.target.id] = self.binop(st.op, cur, self.expr(st.value, env, depth))
            elif isinstance(st, ast.Expr):
                self.expr(st.value, env, depth)
            elif isinstance(st, ast.For) and not st.orelse:
                seq = self.expr(st.iter, env, depth)
                if not isinstance(seq, (list, tuple, str)):
                    raise _Unk("iteration")
                for x in list(seq):
                    self.store(st.target, x, env)
                    try:
                        self.block(st.body, env, depth)
                    except Evaluator._Break:
                        break
                    except Evaluator._Continue:
                        continue
            elif isinstance(st, ast.While) and not st.orelse:
                while self.truth(self.expr(st.test, env, depth)):
                    try:
                        self.block(st.body, env, depth)
                    except Evaluator._Break:
                        break
                    except Evaluator._Continue:
                        continue
            elif isinstance(st, ast.Break):
                raise Evaluator._Break()
            elif isinstance(st, ast.Continue):
                raise Evaluator._Continue()
            else:
                raise _Unk(type(st).__name__)  # raise, try, with, assert, nested def ...

    def store(self, t: ast.AST, v, env: dict) -> None:
        if isinstance(t, ast.Name):
            env[t.id] = v
        elif isinstance(t, (ast.Tuple, ast.List)) and isinstance(v, (tuple, list)) and len(v) == len(t.elts) and not any(isinstance(x, ast.Starred) for x in t.elts):
            for x, y in zip(t.elts, v):
                self.store(x, y, env)
        elif isinstance(t, ast.Attribute) and isinstance(t.value, ast.Name) and isinstance(env.get(t.value.id), Obj) and hasattr(env[t.value.id], "methods") \
                and not t.attr.startswith("__"):
            env[t.value.id].attrs[t.attr] = v  # an instance of a plain class of the package (see instantiate)
        else:
            raise _Unk("store")

    def binop(self, op, a, b):
        if not (isinstance(a, _PLAIN) and isinstance(b, _PLAIN)) or a is None or b is None:
            raise _Unk("operand")
        if isinstance(op, ast.Pow) and not (isinstance(b, int) and 0 <= b <= 64):
            raise _Unk("pow")
        if isinstance(op, ast.Mult) and ((isinstance(a, (str, list, tuple)) and isinstance(b, int) and b > 1000) or (isinstance(b, (str, list, tuple)) and isinstance(a, int) and a > 1000)):
            raise _Unk("repeat")
        try:
            return _BIN[type(op)](a, b)
        except Exception:
            raise _Unk("operation") from None

    def expr(self, e: ast.AST, env: dict, depth: int):
        self.budget -= 1
        if self.budget < 0:
            raise _Unk("budget")
        if isinstance(e, ast.Constant):
            if isinstance(e.value, _PLAIN):
                return e.value
            raise _Unk("constant")
        if isinstance(e, ast.Name):
            if e.id in env:
                return env[e.id]
            f = self.lookup(e.id)
            if f is not None:
                return Fn(f)
            bound = self.module_value(e.id) if self.module_value is not None and depth <= 4 else None
            if bound is not None:
                return self.expr(bound, {}, depth + 1)
            raise _Unk("name " + e.id)
        if isinstance(e, ast.Lambda):
            if any(isinstance(x, ast.Name) and x.id in env for x in ast.walk(e.body)):
                raise _Unk("closure")
            return Fn(e)
        if isinstance(e, ast.Attribute):
            if isinstance(e.value, ast.Name) and e.value.id == "operator" and "operator" not in env and e.attr in _OPERATOR_FUNCTIONS:
                return getattr(_op, e.attr)
            v = self.expr(e.value, env, depth)
            if isinstance(v, Obj):
                return v.attr(e.attr)
            raise _Unk("attribute")
        if isinstance(e, (ast.List, ast.Tuple)):
            if any(isinstance(x, ast.Starred) for x in e.elts):
                raise _Unk("starred")
            vals = [self.expr(x, env, depth) for x in e.elts]
            return vals if isinstance(e, ast.List) else tuple(vals)
        if isinstance(e, ast.IfExp):
            return self.expr(e.body if self.truth(self.expr(e.test, env, depth)) else e.orelse, env, depth)
        if isinstance(e, ast.BoolOp):
            v = None
            for x in e.values:
                v = self.expr(x, env, depth)
                if self.truth(v) != isinstance(e.op, ast.And):
                    return v
            return v
        if isinstance(e, ast.UnaryOp):
            v = self.expr(e.operand, env, depth)
            if isinstance(e.op, ast.Not):
                return not self.truth(v)
            if isinstance(v, (int, float)) and isinstance(e.op, (ast.USub, ast.UAdd)):
                return -v if isinstance(e.op, ast.USub) else +v
            raise _Unk("unary")
        if isinstance(e, ast.BinOp) and type(e.op) in _BIN:
            return self.binop(e.op, self.expr(e.left, env, depth), self.expr(e.right, env, depth))
        if isinstance(e, ast.Compare):
            left = self.expr(e.left, env, depth)
            for op, c in zip(e.ops, e.comparators):
                right = self.expr(c, env, depth)
                if isinstance(left, Obj) or isinstance(right, Obj):
                    if isinstance(op, (ast.Is, ast.IsNot)) and (left is None or right is None):
                        r = isinstance(op, ast.IsNot)
                    else:
                        raise _Unk("comparison of an object")
                else:
                    if not (isinstance(left, _PLAIN) and isinstance(right, _PLAIN)):
                        raise _Unk("comparison")
                    try:
                        r = _CMP[type(op)](left, right)
                    except Exception:
                        raise _Unk("comparison") from None
                if not r:
                    return False
                left = right
            return True
        if isinstance(e, ast.JoinedStr):
            out = []
            for part in e.values:
                if isinstance(part, ast.Constant):
                    out.append(str(part.value))
                    continue
                if not isinstance(part, ast.FormattedValue):
                    raise _Unk("f-string")
                v = self.expr(part.value, env, depth)
                if not isinstance(v, (int, str, bool, float)) and v is not None:
                    raise _Unk("f-string value")
                if part.conversion == 115:
                    v = str(v)
                elif part.conversion == 114:
                    v = repr(v)
                elif part.conversion != -1:
                    raise _Unk("conversion")
                spec = self.expr(part.format_spec, env, depth) if part.format_spec is not None else ""
                try:
                    out.append(format(v, spec))
                except Exception:
                    raise _Unk("format") from None
            return "".join(out)
        if isinstance(e, ast.Subscript) and isinstance(e.ctx, ast.Load) and not isinstance(e.slice, ast.Slice):
            v, i = self.expr(e.value, env, depth), self.expr(e.slice, env, depth)
            if isinstance(v, (list, tuple, str)) and isinstance(i, int):
                try:
                    return v[i]
                except Exception:
                    raise _Unk("index") from None
            raise _Unk("subscript")
        if isinstance(e, ast.Call):
            if any(isinstance(x, ast.Starred) for x in e.args) or any(k.arg is None for k in e.keywords):
                raise _Unk("starred call")
            if isinstance(e.func, ast.Name) and e.func.id == "isinstance" and len(e.args) == 2 and not e.keywords and e.func.id not in env:
                v = self.expr(e.args[0], env, depth)
                names = [norm(t).rsplit(".", 1)[-1] for t in (e.args[1].elts if isinstance(e.args[1], ast.Tuple) else [e.args[1]])]
                if isinstance(v, Obj):
                    return v.type_name in names or any(b in names for b in v.bases)
                if isinstance(v, _PLAIN) and all(n in self.classes for n in names):
                    return isinstance(v, tuple(self.classes[n] for n in names))
                raise _Unk("isinstance")
            args = [self.expr(x, env, depth) for x in e.args]
            kwargs = {k.arg: self.expr(k.value, env, depth) for k in e.keywords}
            if norm(e.func) in ("partial", "functools.partial") and norm(e.func).split(".")[0] not in env and args:
                if not isinstance(args[0], (Fn, Partial)) and not any(args[0] is getattr(_op, n) for n in _OPERATOR_FUNCTIONS):
                    raise _Unk("partial of an unknown callable")
                return Partial(args[0], args[1:], kwargs)
            if isinstance(e.func, ast.Name) and e.func.id in env:
                return self.apply(env[e.func.id], args, kwargs, depth)
            if isinstance(e.func, ast.Name) and e.func.id not in env:
                f = self.lookup(e.func.id)
                if f is not None:
                    return self.call(f, args, kwargs, depth + 1)
                c = self.class_lookup(e.func.id) if self.class_lookup is not None else None
                if c is not None:
                    return self.instantiate(c, args, kwargs, depth)
                bound = self.module_value(e.func.id) if self.module_value is not None and e.func.id not in _PURE_BUILTINS else None
                if bound is not None:
                    return self.apply(self.expr(bound, {}, depth + 1), args, kwargs, depth)
                if e.func.id in _PURE_BUILTINS and not kwargs and all(isinstance(x, _PLAIN) for x in args):
                    try:
                        return _PURE_BUILTINS[e.func.id](*args)
                    except Exception:
                        raise _Unk("builtin") from None
                if e.func.id == "cast" and len(args) == 2:
                    return args[1]
                raise _Unk("call of " + e.func.id)
            if isinstance(e.func, ast.Attribute) and isinstance(e.func.value, ast.Name) and e.func.value.id == "operator" and "operator" not in env:
                return self.apply(self.expr(e.func, env, depth), args, kwargs, depth)
            if isinstance(e.func, ast.Attribute):
                recv = self.expr(e.func.value, env, depth)
                if isinstance(recv, list) and e.func.attr in ("append", "extend", "insert") and not kwargs:
                    getattr(recv, e.func.attr)(*args)
                    return None
                if isinstance(recv, str) and e.func.attr in _STR_METHODS and all(isinstance(x, _PLAIN) for x in list(args) + list(kwargs.values())):
                    try:
                        return getattr(recv, e.func.attr)(*args, **kwargs)
                    except Exception:
                        raise _Unk("str method") from None
            raise _Unk("call")
        raise _Unk(type(e).__name__)
