"""Helpers of the later C09 rules (checks/c09.py): branch facts that hold at a node (with one-step substitution of
single-assignment locals), `well-typed` facts about Literal operands, one-step def-use of local names.
Pure `ast`; nothing of the analysed tree is executed."""
from __future__ import annotations

import ast
import copy
from typing import Iterator

from .core import Module, norm, own_nodes

# --------------------------------------------------------------------------- branch facts


def terminates(stmts: list) -> bool:
    """the statement list never falls through (ends in return / raise / continue / break on every branch)"""
    if not stmts:
        return False
    last = stmts[-1]
    if isinstance(last, (ast.Return, ast.Raise, ast.Continue, ast.Break)):
        return True
    if isinstance(last, ast.If):
        return terminates(last.body) and terminates(last.orelse)
    return False


def _stored(stmts) -> set[str]:
    return {n.id for s in stmts for n in ast.walk(s) if isinstance(n, ast.Name) and isinstance(n.ctx, (ast.Store, ast.Del))}


def _names(e: ast.AST) -> set[str]:
    return {n.id for n in ast.walk(e) if isinstance(n, ast.Name)}


def split_fact(test: ast.expr, pol: bool) -> Iterator[tuple[ast.expr, bool]]:
    """a fact and what it implies structurally: `a and b` true -> a, b true; `a or b` false -> a, b false; `not a` flips"""
    yield test, pol
    if isinstance(test, ast.UnaryOp) and isinstance(test.op, ast.Not):
        yield from split_fact(test.operand, not pol)
    elif isinstance(test, ast.BoolOp):
        if (isinstance(test.op, ast.And) and pol) or (isinstance(test.op, ast.Or) and not pol):
            for v in test.values:
                yield from split_fact(v, pol)


def bound_in(n: ast.AST, name: str) -> list[ast.AST | None]:
    """the expressions one statement / clause binds to the local `name` (element-wise through tuple unpacking of a tuple display);
    None stands for a binding whose value is not an expression of its own (loop target, with, augmented assignment ...)"""
    out: list[ast.AST | None] = []
    if isinstance(n, ast.Assign):
        for t in n.targets:
            if isinstance(t, ast.Name) and t.id == name:
                out.append(n.value)
            elif isinstance(t, (ast.Tuple, ast.List)):
                for i, el in enumerate(t.elts):
                    if isinstance(el, ast.Name) and el.id == name:
                        if isinstance(n.value, (ast.Tuple, ast.List)) and len(n.value.elts) == len(t.elts) \
                                and not any(isinstance(x, ast.Starred) for x in list(t.elts) + list(n.value.elts)):
                            out.append(n.value.elts[i])
                        else:
                            out.append(None)
                    elif any(isinstance(x, ast.Name) and x.id == name for x in ast.walk(el)):
                        out.append(None)
    elif isinstance(n, ast.AnnAssign):
        if isinstance(n.target, ast.Name) and n.target.id == name and n.value is not None:
            out.append(n.value)
    elif isinstance(n, (ast.AugAssign, ast.NamedExpr)):
        if isinstance(n.target, ast.Name) and n.target.id == name:
            out.append(None)
    elif isinstance(n, (ast.For, ast.AsyncFor, ast.comprehension)):
        if any(isinstance(x, ast.Name) and x.id == name for x in ast.walk(n.target)):
            out.append(None)
    elif isinstance(n, ast.withitem):
        if n.optional_vars is not None and any(isinstance(x, ast.Name) and x.id == name for x in ast.walk(n.optional_vars)):
            out.append(None)
    elif isinstance(n, ast.ExceptHandler):
        if n.name == name:
            out.append(None)
    return out


def defs_of(fn: ast.AST, name: str) -> list[ast.AST | None]:
    """the expressions bound to the local `name` anywhere in fn (see bound_in)"""
    out: list[ast.AST | None] = []
    for n in own_nodes(fn):
        out.extend(bound_in(n, name))
    return out


def reaching_values(mod: Module, fn: ast.AST, node: ast.AST, name: str) -> list[ast.AST | None]:
    """the expressions that can be the value of the local `name` when `node` is evaluated: the bindings that reach the statement of
    node in the CFG of fn (None: the value at function entry - a parameter - or a binding without an expression of its own)"""
    from .cfg import CFG, reaching_defs
    g = CFG(fn)
    n: ast.AST | None = node
    while n is not None and id(n) not in g.by_ast:
        n = mod.parent.get(id(n))
    if n is None:
        return defs_of(fn, name) + [None]
    out: list[ast.AST | None] = []
    for d in sorted(reaching_defs(g, g.by_ast[id(n)], name)):
        st = g.nodes[d].ast
        if d == g.entry or st is None:
            out.append(None)
            continue
        b = bound_in(st, name)
        if isinstance(st, (ast.With, ast.AsyncWith)):
            b = [x for it in st.items for x in bound_in(it, name)]
        out.extend(b or [None])
    return out


def _never_rebound(fn: ast.AST, e: ast.AST) -> bool:
    """every local name the expression reads is a parameter that is never assigned (its value is the same wherever it is read)"""
    return all(not defs_of(fn, x) for x in _names(e))


def _at_test_time(mod: Module, fn: ast.AST, at: ast.AST, e: ast.expr, rebound: set[str]) -> ast.expr | None:
    """`e` as it was evaluated by the statement `at`, written without the names in `rebound` (re-bound between the test and the place the
    fact is used): each is replaced by the one expression bound to it on every path to `at`, when that expression reads never-assigned
    names only.  None when there is no such rewriting."""
    subst: dict[str, ast.AST] = {}
    for name in rebound:
        vals = reaching_values(mod, fn, at, name)
        if len(vals) != 1 or vals[0] is None or not _never_rebound(fn, vals[0]):
            return None
        subst[name] = vals[0]

    class _S(ast.NodeTransformer):
        def visit_Name(self, n: ast.Name):  # noqa: N802
            if isinstance(n.ctx, ast.Load) and n.id in subst:
                return ast.copy_location(copy.deepcopy(subst[n.id]), n)
            return n

    return _S().visit(copy.deepcopy(e))


def facts_at(mod: Module, fn: ast.AST, node: ast.AST) -> list[tuple[ast.expr, bool]]:
    """(expression, truth value) pairs that hold whenever `node` is evaluated inside `fn`:
    * the tests of the enclosing `if` statements / conditional expressions and the earlier operands of an enclosing and/or,
    * the tests of earlier sibling `if` statements one branch of which never falls through (`if c: return` => not c afterwards),
    * for a fact that is a local name bound exactly once: the same about the expression bound to it.
    A test is first taken apart (`a and b` true -> a, b; `a or b` false -> not a, not b); a part that reads a local name which is
    re-bound between the test and the node is restated in terms of the value the name had at the test (the one binding that reaches
    the test, when it reads never-assigned names only) and dropped otherwise; the other parts stay."""
    raw: list[tuple[ast.expr, bool, set[str], ast.AST]] = []
    child: ast.AST = node
    for p in mod.parents(node):
        if isinstance(p, (ast.If, ast.While)):
            if any(child is s for s in p.body):
                i = [k for k, s in enumerate(p.body) if s is child][0]
                raw.append((p.test, True, _stored(p.body if isinstance(p, ast.While) else p.body[:i]), p))
            elif isinstance(p, ast.If) and any(child is s for s in p.orelse):
                i = [k for k, s in enumerate(p.orelse) if s is child][0]
                raw.append((p.test, False, _stored(p.orelse[:i]), p))
        elif isinstance(p, ast.IfExp):
            if child is p.body:
                raw.append((p.test, True, set(), p))
            elif child is p.orelse:
                raw.append((p.test, False, set(), p))
        elif isinstance(p, ast.BoolOp):
            idx = [k for k, v in enumerate(p.values) if v is child]
            if idx:
                for v in p.values[: idx[0]]:
                    raw.append((v, isinstance(p.op, ast.And), set(), p))
        for field in ("body", "orelse", "finalbody"):
            lst = getattr(p, field, None)
            if isinstance(lst, list) and any(child is s for s in lst):
                i = [k for k, s in enumerate(lst) if s is child][0]
                for j, s in enumerate(lst[:i]):
                    if not isinstance(s, ast.If):
                        continue
                    between = _stored(lst[j + 1: i])
                    if terminates(s.body) and not terminates(s.orelse):
                        raw.append((s.test, False, between | _stored(s.orelse), s))
                    elif s.orelse and terminates(s.orelse) and not terminates(s.body):
                        raw.append((s.test, True, between | _stored(s.body), s))
        if p is fn:
            break
        child = p
    out: list[tuple[ast.expr, bool]] = []
    seen: set[tuple[str, bool]] = set()
    work: list[tuple[ast.expr, bool]] = []
    for t, pol, stored, at in raw:
        for e, pl in split_fact(t, pol):
            rebound = _names(e) & stored
            if rebound:
                if not isinstance(at, ast.stmt):
                    continue
                e2 = _at_test_time(mod, fn, at, e, rebound)
                if e2 is None:
                    continue
                e = e2
            work.append((e, pl))
    while work:
        e, pol = work.pop()
        k = (norm(e), pol)
        if k in seen:
            continue
        seen.add(k)
        out.append((e, pol))
        if isinstance(e, ast.Name):
            ds = defs_of(fn, e.id)
            if len(ds) == 1 and ds[0] is not None and not (_names(ds[0]) & {e.id}):
                # (the names read by the bound expression must be stable, too: parameters or single-assignment locals)
                if all(len(defs_of(fn, x)) <= 1 for x in _names(ds[0])):
                    work.extend(split_fact(ds[0], pol))
    return out


# --------------------------------------------------------------------------- `X is well-typed` facts


def ill_subject(e: ast.AST, local_flags: dict[str, str] | None = None) -> str | None:
    """the operand whose ill-typedness an expression reads: `R.ill_typed` / `R._ill_typed` -> norm(R), through bool(...);
    a local name listed in local_flags (name -> subject) stands for the flag of that subject"""
    if isinstance(e, ast.Call) and isinstance(e.func, ast.Name) and e.func.id == "bool" and len(e.args) == 1 and not e.keywords:
        return ill_subject(e.args[0], local_flags)
    if isinstance(e, ast.Attribute) and e.attr in ("ill_typed", "_ill_typed"):
        return norm(e.value)
    if isinstance(e, ast.Name) and local_flags and e.id in local_flags:
        return local_flags[e.id]
    return None


def well_typed(facts: list[tuple[ast.expr, bool]], local_flags: dict[str, str] | None = None, calls: "Calls | None" = None, mod: Module | None = None,
               depth: int = 0) -> set[str]:
    """subjects S for which the facts establish that S's ill-typed flag is not true: `not S.ill_typed`, `S.ill_typed is not True`,
    `S.ill_typed is False`, through `bool(A.ill_typed) != bool(B.ill_typed)` known false the flag of the other operand, and - with
    `calls` - a call of a function of the package whose truth value is known: what every return of the callee that can give that
    truth value establishes about its parameters (Calls.implied_well_typed)"""
    ok: set[str] = set()
    equiv: list[tuple[str, str]] = []
    for e, pol in facts:
        if calls is not None and mod is not None and isinstance(e, ast.Call):
            ok |= calls.implied_well_typed(mod, e, pol, depth)
        s = ill_subject(e, local_flags)
        if s is not None:
            if not pol:
                ok.add(s)
            continue
        if isinstance(e, ast.Compare) and len(e.ops) == 1:
            a, b, op = e.left, e.comparators[0], e.ops[0]
            sa, sb = ill_subject(a, local_flags), ill_subject(b, local_flags)
            if sa is not None and sb is not None:
                if (isinstance(op, ast.NotEq) and not pol) or (isinstance(op, ast.Eq) and pol):
                    equiv.append((sa, sb))
                continue
            if sa is None and sb is not None:
                a, b, sa = b, a, sb
            if sa is None or not isinstance(b, ast.Constant):
                continue
            if b.value is True:
                if (isinstance(op, (ast.IsNot, ast.NotEq)) and pol) or (isinstance(op, (ast.Is, ast.Eq)) and not pol):
                    ok.add(sa)
            elif b.value is False:
                if (isinstance(op, (ast.Is, ast.Eq)) and pol) or (isinstance(op, (ast.IsNot, ast.NotEq)) and not pol):
                    ok.add(sa)
    changed = True
    while changed:
        changed = False
        for a, b in equiv:
            for x, y in ((a, b), (b, a)):
                if x in ok and y not in ok:
                    ok.add(y)
                    changed = True
    return ok


def value_reads(fn: ast.AST, e: ast.AST, depth: int = 0) -> set[str]:
    """operands R whose Python value (`R.value` / `R._value`) an expression reads, also through local names all of whose
    bindings are such reads"""
    out: set[str] = set()
    for n in ast.walk(e):
        if isinstance(n, ast.Attribute) and n.attr in ("value", "_value") and isinstance(n.value, ast.Name):
            out.add(n.value.id)
        elif isinstance(n, ast.Name) and isinstance(n.ctx, ast.Load) and depth < 2:
            ds = defs_of(fn, n.id)
            if ds and all(d is not None and isinstance(d, ast.Attribute) and d.attr in ("value", "_value") and isinstance(d.value, ast.Name) for d in ds):
                out |= {d.value.id for d in ds}
    return out


# --------------------------------------------------------------------------- calls into the package


def _decorated_as(fn: ast.AST, *names: str) -> bool:
    return any(norm(d).rsplit(".", 1)[-1] in names for d in getattr(fn, "decorator_list", []))


class Calls:
    """Which function of the analysed package a call expression runs (the typed facts first: the callee mypy resolved, refused when
    a subclass overrides it; by name inside the module when mypy has no fact for the call), how its parameters are bound, which
    private functions an entry point reaches, and where a function is called from."""

    def __init__(self, repo):
        self.repo = repo
        self._sites: dict[str, dict[int, list]] = {}

    def _locate(self, full: str):
        best = None
        for name in self.repo.modules:
            if full.startswith(name + ".") and (best is None or len(name) > len(best)):
                best = name
        if best is None:
            return None
        m = self.repo.modules[best]
        q = full[len(best) + 1:]
        f = m.defs.get(q)
        if isinstance(f, (ast.FunctionDef, ast.AsyncFunctionDef)):
            return m, q, f
        return None

    def target(self, mod: Module, call: ast.Call):
        """(module, qualified name, def) of the one function the call runs; None when unknown or not unique"""
        typed = self.repo.typed
        cs = typed.callees(mod.name, call)
        if len(cs) == 1 and "." in cs[0]:
            if len(typed.overrides(cs[0])) > 1:
                return None
            return self._locate(cs[0])
        if len(cs) > 1:
            return None
        # (no fact, or the bare name of a function defined inside a function)
        f = call.func
        if isinstance(f, ast.Name):
            # a function defined in an enclosing function, then one of the module
            q = mod.qual_of(call)
            while True:
                qn = (q + "." if q else "") + f.id
                d = mod.defs.get(qn)
                if isinstance(d, (ast.FunctionDef, ast.AsyncFunctionDef)) and (not q or isinstance(mod.defs.get(q), (ast.FunctionDef, ast.AsyncFunctionDef))):
                    return mod, qn, d
                if not q:
                    break
                q = q.rpartition(".")[0]
        if isinstance(f, ast.Attribute) and isinstance(f.value, ast.Name) and f.value.id in ("self", "cls"):
            q = mod.qual_of(call)
            while q:
                q = q.rpartition(".")[0]
                if isinstance(mod.defs.get(q), ast.ClassDef):
                    d = mod.defs.get(q + "." + f.attr)
                    if isinstance(d, (ast.FunctionDef, ast.AsyncFunctionDef)) and len(typed.overrides(mod.name + "." + q + "." + f.attr)) <= 1:
                        return mod, q + "." + f.attr, d
                    return None
        return None

    @staticmethod
    def bind(qual: str, fn: ast.AST, call: ast.Call) -> dict[str, ast.AST] | None:
        """parameter name -> argument expression (the receiver for the first parameter of a method called as `R.m(...)`)"""
        a = fn.args  # type: ignore[attr-defined]
        if a.vararg or a.kwarg or _decorated_as(fn, "staticmethod", "classmethod", "property") or any(isinstance(x, ast.Starred) for x in call.args) \
                or any(k.arg is None for k in call.keywords):
            return None
        params = [p.arg for p in list(a.posonlyargs) + list(a.args)]
        out: dict[str, ast.AST] = {}
        args = list(call.args)
        if isinstance(call.func, ast.Attribute):  # R.m(...): the receiver is the first argument
            if not params:
                return None
            args = [call.func.value] + args
        if len(args) > len(params):
            return None
        for p, x in zip(params, args):
            out[p] = x
        for k in call.keywords:
            out[k.arg] = k.value  # type: ignore[index]
        return out

    def call_sites(self, mod: Module, fn: ast.AST) -> list:
        """every (qualified name of the caller, caller def, call) in `mod` whose callee is fn"""
        idx = self._sites.get(mod.name)
        if idx is None or idx.get(-1) is not mod:
            idx = {-1: mod}  # type: ignore[dict-item]
            for q, f in mod.functions():
                for c in own_nodes(f):
                    if isinstance(c, ast.Call):
                        t = self.target(mod, c)
                        if t is not None and t[0] is mod:
                            idx.setdefault(id(t[2]), []).append((q, f, c))
            self._sites[mod.name] = idx
        return idx.get(id(fn), [])

    def every_call_site(self, mod: Module, fn: ast.AST) -> list | None:
        """call_sites when they are all the uses there are of the private function fn: every mention of its name in the module is the
        callee of one of them and no other module mentions the name; None otherwise (fn may run in a context that is not known)"""
        nm = getattr(fn, "name", "")
        if not nm.startswith("_") or (nm.startswith("__") and nm.endswith("__")):
            return None
        sites = self.call_sites(mod, fn)
        funcs = {id(c.func) for _, _, c in sites}
        for n in ast.walk(mod.tree):
            if ((isinstance(n, ast.Name) and n.id == nm) or (isinstance(n, ast.Attribute) and n.attr == nm)) and id(n) not in funcs:
                return None
        for rel, text in getattr(self.repo, "_texts", {}).items():
            if rel != mod.rel and nm in text:
                return None
        return sites

    def private_closure(self, mod: Module, qual: str) -> list[tuple[str, ast.AST]]:
        """the function `qual` of `mod` and the private functions of the same module (single leading underscore or name-mangled:
        not part of the public interface, so their only role is the one their callers give them) that it calls, transitively"""
        f0 = mod.defs.get(qual)
        if not isinstance(f0, (ast.FunctionDef, ast.AsyncFunctionDef)):
            return []
        out: list[tuple[str, ast.AST]] = [(qual, f0)]
        seen = {id(f0)}
        work = [f0]
        while work:
            f = work.pop()
            for c in own_nodes(f):
                if not isinstance(c, ast.Call):
                    continue
                t = self.target(mod, c)
                if t is None or t[0] is not mod or id(t[2]) in seen:
                    continue
                nm = t[1].rsplit(".", 1)[-1]
                if not nm.startswith("_") or (nm.startswith("__") and nm.endswith("__")):
                    continue
                seen.add(id(t[2]))
                out.append((t[1], t[2]))
                work.append(t[2])
        return out

    # -- `the call is true/false` as a fact about the ill-typed flags of its arguments
    def implied_well_typed(self, mod: Module, call: ast.Call, pol: bool, depth: int = 0) -> set[str]:
        """subjects (normalised argument / receiver expressions) whose ill-typed flag is known not to be true when the call returned a
        true (pol) / false (not pol) value: what holds at EVERY return statement of the callee that can hand back such a value - the
        facts on the way to it together with the returned expression itself having that truth value - said about the parameters and
        carried over to the arguments bound to them"""
        if depth > 2:
            return set()
        t = self.target(mod, call)
        if t is None:
            return set()
        cm, q, cf = t
        b = self.bind(q, cf, call)
        if b is None or any(isinstance(n, (ast.Yield, ast.YieldFrom, ast.Await)) for n in own_nodes(cf)):
            return set()
        if not pol and not terminates(cf.body):  # type: ignore[attr-defined]
            return set()  # falling off the end hands back None, a false value, on a path with no facts
        common: set[str] | None = None
        for r in own_nodes(cf):
            if not isinstance(r, ast.Return):
                continue
            v = r.value if r.value is not None else ast.Constant(value=None)
            if isinstance(v, ast.Constant) and bool(v.value) != pol:
                continue
            here = well_typed(facts_at(cm, cf, r) + list(split_fact(v, pol)), None, self, cm, depth + 1)
            common = here if common is None else (common & here)
        if not common:
            return set()
        return {norm(b[p]) for p in common if p in b and not defs_of(cf, p)}

    # -- facts that every caller establishes
    def well_typed_at(self, mod: Module, fn: ast.AST, node: ast.AST, local_flags: dict[str, str] | None = None, scope: set[int] | None = None,
                      depth: int = 0) -> set[str]:
        """subjects whose ill-typed flag is known not to be true when `node` of `fn` is evaluated: by the facts inside fn, and - for a
        private function - by what holds at EVERY call of it about the arguments bound to its (never re-bound) parameters.  The calls
        that count: with `scope` (ids of the functions that make up the paths of interest, entry points included) the calls from
        those functions; without, all calls in the module, and only when these are all the uses of the function there are"""
        wt = well_typed(facts_at(mod, fn, node), local_flags, self, mod)
        nm = getattr(fn, "name", "")
        if depth < 3 and nm.startswith("_") and not (nm.startswith("__") and nm.endswith("__")):
            q = mod.qual_of(fn)
            sites = self.every_call_site(mod, fn) if scope is None else [x for x in self.call_sites(mod, fn) if id(x[1]) in scope]
            common: set[str] | None = None
            for cq, cf, call in sites or []:
                b = self.bind(q, fn, call) if cf is not fn else None
                if b is None:
                    common = set()
                    break
                w = self.well_typed_at(mod, cf, call, None, scope, depth + 1)
                mapped = {p for p, a in b.items() if norm(a) in w and not defs_of(fn, p)}
                common = mapped if common is None else (common & mapped)
            if common:
                wt |= common
        return wt


def ill_typed_flag_locals(calls: Calls, mod: Module, fn: ast.AST, subject: str, depth: int = 0) -> dict[str, str]:
    """local names of fn whose value becomes the `_ill_typed` flag of the literal under construction (name -> subject):
    * a name stored into `X._ill_typed`,
    * a name copied (plain `a = b`, element-wise through a tuple display) into such a name,
    * a name fn hands back - as its result, or as the i-th element of the tuple display every return statement gives - to a caller in
      the module that binds that result / that element to such a name of its own."""
    flags: set[str] = set()
    for n in own_nodes(fn):
        if isinstance(n, ast.Assign) and isinstance(n.value, ast.Name) and any(isinstance(t, ast.Attribute) and t.attr == "_ill_typed" for t in n.targets):
            flags.add(n.value.id)
    if depth < 2:
        q = mod.qual_of(fn)
        rets = [r for r in own_nodes(fn) if isinstance(r, ast.Return) and r.value is not None]
        for cq, cf, call in calls.call_sites(mod, fn):
            if cf is fn or not rets:
                continue
            st = mod.parent.get(id(call))
            if not (isinstance(st, ast.Assign) and st.value is call):
                continue
            theirs = ill_typed_flag_locals(calls, mod, cf, subject, depth + 1)
            for t in st.targets:
                if isinstance(t, ast.Name) and t.id in theirs:
                    if all(isinstance(r.value, ast.Name) for r in rets):
                        flags |= {r.value.id for r in rets}  # type: ignore[union-attr]
                elif isinstance(t, (ast.Tuple, ast.List)) and not any(isinstance(x, ast.Starred) for x in t.elts):
                    for i, el in enumerate(t.elts):
                        if isinstance(el, ast.Name) and el.id in theirs:
                            if all(isinstance(r.value, ast.Tuple) and len(r.value.elts) == len(t.elts) and isinstance(r.value.elts[i], ast.Name) for r in rets):
                                flags |= {r.value.elts[i].id for r in rets}  # type: ignore[union-attr]
    changed = True
    while changed:
        changed = False
        for n in own_nodes(fn):
            for f in list(flags):
                for v in bound_in(n, f):
                    if isinstance(v, ast.Name) and v.id not in flags:
                        flags.add(v.id)
                        changed = True
    return {f: subject for f in flags}


def value_read_nodes(fn: ast.AST, e: ast.AST) -> list[tuple[str, ast.AST]]:
    """(operand R, the node inside e at which R's Python value enters the computation): `R.value` / `R._value` itself, or the read
    of a local name all of whose bindings are such reads (see value_reads)"""
    out: list[tuple[str, ast.AST]] = []
    for n in ast.walk(e):
        if isinstance(n, ast.Attribute) and n.attr in ("value", "_value") and isinstance(n.value, ast.Name):
            out.append((n.value.id, n))
        elif isinstance(n, ast.Name) and isinstance(n.ctx, ast.Load):
            ds = defs_of(fn, n.id)
            if ds and all(d is not None and isinstance(d, ast.Attribute) and d.attr in ("value", "_value") and isinstance(d.value, ast.Name) for d in ds):
                out.extend((d.value.id, n) for d in ds)  # type: ignore[union-attr]
    return out


# --------------------------------------------------------------------------- named fields of a match (parse functions)

NUMERIC_CONSTRUCTORS = ("float", "int", "Decimal", "Fraction", "complex")


def _const_keys(e: ast.AST) -> list[str] | None:
    if isinstance(e, (ast.Tuple, ast.List, ast.Set)) and e.elts and all(isinstance(x, ast.Constant) and isinstance(x.value, str) for x in e.elts):
        return [x.value for x in e.elts]  # type: ignore[attr-defined]
    return None


def key_read(n: ast.AST) -> ast.AST | None:
    """the key expression of a read of a named field: `G[k]`, `G.get(k)`, `G.group(k)` (k a string constant or a name)"""
    if isinstance(n, ast.Subscript) and isinstance(n.ctx, ast.Load) and isinstance(n.slice, (ast.Constant, ast.Name)):
        if isinstance(n.slice, ast.Name) or isinstance(n.slice.value, str):
            return n.slice
    if isinstance(n, ast.Call) and isinstance(n.func, ast.Attribute) and n.func.attr in ("get", "group") and n.args and isinstance(n.args[0], (ast.Constant, ast.Name)):
        if isinstance(n.args[0], ast.Name) or isinstance(n.args[0].value, str):
            return n.args[0]
    return None


def feasible_keys(mod: Module, fn: ast.AST, read: ast.AST, universe: set[str]) -> set[str]:
    """the field names (out of `universe`) the key of a field read can denote where the read is evaluated: the constant itself; for a
    name the elements of the constant collection a comprehension / for loop around the read draws it from, else the whole universe;
    narrowed by the enclosing `key in (...)` / `key not in (...)` / `key == "..."` tests (branch facts)"""
    k = key_read(read)
    if k is None:
        return set()
    if isinstance(k, ast.Constant):
        return {k.value} & universe if universe else {k.value}
    keys = set(universe)
    for p in mod.parents(read):
        gens = p.generators if isinstance(p, (ast.GeneratorExp, ast.ListComp, ast.SetComp, ast.DictComp)) else []
        for g in gens:
            if any(isinstance(x, ast.Name) and x.id == k.id for x in ast.walk(g.target)):
                c = _const_keys(g.iter)
                if c is not None and isinstance(g.target, ast.Name):
                    keys &= set(c)
        if isinstance(p, (ast.For, ast.AsyncFor)) and isinstance(p.target, ast.Name) and p.target.id == k.id:
            c = _const_keys(p.iter)
            if c is not None:
                keys &= set(c)
        if p is fn:
            break
    for e, pol in facts_at(mod, fn, read):
        if isinstance(e, ast.Compare) and len(e.ops) == 1 and isinstance(e.left, ast.Name) and e.left.id == k.id:
            op, c = e.ops[0], e.comparators[0]
            members = _const_keys(c)
            if isinstance(op, (ast.Eq, ast.NotEq)) and isinstance(c, ast.Constant) and isinstance(c.value, str):
                members, op = [c.value], (ast.In() if isinstance(op, ast.Eq) else ast.NotIn())
            if members is None or not isinstance(op, (ast.In, ast.NotIn)):
                continue
            if isinstance(op, ast.In) == pol:
                keys &= set(members)
            else:
                keys -= set(members)
    return keys


def fields_of(mod: Module, fn: ast.AST, e: ast.AST, universe: set[str], depth: int = 0) -> set[str]:
    """the named fields the value of an expression is computed from: the field reads inside it (feasible_keys), and - through the
    local names it reads - the fields of every expression bound to them in fn (plain and tuple-display assignments element-wise; a
    tuple of n names bound to a comprehension over a constant collection of n keys: the i-th name to the i-th key)"""
    out: set[str] = set()
    for n in ast.walk(e):
        if key_read(n) is not None:
            out |= feasible_keys(mod, fn, n, universe)
        elif isinstance(n, ast.Name) and isinstance(n.ctx, ast.Load) and depth < 4:
            for st in own_nodes(fn):
                if isinstance(st, ast.Assign):
                    for t in st.targets:
                        if isinstance(t, (ast.Tuple, ast.List)) and isinstance(st.value, (ast.GeneratorExp, ast.ListComp)) and len(st.value.generators) == 1 \
                                and not st.value.generators[0].ifs and isinstance(st.value.generators[0].target, ast.Name):
                            ks = _const_keys(st.value.generators[0].iter)
                            if ks is not None and len(ks) == len(t.elts):
                                for i, el in enumerate(t.elts):
                                    if isinstance(el, ast.Name) and el.id == n.id:
                                        var = st.value.generators[0].target.id
                                        if any(isinstance(k_, ast.Name) and k_.id == var for r in ast.walk(st.value.elt) for k_ in [key_read(r)] if k_ is not None):
                                            out |= {ks[i]} & universe if universe else {ks[i]}
                                continue
                for v in bound_in(st, n.id):
                    if v is not None:
                        out |= fields_of(mod, fn, v, universe, depth + 1)
    return out


def text_conversions(calls: "Calls", mod: Module, fn: ast.AST, node: ast.AST, depth: int = 0) -> tuple[set[str], bool]:
    """(the numeric constructors - float, int, Decimal, Fraction - that the text read at `node` is handed to first, whether the text
    also leaves fn unconverted through a return): followed from the node outwards through what keeps a text a text (slicing, str
    methods, cast(), conditional expressions, a call of a function of the package - continued inside it at the parameter, and behind
    the call when that function hands the text back) and through the local names it is bound to; arithmetic, comparisons and
    everything else end the trail (what arrives there is no text any more, or is not converted)"""
    convs: set[str] = set()
    passes = False
    if depth > 4:
        return convs, passes
    cur = node
    while True:
        p = mod.parent.get(id(cur))
        if p is None:
            break
        if isinstance(p, ast.Subscript) and p.value is cur:
            cur = p
            continue
        if isinstance(p, ast.Attribute) and p.value is cur:
            pp = mod.parent.get(id(p))
            if isinstance(pp, ast.Call) and pp.func is p:
                cur = pp  # a str method: replace, strip, ...
                continue
            break
        if isinstance(p, ast.IfExp) and cur is not p.test:
            cur = p
            continue
        if isinstance(p, ast.keyword):
            pp = mod.parent.get(id(p))
            p_call, kw = pp, p.arg
        else:
            p_call, kw = p, None
        if isinstance(p_call, ast.Call) and (kw is not None or any(a is cur for a in p_call.args)):
            fname = norm(p_call.func).rsplit(".", 1)[-1]
            if fname in NUMERIC_CONSTRUCTORS:
                convs.add(fname)
                break
            if fname == "cast" and len(p_call.args) == 2 and p_call.args[1] is cur:
                cur = p_call
                continue
            t = calls.target(mod, p_call)
            if t is None:
                break
            cm, q, cf = t
            b = calls.bind(q, cf, p_call)
            through = False
            for prm, a in (b or {}).items():
                if a is cur:
                    for x in own_nodes(cf):
                        if isinstance(x, ast.Name) and isinstance(x.ctx, ast.Load) and x.id == prm:
                            c2, p2 = text_conversions(calls, cm, cf, x, depth + 1)
                            convs |= c2
                            through = through or p2
            if through:
                cur = p_call
                continue
            break
        if isinstance(p, ast.Return):
            passes = True
            break
        if isinstance(p, (ast.Assign, ast.AnnAssign)) and p.value is cur:
            targets = p.targets if isinstance(p, ast.Assign) else [p.target]
            for t_ in targets:
                if isinstance(t_, ast.Name):
                    for x in own_nodes(fn):
                        if isinstance(x, ast.Name) and isinstance(x.ctx, ast.Load) and x.id == t_.id:
                            c2, p2 = text_conversions(calls, mod, fn, x, depth + 1)
                            convs |= c2
                            passes = passes or p2
            break
        break
    return convs, passes
