"""Run mypy as a library over <root>/rdflib and dump a compact fact table.

Usage: typed_extract.py <root> <out.json>

Nothing of rdflib is imported or executed: mypy parses and type-checks the
source.  The output is joined to stdlib ``ast`` nodes by
(kind, line, col, end_line, end_col).

Facts per module:
  exprs  : key -> [type_repr, items, optional, any]
           items = list of class fullnames in the (flattened) union, "None"
           excluded; `optional` says whether None is a member.
  calls  : key(of the CallExpr) -> callee fullname (function or Class.method,
           resolved through the receiver's static type) or null
  refs   : key(of Name/Member expr) -> fullname the reference resolves to
Global:
  classes: fullname -> {"mro": [...], "defs": [names defined in the class body],
                        "module": ...}
"""
from __future__ import annotations

import json
import os
import sys
import time


def main() -> None:
    root, out = sys.argv[1], sys.argv[2]
    os.chdir(root)
    from mypy import build
    from mypy import nodes as N
    from mypy import types as T
    from mypy.find_sources import create_source_list
    from mypy.options import Options

    opts = Options()
    opts.preserve_asts = True
    opts.export_types = True
    opts.incremental = False
    opts.cache_dir = os.devnull
    opts.ignore_missing_imports = True
    opts.check_untyped_defs = True
    opts.python_version = (3, 12)
    opts.follow_imports = "silent"
    t0 = time.time()
    res = build.build(create_source_list(["rdflib"], opts), opts)
    t_build = time.time() - t0

    SKIP = {
        "node",
        "info",
        "type",
        "unanalyzed_type",
        "def_info",
        "expanded",
        "original_def",
        "impl",
        "var",
        "analyzed",
        "type_annotation",
    }

    def walk_file(f):
        out_nodes = []
        seen = set()
        stack = list(f.defs)
        while stack:
            n = stack.pop()
            if id(n) in seen:
                continue
            seen.add(id(n))
            out_nodes.append(n)
            for attr in dir(type(n)):
                if attr.startswith("_") or attr in SKIP:
                    continue
                try:
                    v = getattr(n, attr)
                except Exception:
                    continue
                if isinstance(v, N.Node):
                    if not isinstance(v, (N.MypyFile, N.TypeInfo)):
                        stack.append(v)
                elif isinstance(v, (list, tuple)):
                    for x in v:
                        if isinstance(x, (list, tuple)):
                            stack += [y for y in x if isinstance(y, N.Node)]
                        elif isinstance(x, N.Node) and not isinstance(
                            x, (N.MypyFile, N.TypeInfo)
                        ):
                            stack.append(x)
        return out_nodes

    def flatten(t, acc, flags):
        t = T.get_proper_type(t)
        if isinstance(t, T.UnionType):
            for it in t.items:
                flatten(it, acc, flags)
        elif isinstance(t, T.NoneType):
            flags["opt"] = True
        elif isinstance(t, T.AnyType):
            flags["any"] = True
        elif isinstance(t, T.Instance):
            acc.append(t.type.fullname)
        elif isinstance(t, T.TupleType):
            acc.append("builtins.tuple")
        elif isinstance(t, T.TypeVarType):
            flatten(t.upper_bound, acc, flags)
        elif isinstance(t, T.LiteralType):
            flatten(t.fallback, acc, flags)
        elif isinstance(t, T.CallableType):
            acc.append("<callable>")
        elif isinstance(t, T.TypeType):
            acc.append("<type>")
        elif isinstance(t, T.Overloaded):
            acc.append("<callable>")
        else:
            acc.append("<" + type(t).__name__ + ">")

    def lookup_method(info, name):
        for base in info.mro:
            if name in base.names:
                return base.fullname + "." + name
        return None

    def recv_infos(t):
        """TypeInfos of the instance members of a (union) type."""
        t = T.get_proper_type(t)
        if isinstance(t, T.UnionType):
            r = []
            for it in t.items:
                r += recv_infos(it)
            return r
        if isinstance(t, T.Instance):
            return [t.type]
        if isinstance(t, T.TypeVarType):
            return recv_infos(t.upper_bound)
        if isinstance(t, T.TupleType):
            return recv_infos(t.partial_fallback)
        if isinstance(t, T.TypeType):
            return []
        return []

    KIND = {
        "NameExpr",
        "MemberExpr",
        "CallExpr",
        "IndexExpr",
        "OpExpr",
        "ComparisonExpr",
        "UnaryExpr",
        "ConditionalExpr",
        "SuperExpr",
        "AssignmentExpr",
    }

    modules = {}
    classes = {}
    n_expr = 0
    for mod, f in res.files.items():
        if not (mod == "rdflib" or mod.startswith("rdflib.")):
            continue
        exprs = {}
        calls = {}
        refs = {}
        for n in walk_file(f):
            if isinstance(n, N.ClassDef) and n.info is not None:
                info = n.info
                classes[info.fullname] = {
                    "mro": [b.fullname for b in info.mro],
                    "defs": sorted(info.names.keys()),
                    "module": mod,
                    "line": n.line,
                }
            if not isinstance(n, N.Expression):
                continue
            kind = type(n).__name__
            if kind not in KIND:
                continue
            key = "%s:%d:%d:%s:%s" % (kind, n.line, n.column, n.end_line, n.end_column)
            t = res.types.get(n)
            if t is not None:
                acc = []
                flags = {"opt": False, "any": False}
                flatten(t, acc, flags)
                exprs[key] = [str(t)[:200], sorted(set(acc)), flags["opt"], flags["any"]]
                n_expr += 1
            if isinstance(n, N.RefExpr) and n.fullname:
                refs[key] = n.fullname
            if isinstance(n, N.CallExpr):
                c = n.callee
                targets = []
                if isinstance(c, N.MemberExpr):
                    rt = res.types.get(c.expr)
                    if rt is not None:
                        for info in recv_infos(rt):
                            m = lookup_method(info, c.name)
                            if m:
                                targets.append(m)
                    if not targets and c.fullname:
                        targets.append(c.fullname)
                    # class receiver: Cls.method(...)
                    if not targets and isinstance(c.expr, N.RefExpr) and isinstance(
                        c.expr.node, N.TypeInfo
                    ):
                        m = lookup_method(c.expr.node, c.name)
                        if m:
                            targets.append(m)
                elif isinstance(c, N.RefExpr):
                    if isinstance(c.node, N.TypeInfo):
                        targets.append(c.node.fullname + ".__init__")
                    elif c.fullname:
                        targets.append(c.fullname)
                    else:
                        # local variable holding a callable
                        pass
                elif isinstance(c, N.SuperExpr):
                    pass
                if isinstance(c, N.MemberExpr) and isinstance(c.expr, N.SuperExpr):
                    se = c.expr
                    if se.info is not None:
                        for base in se.info.mro[1:]:
                            if c.name in base.names:
                                targets = [base.fullname + "." + c.name]
                                break
                calls[key] = sorted(set(targets))
        modules[mod] = {"path": os.path.relpath(f.path, root), "exprs": exprs, "calls": calls, "refs": refs}

    # classes imported from outside rdflib that appear in MROs are not needed.
    json.dump(
        {
            "modules": modules,
            "classes": classes,
            "stats": {"build_s": round(t_build, 2), "typed_exprs": n_expr, "errors": len(res.errors)},
        },
        open(out + ".tmp", "w"),
    )
    os.replace(out + ".tmp", out)
    sys.stdout.flush()
    os._exit(0)


if __name__ == "__main__":
    main()
