"""E1 - conflation of "absent" (None) with "present but falsy".

A *decision site* is an expression whose None-ness is decided:
  * by identity  : `e is None`, `e is not None`, `e == None`, `e != None`
                   (also against a module constant that is None, e.g. ANY)
  * by truthiness: e sits in a boolean context (if/while/assert/ternary test,
                   operand of and/or/not, comprehension filter)
and whose static type (mypy) is Optional[...] with a *falsy-capable domain
class* among its members (rdflib Node/Graph/Collection/FrozenDict/CompValue/
Result - classes with __bool__/__len__, so instances can be falsy).

Identity sites satisfy the rule, truthiness sites violate it unless exempt.
"""
from __future__ import annotations

import ast
from typing import Iterator, Optional

from .core import Module, Repo, Report, canon, norm, own_nodes

# Falsy-capable classes with *legal* falsy members.  IdentifiedNode / URIRef /
# BNode / Variable are str subclasses too, but their only falsy value is the
# empty string, which is not a legal IRI, blank node label or variable name - a
# truthiness test on those is not a defect of any property and is not reported.
DOMAIN = {
    "rdflib.term.Literal": "literal (Literal('') / Literal(0) / Literal(False) are falsy)",
    "rdflib.graph.Graph": "graph (__len__: an empty graph is falsy)",
    "rdflib.collection.Collection": "collection (__len__)",
    "rdflib.plugins.sparql.sparql.FrozenDict": "solution mapping (Mapping: empty is falsy)",
    "rdflib.plugins.sparql.sparql.Bindings": "bindings (MutableMapping: empty is falsy)",
    "rdflib.plugins.sparql.parserutils.CompValue": "algebra node (OrderedDict: empty is falsy)",
    "rdflib.query.Result": "result (__bool__/__len__)",
}
# static types that *include* Literal values without naming Literal
SUPER_OF_LITERAL = {"rdflib.term.Node", "rdflib.term.Identifier"}


def tested_exprs(test: ast.expr) -> Iterator[ast.expr]:
    """Leaves of a boolean context whose own truth value is consulted."""
    if isinstance(test, ast.BoolOp):
        for v in test.values:
            yield from tested_exprs(v)
    elif isinstance(test, ast.UnaryOp) and isinstance(test.op, ast.Not):
        yield from tested_exprs(test.operand)
    else:
        yield test


def bool_contexts(fn: ast.AST, nested: bool = True) -> Iterator[tuple[ast.expr, ast.AST, str]]:
    """(leaf expression, owning node, kind) for every truth-tested leaf."""
    for n in own_nodes(fn, include_nested=nested):
        if isinstance(n, (ast.If, ast.While)):
            for e in tested_exprs(n.test):
                yield e, n, type(n).__name__.lower()
        elif isinstance(n, ast.IfExp):
            for e in tested_exprs(n.test):
                yield e, n, "ternary"
        elif isinstance(n, ast.Assert):
            for e in tested_exprs(n.test):
                yield e, n, "assert"
        elif isinstance(n, ast.comprehension):
            for i in n.ifs:
                for e in tested_exprs(i):
                    yield e, n, "comprehension-filter"
        elif isinstance(n, ast.BoolOp):
            # operands other than the last are always truth-tested; the last one
            # only when the BoolOp itself is in a boolean context (handled above)
            for v in n.values[:-1]:
                for e in tested_exprs(v):
                    yield e, n, "boolop"
        elif isinstance(n, ast.UnaryOp) and isinstance(n.op, ast.Not):
            for e in tested_exprs(n.operand):
                yield e, n, "not"


def none_constants(mod: Module) -> set[str]:
    """Module-level names bound to the constant None (e.g. ANY = None)."""
    out = set()
    for st in mod.tree.body:
        tgt = None
        val = None
        if isinstance(st, ast.Assign) and len(st.targets) == 1:
            tgt, val = st.targets[0], st.value
        elif isinstance(st, ast.AnnAssign) and st.value is not None:
            tgt, val = st.target, st.value
        if isinstance(tgt, ast.Name) and isinstance(val, ast.Constant) and val.value is None:
            out.add(tgt.id)
    return out


def domain_hits(repo: Repo, tf) -> list[str]:
    hits = []
    for cls in tf.items:
        if cls in SUPER_OF_LITERAL:
            hits.append("rdflib.term.Literal")
            continue
        for b in repo.typed.mro(cls):
            if b in DOMAIN:
                hits.append(b)
                break
    return sorted(set(hits))


def _is_none(e: ast.expr, nonec: set[str]) -> bool:
    return (isinstance(e, ast.Constant) and e.value is None) or (
        isinstance(e, ast.Name) and e.id in nonec
    )


def scan(
    repo: Repo,
    rep: Report,
    rule: str,
    mod: Module,
    fn: ast.AST,
    where: str,
    exempt: Optional[dict[tuple[str, str], str]] = None,
    extra_types: Optional[dict[str, str]] = None,
    require_optional: bool = True,
    extra_domain: Optional[set] = None,
    binding_maps: Optional[tuple] = None,
) -> tuple[int, int]:
    """Record every decision site of `fn` (nested defs included) under `rule`.

    exempt: {(qualified function, normalised expr): reason}
    extra_types: parameter name -> inherited annotation text for untyped defs
                 (signature inheritance); a tested Name with such a type that is
                 Optional[domain] counts as a site.
    returns (#identity sites, #truthiness sites)
    """
    exempt = exempt or {}
    nonec = none_constants(mod)
    n_id = n_tr = 0
    seen: set[int] = set()

    def from_binding_map(e: ast.expr) -> Optional[str]:
        """e is `<m>.get(k)` (or a local assigned from it) with <m> typed as one of binding_maps:
        the value is a bound term even though the mapping is untyped (Any)."""
        if not binding_maps:
            return None
        cands = [e]
        if isinstance(e, ast.Name):
            cands = [n.value for n in own_nodes(fn, include_nested=True) if isinstance(n, ast.Assign)
                     and any(isinstance(t, ast.Name) and t.id == e.id for t in n.targets)]
        for c in cands:
            if isinstance(c, ast.Call) and isinstance(c.func, ast.Attribute) and c.func.attr == "get" and len(c.args) == 1:
                rt = repo.typed.type_of(mod.name, c.func.value)
                if rt and any(any(repo.typed.is_subclass(i, b) for b in binding_maps) for i in rt.items):
                    return norm(c)
        return None

    def fact(e: ast.expr):
        bm = from_binding_map(e)
        if bm is not None:
            return True, ["rdflib.term.Literal"], "value of %s (a bound term or None)" % bm
        tf = repo.typed.type_of(mod.name, e)
        if tf is not None and not (tf.any and not tf.items):
            hits = domain_hits(repo, tf)
            if extra_domain:
                hits = sorted(set(hits) | {i for i in tf.items if i in extra_domain})
            return tf.optional, hits, tf.text
        if extra_types and isinstance(e, ast.Name) and e.id in extra_types:
            return extra_types[e.id]
        return None

    # identity sites
    for n in own_nodes(fn, include_nested=True):
        if isinstance(n, ast.Compare) and len(n.ops) == 1 and isinstance(
            n.ops[0], (ast.Is, ast.IsNot, ast.Eq, ast.NotEq)
        ):
            l, r = n.left, n.comparators[0]
            target = None
            if _is_none(r, nonec):
                target = l
            elif _is_none(l, nonec):
                target = r
            if target is None:
                continue
            f = fact(target)
            if not f:
                continue
            opt, hits, text = f
            if hits and (opt or not require_optional):
                n_id += 1
                rep.ob(rule, mod, where_of(mod, n, where), n, True, "None-ness of %s : %s decided by identity" % (norm(target), text), node=n)
    # truthiness sites
    for e, owner, kind in bool_contexts(fn):
        if id(e) in seen:
            continue
        seen.add(id(e))
        if isinstance(e, (ast.Compare, ast.Constant)):
            continue
        f = fact(e)
        if not f:
            continue
        opt, hits, text = f
        if not hits or (require_optional and not opt):
            continue
        n_tr += 1
        w = where_of(mod, e, where)
        why = {(a, canon(b)): r for (a, b), r in exempt.items()}.get((w, canon(e)))
        ctx = norm(owner.test) if hasattr(owner, "test") else norm(owner)
        if why:
            rep.ob(rule, mod, w, "%s [in %s: %s]" % (norm(e), kind, ctx[:120]), True, "truthiness test exempt: " + why, node=e)
        else:
            rep.ob(
                rule,
                mod,
                w,
                "%s [in %s: %s]" % (norm(e), kind, ctx[:120]),
                False,
                ("truthiness of %s : %s conflates None with a falsy %s" if opt else
                 "truthiness of %s : %s decides, but a bound %s may be falsy")
                % (norm(e), text, "/".join(h.rsplit(".", 1)[-1] for h in hits)),
                node=e,
            )
    return n_id, n_tr


def where_of(mod: Module, node: ast.AST, default: str) -> str:
    q = mod.scope.get(id(node))
    return q if q else default
