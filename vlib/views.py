"""Equivalent views of the program under analysis (E9).

A rule of a check is a *sufficient* syntactic condition for a structural clause of a property.  The clause is a fact
about behaviour, so it holds for a program iff it holds for any program with the same behaviour: if the rule is
satisfied on a behaviour-preserving rewriting of the tree, the clause holds on the tree.  This module computes a few
such rewritings ("views") from the parsed modules - nothing is executed - so that a refactoring that a maintainer makes
routinely (a block extracted into a private helper, a guard clause instead of a nested if, a local alias for
`self.store`, a `typing.cast`, a `logger.debug` line) does not make a rule lose the construct it was written for:

* ``inline``    calls of private helpers of the same module (`self._h(..)`, `self.__h(..)`, `cls._h(..)`, `_h(..)`) are
                replaced by the helper's body (statement calls, `x = h()`, `return h()`, `yield from h()`,
                `for t in h(): ..` with a generator helper, `if h(): ..`, and expression-like helpers anywhere);
* ``dealias``   a local that is assigned once, at the top level of the function, from an attribute chain of `self` or of
                a parameter (`store = self.store`) and never rebound is replaced by that chain;
* ``elsify``    `if c: ...return/raise/continue/break` followed by REST  ->  `if c: ... else: REST`;
* ``guardify``  `if c: A(ends in return/raise/continue/break) else: B`  ->  `if c: A` ; B;
* ``untable``   a call through a module-level table of functions, `f = TABLE.get(k)` / `TABLE[k]` ... `f(a)`, becomes the
                chain `if k == 'A': fA(a) elif k == 'B': fB(a) ... else: f(a)` (the table must be a dict literal with constant
                keys that the module never changes);
* ``quiet``     a `match` statement whose patterns bind nothing (class, value, or-patterns, `_`, guards) -> if / elif / else;
                `typing.cast(T, x)` -> x; statements that only log (`logger.debug(..)`, `log.info(..)`) are dropped (a
                block that would become empty keeps a `pass`); `warnings.warn` stays, it is part of the behaviour.

Every transformation keeps the source positions of the nodes it copies (all of them stay inside one module), so the
typed facts of mypy, which are keyed by position, stay valid.  A view is a `core.Repo` whose modules carry the rewritten
trees; rules run on it unchanged.

Limits (each one makes the inliner *refuse*, never guess): helpers that are recursive, decorated (other than
staticmethod/classmethod), async, with *args/**kwargs, defined in more than one class of the package under the same
name (an override could be called instead), with a `return` inside a loop or a `try` when the call is not in tail
position, generator helpers whose consumer loop has `break`/`continue`/`else`; depth of inlining 3.
"""
from __future__ import annotations

import ast
import copy
from typing import Optional

KINDS = ("quiet", "inline", "dealias", "elsify", "guardify", "untable", "all-e", "all-g")
_PIPE = {
    "quiet": ("quiet",),
    "inline": ("quiet", "inline", "fold", "copyprop"),
    "dealias": ("copyprop",),
    "elsify": ("elsify",),
    "guardify": ("guardify",),
    "untable": ("quiet", "untable"),
    "all-e": ("quiet", "untable", "inline", "fold", "copyprop", "elsify"),
    "all-g": ("quiet", "untable", "inline", "fold", "copyprop", "guardify"),
}
MAX_DEPTH = 3
MAX_HELPER_STMTS = 80
_TERMINATORS = (ast.Return, ast.Raise, ast.Continue, ast.Break)
_FUNC = (ast.FunctionDef, ast.AsyncFunctionDef)


# ----------------------------------------------------------------------------------------------------------- utilities
def _walk_own(node: ast.AST):
    """Nodes of a function body, not descending into nested defs / lambdas / classes."""
    stack = list(ast.iter_child_nodes(node))
    while stack:
        n = stack.pop()
        yield n
        if isinstance(n, _FUNC + (ast.ClassDef, ast.Lambda)):
            continue
        stack.extend(ast.iter_child_nodes(n))


def _bound_names(fn: ast.AST) -> set[str]:
    """Names a function binds (parameters, assignment / loop / with / except / import / walrus targets, comprehensions)."""
    out: set[str] = set()
    if isinstance(fn, _FUNC):
        a = fn.args
        for x in a.posonlyargs + a.args + a.kwonlyargs:
            out.add(x.arg)
        if a.vararg:
            out.add(a.vararg.arg)
        if a.kwarg:
            out.add(a.kwarg.arg)
    for n in _walk_own(fn):
        if isinstance(n, ast.Name) and isinstance(n.ctx, (ast.Store, ast.Del)):
            out.add(n.id)
        elif isinstance(n, ast.ExceptHandler) and n.name:
            out.add(n.name)
        elif isinstance(n, (ast.Import, ast.ImportFrom)):
            for al in n.names:
                out.add((al.asname or al.name).split(".")[0])
        elif isinstance(n, _FUNC + (ast.ClassDef,)):
            out.add(n.name)
    return out


def _all_names(fn: ast.AST) -> set[str]:
    return {n.id for n in ast.walk(fn) if isinstance(n, ast.Name)} | _bound_names(fn)


def _terminates(stmts: list[ast.stmt]) -> bool:
    """The block cannot fall through its end."""
    if not stmts:
        return False
    last = stmts[-1]
    if isinstance(last, _TERMINATORS):
        return True
    if isinstance(last, ast.If):
        return bool(last.orelse) and _terminates(last.body) and _terminates(last.orelse)
    if isinstance(last, ast.With):
        return _terminates(last.body)
    if isinstance(last, ast.Try) and not last.finalbody:
        return (_terminates(last.orelse) if last.orelse else _terminates(last.body)) and all(_terminates(h.body) for h in last.handlers)
    return False


def _is_docstring(st: ast.stmt) -> bool:
    return isinstance(st, ast.Expr) and isinstance(st.value, ast.Constant) and isinstance(st.value.value, str)


def _body_wo_doc(fn: ast.FunctionDef) -> list[ast.stmt]:
    b = list(fn.body)
    while b and (_is_docstring(b[0]) or isinstance(b[0], ast.Pass)):
        b = b[1:]
    return b


def _is_generator(fn: ast.AST) -> bool:
    return any(isinstance(n, (ast.Yield, ast.YieldFrom)) for n in _walk_own(fn))


def _simple_expr(e: ast.AST) -> bool:
    if isinstance(e, (ast.Name, ast.Constant)):
        return True
    if isinstance(e, ast.Attribute):
        return not _attr_unstable(e) and _simple_expr(e.value)
    if isinstance(e, ast.Tuple):
        return all(_simple_expr(x) for x in e.elts)
    if isinstance(e, ast.UnaryOp) and isinstance(e.op, (ast.USub, ast.Not)):
        return _simple_expr(e.operand)
    return False


class _Subst(ast.NodeTransformer):
    """Replace loads of names by expressions; rename stores."""

    def __init__(self, exprs: dict[str, ast.AST], renames: dict[str, str]):
        self.exprs = exprs
        self.renames = renames

    def visit_Name(self, node: ast.Name):
        if isinstance(node.ctx, ast.Load) and node.id in self.exprs:
            new = copy.deepcopy(self.exprs[node.id])
            return new
        if node.id in self.renames:
            return ast.copy_location(ast.Name(id=self.renames[node.id], ctx=node.ctx), node)
        return node

    def visit_Call(self, node: ast.Call):
        f = node.func
        if isinstance(f, ast.Name) and isinstance(f.ctx, ast.Load) and isinstance(self.exprs.get(f.id), ast.Constant):
            node.args = [self.visit(a) for a in node.args]
            node.keywords = [self.visit(k) for k in node.keywords]
            return node
        return self.generic_visit(node)

    def visit_ExceptHandler(self, node: ast.ExceptHandler):
        if node.name and node.name in self.renames:
            node.name = self.renames[node.name]
        return self.generic_visit(node)

    # nested scopes: a lambda / def parameter of the same name shadows; keep it simple and refuse at the caller instead


def _has_shadowing_scope(stmts: list[ast.stmt], names: set[str]) -> bool:
    for st in stmts:
        for n in ast.walk(st):
            if isinstance(n, (ast.Lambda,) + _FUNC):
                a = n.args
                ps = {x.arg for x in a.posonlyargs + a.args + a.kwonlyargs}
                if a.vararg:
                    ps.add(a.vararg.arg)
                if a.kwarg:
                    ps.add(a.kwarg.arg)
                if ps & names:
                    return True
            elif isinstance(n, (ast.ListComp, ast.SetComp, ast.DictComp, ast.GeneratorExp)):
                for g in n.generators:
                    for t in ast.walk(g.target):
                        if isinstance(t, ast.Name) and t.id in names:
                            return True
            elif isinstance(n, (ast.Global, ast.Nonlocal)):
                return True
    return False


# ------------------------------------------------------------------------------------------------------------- quiet
_LOG_METHODS = {"debug", "info", "warning", "warn", "error", "exception", "critical", "log"}
_LOG_NAMES = {"logger", "log", "_logger", "_log", "logging", "LOGGER", "_LOGGER"}


def _is_log_stmt(st: ast.stmt) -> bool:
    if not (isinstance(st, ast.Expr) and isinstance(st.value, ast.Call)):
        return False
    f = st.value.func
    if isinstance(f, ast.Attribute) and f.attr in _LOG_METHODS and isinstance(f.value, ast.Name) and f.value.id in _LOG_NAMES:
        return True
    return False


class _Quiet(ast.NodeTransformer):
    def visit_Call(self, node: ast.Call):
        self.generic_visit(node)
        f = node.func
        is_cast = (isinstance(f, ast.Name) and f.id == "cast") or (
            isinstance(f, ast.Attribute) and f.attr == "cast" and isinstance(f.value, ast.Name) and f.value.id in ("typing", "t"))
        if is_cast and len(node.args) == 2 and not node.keywords:
            return node.args[1]
        return node

    def visit_AnnAssign(self, node: ast.AnnAssign):
        self.generic_visit(node)
        if node.value is None:
            return ast.copy_location(ast.Pass(), node) if isinstance(node.target, ast.Name) else node
        return ast.copy_location(ast.Assign(targets=[node.target], value=node.value, lineno=node.lineno, col_offset=node.col_offset), node)

    def visit_ClassDef(self, node: ast.ClassDef):
        # class-level annotations declare attributes (dataclass fields, DefinedNamespace terms): leave them
        for i, st in enumerate(node.body):
            if not isinstance(st, ast.AnnAssign):
                node.body[i] = self.visit(st)
        return node

    def generic_visit(self, node: ast.AST):
        super().generic_visit(node)
        for f in ("body", "orelse", "finalbody"):
            v = getattr(node, f, None)
            if isinstance(v, list) and v and isinstance(v[0], ast.stmt):
                v = [s for s in v if not (isinstance(s, ast.Pass) and len(v) > 1)]
                keep = [s for s in v if not _is_log_stmt(s)]
                if not keep and f == "body":  # a body may not become empty
                    keep = [ast.copy_location(ast.Pass(), v[0])]
                setattr(node, f, keep)
        return node


# ------------------------------------------------------------------------------------------------------------ unmatch
class _NoPlainTest(Exception):
    pass


def _pattern_test(subject: ast.AST, pat: ast.AST) -> Optional[ast.AST]:
    """The test a `case` pattern stands for, when it binds nothing: None for the irrefutable `_`."""
    if isinstance(pat, ast.MatchAs) and pat.pattern is None and pat.name is None:
        return None
    if isinstance(pat, ast.MatchValue):
        return ast.copy_location(ast.Compare(left=copy.deepcopy(subject), ops=[ast.Eq()], comparators=[pat.value]), pat)
    if isinstance(pat, ast.MatchSingleton):
        return ast.copy_location(ast.Compare(left=copy.deepcopy(subject), ops=[ast.Is()], comparators=[ast.copy_location(ast.Constant(value=pat.value), pat)]), pat)
    if isinstance(pat, ast.MatchClass) and not pat.patterns and not pat.kwd_patterns:
        return ast.copy_location(ast.Call(func=ast.copy_location(ast.Name(id="isinstance", ctx=ast.Load()), pat), args=[copy.deepcopy(subject), pat.cls], keywords=[]), pat)
    if isinstance(pat, ast.MatchOr):
        tests = [_pattern_test(subject, p) for p in pat.patterns]
        if any(t is None for t in tests):
            return None
        # isinstance(x, A) or isinstance(x, B) -> isinstance(x, (A, B)); x == 'a' or x == 'b' -> x in ('a', 'b')
        if all(isinstance(t, ast.Call) for t in tests):
            tup = ast.copy_location(ast.Tuple(elts=[t.args[1] for t in tests], ctx=ast.Load()), pat)  # type: ignore[union-attr]
            return ast.copy_location(ast.Call(func=ast.copy_location(ast.Name(id="isinstance", ctx=ast.Load()), pat), args=[copy.deepcopy(subject), tup], keywords=[]), pat)
        if all(isinstance(t, ast.Compare) and isinstance(t.ops[0], ast.Eq) for t in tests):
            tup = ast.copy_location(ast.Tuple(elts=[t.comparators[0] for t in tests], ctx=ast.Load()), pat)  # type: ignore[union-attr]
            return ast.copy_location(ast.Compare(left=copy.deepcopy(subject), ops=[ast.In()], comparators=[tup]), pat)
        return ast.copy_location(ast.BoolOp(op=ast.Or(), values=tests), pat)  # type: ignore[arg-type]
    raise _NoPlainTest


class _Unmatch(ast.NodeTransformer):
    """`match x: case A(): .. case 'k' | 'l': .. case _: ..` -> if / elif / else, where the subject is a plain name or
    attribute chain and no pattern binds a name or destructures (those `match` statements are left as they are)."""

    def visit_Match(self, node: ast.Match):
        self.generic_visit(node)
        original = node
        node = copy.deepcopy(node)  # the rewriting is abandoned as a whole if one pattern cannot be put as a plain test
        subj = node.subject
        pre: list[ast.stmt] = []
        if not (_keyish(subj) or (isinstance(subj, ast.Subscript) and _keyish(subj.value) and isinstance(subj.slice, ast.Constant))):
            # any other subject is evaluated once, into a fresh local
            _Unmatch.n += 1
            tmp = "__match_subject%d" % _Unmatch.n
            pre = [ast.copy_location(ast.Assign(targets=[ast.copy_location(ast.Name(id=tmp, ctx=ast.Store()), subj)], value=subj, lineno=node.lineno, col_offset=node.col_offset), node)]
            node.subject = ast.copy_location(ast.Name(id=tmp, ctx=ast.Load()), subj)
        arms: list[tuple[Optional[ast.AST], list[ast.stmt]]] = []
        try:
            for c in node.cases:
                pat = c.pattern
                if isinstance(pat, ast.MatchAs) and pat.name is not None:
                    # `case <pattern> as name` / `case name`: the subject itself is bound
                    bind = ast.copy_location(ast.Assign(targets=[ast.copy_location(ast.Name(id=pat.name, ctx=ast.Store()), pat)], value=copy.deepcopy(node.subject),
                                                        lineno=pat.lineno, col_offset=pat.col_offset), pat)
                    c.body = [bind] + c.body
                    pat = pat.pattern if pat.pattern is not None else ast.copy_location(ast.MatchAs(pattern=None, name=None), pat)
                t = _pattern_test(node.subject, pat)
                if c.guard is not None:
                    t = c.guard if t is None else ast.copy_location(ast.BoolOp(op=ast.And(), values=[t, c.guard]), c.pattern)
                arms.append((t, c.body))
                if t is None:
                    break
        except _NoPlainTest:
            return original
        chain: Optional[ast.If] = None
        last: Optional[ast.If] = None
        for t, body in arms:
            if t is None:
                if last is None:
                    return pre + body
                last.orelse = body
                break
            n = ast.copy_location(ast.If(test=t, body=body, orelse=[]), node)
            if chain is None:
                chain = n
            else:
                last.orelse = [n]  # type: ignore[union-attr]
            last = n
        return (pre + [chain]) if chain is not None else original

    n = 0


# -------------------------------------------------------------------------------------------------------- if-shapes
def _elsify_block(stmts: list[ast.stmt]) -> list[ast.stmt]:
    out: list[ast.stmt] = []
    for i, st in enumerate(stmts):
        _elsify_children(st)
        if isinstance(st, ast.If) and not st.orelse and _terminates(st.body) and i + 1 < len(stmts):
            rest = _elsify_block(stmts[i + 1:])
            st.orelse = rest
            out.append(st)
            return out
        out.append(st)
    return out


def _elsify_children(st: ast.AST) -> None:
    for f in ("body", "orelse", "finalbody"):
        v = getattr(st, f, None)
        if isinstance(v, list) and v and isinstance(v[0], ast.stmt):
            setattr(st, f, _elsify_block(v))
    for h in getattr(st, "handlers", []) or []:
        h.body = _elsify_block(h.body)
    for c in getattr(st, "cases", []) or []:
        c.body = _elsify_block(c.body)


def _guardify_block(stmts: list[ast.stmt]) -> list[ast.stmt]:
    out: list[ast.stmt] = []
    for st in stmts:
        _guardify_children(st)
        if isinstance(st, ast.If) and st.orelse and _terminates(st.body):
            tail = st.orelse
            st.orelse = []
            out.append(st)
            out.extend(_guardify_block(tail) if not (len(tail) == 1 and isinstance(tail[0], ast.If)) else _guardify_block(tail))
        else:
            out.append(st)
    return out


def _guardify_children(st: ast.AST) -> None:
    for f in ("body", "orelse", "finalbody"):
        v = getattr(st, f, None)
        if isinstance(v, list) and v and isinstance(v[0], ast.stmt):
            setattr(st, f, _guardify_block(v))
    for h in getattr(st, "handlers", []) or []:
        h.body = _guardify_block(h.body)
    for c in getattr(st, "cases", []) or []:
        c.body = _guardify_block(c.body)


# ----------------------------------------------------------------------------------------------- copy propagation
def _chain_root(e: ast.AST) -> Optional[str]:
    while isinstance(e, ast.Attribute):
        e = e.value
    return e.id if isinstance(e, ast.Name) else None


UNSTABLE_ATTRS: set[str] = set()  # names of properties / descriptors of the package, set by the driver
CLASS_PROPS: dict[str, set[str]] = {}  # class (simple name) -> property names it defines, set by the driver
CLASS_BASES: dict[str, set[str]] = {}  # class (simple name) -> simple names of its bases
_CUR_CLASS: list[Optional[str]] = [None]  # the class whose method is being rewritten
PACKAGE_TREES: dict[str, ast.Module] = {}  # module name -> parsed tree of every module of the package, set by the driver
FOREIGN_LINE_OFFSET = 1_000_000  # nodes copied from another module get positions that no node of this module has


def _imported_private_functions(tree: ast.Module, module_name: str) -> dict[str, ast.FunctionDef]:
    """local name -> definition, for the module-level functions this module imports by name from a *private* module of the
    package (last component starts with `_`): code that was moved out into a helper module and is delegated to."""
    out: dict[str, ast.FunctionDef] = {}
    if not PACKAGE_TREES or not module_name:
        return out
    is_pkg = any(n.startswith(module_name + ".") for n in PACKAGE_TREES)
    for st in tree.body:
        if not isinstance(st, ast.ImportFrom):
            continue
        if st.level:
            parts = module_name.split(".")
            base = parts if is_pkg else parts[:-1]
            base = base[: len(base) - (st.level - 1)] if st.level > 1 else base
            src = ".".join(base + ([st.module] if st.module else []))
        else:
            src = st.module or ""
        if not src.split(".")[-1].startswith("_") or src.split(".")[-1].startswith("__") or src not in PACKAGE_TREES:
            continue
        defs = {d.name: d for d in PACKAGE_TREES[src].body if isinstance(d, ast.FunctionDef)}
        for al in st.names:
            if al.name in defs:
                out[al.asname or al.name] = defs[al.name]
    return out


def _self_attr_is_plain(attr: str) -> bool:
    """`self.<attr>` inside a method of the current class is an ordinary attribute: no class of its MRO (as far as the
    package defines it) computes it."""
    cls = _CUR_CLASS[0]
    if cls is None or cls not in CLASS_PROPS:
        return False
    seen: set[str] = set()
    todo = [cls]
    while todo:
        c = todo.pop()
        if c in seen:
            continue
        seen.add(c)
        if attr in CLASS_PROPS.get(c, ()) or "*" in CLASS_PROPS.get(c, ()):
            return False
        for b in CLASS_BASES.get(c, ()):
            if b not in CLASS_PROPS and b not in ("object", "Generic", "ABC", "Protocol"):
                return False  # a base the package does not define: unknown
            todo.append(b)
    return True


def _attr_unstable(x: ast.Attribute) -> bool:
    if x.attr not in UNSTABLE_ATTRS:
        return False
    if isinstance(x.value, ast.Name) and x.value.id == "self" and _self_attr_is_plain(x.attr):
        return False
    return True


def unstable_attribute_names(trees: dict[str, ast.Module]) -> set[str]:
    """Attribute names that some class of the package computes (`@property def x`, `x = property(..)`, `__getattr__`
    classes aside): reading `obj.x` twice need not give the same object, so such a chain is never propagated."""
    out: set[str] = set()
    CLASS_PROPS.clear()
    CLASS_BASES.clear()
    for t in trees.values():
        for c in ast.walk(t):
            if not isinstance(c, ast.ClassDef):
                continue
            CLASS_PROPS.setdefault(c.name, set())
            bs = CLASS_BASES.setdefault(c.name, set())
            for b in c.bases:
                b2 = b.value if isinstance(b, ast.Subscript) else b
                bs.add(b2.id if isinstance(b2, ast.Name) else (b2.attr if isinstance(b2, ast.Attribute) else "?"))
            if any(isinstance(m, _FUNC) and m.name in ("__getattr__", "__getattribute__") for m in c.body):
                CLASS_PROPS[c.name].add("*")
            for st in c.body:
                if isinstance(st, _FUNC) and any(
                        (isinstance(d, ast.Name) and d.id in ("property", "cached_property"))
                        or (isinstance(d, ast.Attribute) and d.attr in ("property", "cached_property", "setter", "getter", "deleter"))
                        for d in st.decorator_list):
                    out.add(st.name)
                    CLASS_PROPS[c.name].add(st.name)
                elif isinstance(st, ast.Assign) and isinstance(st.value, ast.Call) and isinstance(st.value.func, ast.Name) and st.value.func.id == "property":
                    for tg in st.targets:
                        if isinstance(tg, ast.Name):
                            out.add(tg.id)
                            CLASS_PROPS[c.name].add(tg.id)
    return out


def _is_chain(e: ast.AST) -> bool:
    if isinstance(e, (ast.Name, ast.Constant)):
        return True
    if isinstance(e, ast.Attribute) and _chain_root(e) is not None:
        x: ast.AST = e
        while isinstance(x, ast.Attribute):
            if _attr_unstable(x):
                return False
            x = x.value
        return True
    return False


def _stores_in(st: ast.AST) -> tuple[set[str], set[str]]:
    """(names, attribute-chain texts) that `st` (with everything nested in it) binds, deletes or augments."""
    names: set[str] = set()
    chains: set[str] = set()
    for n in ast.walk(st):
        if isinstance(n, ast.Name) and isinstance(n.ctx, (ast.Store, ast.Del)):
            names.add(n.id)
        elif isinstance(n, ast.Attribute) and isinstance(n.ctx, (ast.Store, ast.Del)):
            chains.add(ast.unparse(n))
        elif isinstance(n, ast.ExceptHandler) and n.name:
            names.add(n.name)
        elif isinstance(n, (ast.Import, ast.ImportFrom)):
            for al in n.names:
                names.add((al.asname or al.name).split(".")[0])
        elif isinstance(n, _FUNC + (ast.ClassDef,)):
            names.add(n.name)
    return names, chains


def _copy_pairs(st: ast.stmt) -> list[tuple[str, ast.AST]]:
    """`x = <name | constant | attribute chain>` and `a, b = (x, y)` with such elements."""
    if isinstance(st, ast.AnnAssign) and st.value is not None and isinstance(st.target, ast.Name) and _is_chain(st.value):
        return [(st.target.id, st.value)]
    if not (isinstance(st, ast.Assign) and len(st.targets) == 1):
        return []
    t, v = st.targets[0], st.value
    if isinstance(t, ast.Name) and _is_chain(v):
        return [(t.id, v)]
    if isinstance(t, ast.Tuple) and isinstance(v, ast.Tuple) and len(t.elts) == len(v.elts) and all(isinstance(x, ast.Name) for x in t.elts) and all(_is_chain(x) for x in v.elts):
        tn = [x.id for x in t.elts]  # type: ignore[attr-defined]
        used = {n.id for x in v.elts for n in ast.walk(x) if isinstance(n, ast.Name)}
        if len(set(tn)) == len(tn) and not (set(tn) & used):
            return list(zip(tn, v.elts))
    return []


def _nested_blocks(st: ast.AST):
    for f in ("body", "orelse", "finalbody"):
        v = getattr(st, f, None)
        if isinstance(v, list) and v and isinstance(v[0], ast.stmt):
            yield v
    for h in getattr(st, "handlers", []) or []:
        yield h.body
    for c in getattr(st, "cases", []) or []:
        yield c.body


def _copyprop_block(block: list[ast.stmt], params: set[str]) -> None:
    for i, st in enumerate(block):
        if isinstance(st, _FUNC + (ast.ClassDef,)):
            continue
        for sub in _nested_blocks(st):
            _copyprop_block(sub, params)
        for name, expr in _copy_pairs(st):
            if isinstance(expr, ast.Name) and expr.id == name:
                continue
            deps = {n.id for n in ast.walk(expr) if isinstance(n, ast.Name)}
            text = ast.unparse(expr) if isinstance(expr, ast.Attribute) else None
            for j in range(i + 1, len(block)):
                nxt = block[j]
                names, chains = _stores_in(nxt)
                if name in names or (deps & names):
                    break
                if text is not None and any(text == c or text.startswith(c + ".") for c in chains):
                    break
                if _has_shadowing_scope([nxt], {name}):
                    break
                block[j] = _Subst({name: expr}, {}).visit(nxt)


def _copyprop_function(fn: ast.FunctionDef) -> None:
    if any(isinstance(n, (ast.Global, ast.Nonlocal)) for n in _walk_own(fn)):
        return
    params = {x.arg for x in fn.args.posonlyargs + fn.args.args + fn.args.kwonlyargs}
    _copyprop_block(fn.body, params)
    # copies that nothing reads any more
    loads: dict[str, int] = {}
    for n in ast.walk(fn):
        if isinstance(n, ast.Name) and isinstance(n.ctx, (ast.Load, ast.Del)):
            loads[n.id] = loads.get(n.id, 0) + 1
        elif isinstance(n, ast.AugAssign) and isinstance(n.target, ast.Name):
            loads[n.target.id] = loads.get(n.target.id, 0) + 1

    def prune(block: list[ast.stmt]) -> list[ast.stmt]:
        out = []
        for st in block:
            if isinstance(st, _FUNC + (ast.ClassDef,)):
                out.append(st)
                continue
            pairs = _copy_pairs(st)
            if pairs and all(loads.get(nm, 0) == 0 for nm, _ in pairs):
                continue
            for f in ("body", "orelse", "finalbody"):
                v = getattr(st, f, None)
                if isinstance(v, list) and v and isinstance(v[0], ast.stmt):
                    nv = prune(v)
                    setattr(st, f, nv if (nv or f != "body") else [ast.copy_location(ast.Pass(), st)])
            for h in getattr(st, "handlers", []) or []:
                h.body = prune(h.body) or [ast.copy_location(ast.Pass(), h)]
            out.append(st)
        return out

    fn.body = prune(fn.body) or [ast.copy_location(ast.Pass(), fn)]


# ---------------------------------------------------------------------------------------------------- constant folding
class _Fold(ast.NodeTransformer):
    """Comparisons of two constants, `not <const>`, and/or with a deciding constant, conditional expressions and `if`
    statements with a constant test (they arise when a helper is inlined with a constant argument)."""

    def visit_Compare(self, node: ast.Compare):
        self.generic_visit(node)
        if len(node.ops) == 1 and isinstance(node.left, ast.Constant) and isinstance(node.comparators[0], ast.Constant):
            a, b, op = node.left.value, node.comparators[0].value, node.ops[0]
            try:
                if isinstance(op, ast.Eq):
                    r = a == b
                elif isinstance(op, ast.NotEq):
                    r = a != b
                elif isinstance(op, ast.Is) and (a is None or b is None or isinstance(a, bool) or isinstance(b, bool)):
                    r = a is b
                elif isinstance(op, ast.IsNot) and (a is None or b is None or isinstance(a, bool) or isinstance(b, bool)):
                    r = a is not b
                else:
                    return node
            except Exception:
                return node
            return ast.copy_location(ast.Constant(value=bool(r)), node)
        return node

    tables: dict = {}

    def visit_Subscript(self, node: ast.Subscript):
        self.generic_visit(node)
        if isinstance(node.ctx, ast.Load) and isinstance(node.value, ast.Name) and node.value.id in self.tables and isinstance(node.slice, ast.Constant):
            for k, v in self.tables[node.value.id]:
                if type(k.value) is type(node.slice.value) and k.value == node.slice.value and isinstance(v, ast.Constant):
                    return ast.copy_location(ast.Constant(value=v.value), node)
        return node

    def visit_UnaryOp(self, node: ast.UnaryOp):
        self.generic_visit(node)
        if isinstance(node.op, ast.Not) and isinstance(node.operand, ast.Constant):
            return ast.copy_location(ast.Constant(value=not node.operand.value), node)
        return node

    def visit_IfExp(self, node: ast.IfExp):
        self.generic_visit(node)
        if isinstance(node.test, ast.Constant):
            return node.body if node.test.value else node.orelse
        return node

    def _block(self, stmts: list[ast.stmt]) -> list[ast.stmt]:
        out: list[ast.stmt] = []
        for st in stmts:
            if isinstance(st, ast.If) and isinstance(st.test, ast.Constant) and not any(
                    isinstance(n, (ast.Yield, ast.YieldFrom)) for n in ast.walk(st)):
                out.extend(st.body if st.test.value else st.orelse)
            else:
                out.append(st)
        return out

    def generic_visit(self, node: ast.AST):
        super().generic_visit(node)
        for f in ("body", "orelse", "finalbody"):
            v = getattr(node, f, None)
            if isinstance(v, list) and v and isinstance(v[0], ast.stmt):
                nv = self._block(v)
                if not nv and f == "body":
                    nv = [ast.copy_location(ast.Pass(), v[0])]
                setattr(node, f, nv)
        return node


# ------------------------------------------------------------------------------------------------------------- inline
class _Refuse(Exception):
    pass


class Inliner:
    def __init__(self, tree: ast.Module, ambiguous_methods: set[str], module_name: str = ""):
        self.tree = tree
        self.ambiguous = ambiguous_methods
        self.imported = _imported_private_functions(tree, module_name)
        self.module_funcs: dict[str, ast.FunctionDef] = {}
        self.class_methods: dict[str, dict[str, ast.FunctionDef]] = {}
        self.class_bases: dict[str, list[str]] = {}
        for st in tree.body:
            if isinstance(st, ast.FunctionDef):
                self.module_funcs[st.name] = st
            elif isinstance(st, ast.ClassDef):
                ms = {}
                for m in st.body:
                    if isinstance(m, ast.FunctionDef):
                        ms[m.name] = m
                self.class_methods[st.name] = ms
                self.class_bases[st.name] = [b.id for b in st.bases if isinstance(b, ast.Name)]
        # frozen copies of the helper bodies (so that inlining into a helper does not feed back)
        self._orig: dict[int, ast.FunctionDef] = {}
        for f in list(self.module_funcs.values()) + [m for ms in self.class_methods.values() for m in ms.values()]:
            self._orig[id(f)] = copy.deepcopy(f)
        for f in self.imported.values():
            c = copy.deepcopy(f)
            for n in ast.walk(c):
                if hasattr(n, "lineno"):
                    n.lineno = n.lineno + FOREIGN_LINE_OFFSET
                    if getattr(n, "end_lineno", None) is not None:
                        n.end_lineno = n.end_lineno + FOREIGN_LINE_OFFSET
            self._orig[id(f)] = c
        self.counter = 0
        self.n_inlined = 0
        self.inlined_helpers: set[str] = set()

    # -- resolution
    @staticmethod
    def _private(name: str) -> bool:
        return name.startswith("_") and not (name.startswith("__") and name.endswith("__"))

    def _lookup_method(self, cls: str, name: str, seen=()) -> Optional[ast.FunctionDef]:
        if cls in seen or cls not in self.class_methods:
            return None
        m = self.class_methods[cls].get(name)
        if m is not None:
            return m
        for b in self.class_bases.get(cls, []):
            r = self._lookup_method(b, name, seen + (cls,))
            if r is not None:
                return r
        return None

    def resolve(self, call: ast.Call, cls: Optional[str]) -> Optional[tuple[ast.FunctionDef, Optional[ast.AST]]]:
        """-> (helper definition (frozen copy), receiver expression bound to its first parameter or None)."""
        f = call.func
        helper = None
        recv: Optional[ast.AST] = None
        if isinstance(f, ast.Name) and self._private(f.id) and f.id in self.module_funcs:
            helper = self.module_funcs[f.id]
        elif isinstance(f, ast.Name) and f.id in self.imported and f.id not in self.module_funcs:
            helper = self.imported[f.id]
        elif isinstance(f, ast.Attribute) and isinstance(f.value, ast.Name) and self._private(f.attr):
            base = f.value.id
            if base in ("self", "cls") and cls is not None:
                helper = self._lookup_method(cls, f.attr)
                recv = f.value
            elif base in self.class_methods:
                helper = self._lookup_method(base, f.attr)
                recv = None
            if helper is not None:
                mangled_private = f.attr.startswith("__")
                if not mangled_private and f.attr in self.ambiguous:
                    return None
        if helper is None:
            return None
        kinds = set()
        for d in helper.decorator_list:
            if isinstance(d, ast.Name) and d.id in ("staticmethod", "classmethod"):
                kinds.add(d.id)
            else:
                return None
        if isinstance(helper, ast.AsyncFunctionDef):
            return None
        a = helper.args
        if a.vararg or a.kwarg:
            return None
        if any(isinstance(x, ast.Starred) for x in call.args) or any(k.arg is None for k in call.keywords):
            return None
        h = self._orig[id(helper)]
        if sum(1 for _ in ast.walk(h) if isinstance(_, ast.stmt)) > MAX_HELPER_STMTS:
            return None
        if any(isinstance(n, _FUNC + (ast.ClassDef,)) for n in _walk_own(h)):
            return None  # closures inside the helper: leave it
        if "staticmethod" in kinds:
            recv = None
            return h, ("<static>")  # type: ignore[return-value]
        if isinstance(f, ast.Name):
            return h, ("<static>")  # type: ignore[return-value]
        if recv is None and isinstance(f, ast.Attribute):
            # ClassName._h(x, ...) : unbound call, first argument is self
            return h, ("<static>")  # type: ignore[return-value]
        return h, recv

    # -- binding
    def _bind(self, helper: ast.FunctionDef, recv, call: ast.Call, caller_names: set[str], at: ast.AST):
        """-> (prelude statements, substitution, renames)."""
        a = helper.args
        params = [x.arg for x in a.posonlyargs + a.args]
        kwonly = [x.arg for x in a.kwonlyargs]
        defaults: dict[str, ast.AST] = {}
        for p, d in zip(reversed(params), reversed(a.defaults)):
            defaults[p] = d
        for p, d in zip(kwonly, a.kw_defaults):
            if d is not None:
                defaults[p] = d
        bound: dict[str, ast.AST] = {}
        pos = list(params)
        if recv != "<static>":
            if not pos:
                raise _Refuse
            bound[pos.pop(0)] = recv
        if len(call.args) > len(pos):
            raise _Refuse
        for p, v in zip(pos, call.args):
            bound[p] = v
        for k in call.keywords:
            if k.arg in bound or k.arg not in params + kwonly:
                raise _Refuse
            bound[k.arg] = k.value
        for p in params + kwonly:
            if p not in bound:
                if p in defaults:
                    bound[p] = defaults[p]
                else:
                    raise _Refuse
        assigned = set()
        for n in _walk_own(helper):
            if isinstance(n, ast.Name) and isinstance(n.ctx, (ast.Store, ast.Del)):
                assigned.add(n.id)
            elif isinstance(n, ast.ExceptHandler) and n.name:
                assigned.add(n.name)
        helper_locals = (_bound_names(helper) - set(params) - set(kwonly))
        renames: dict[str, str] = {}
        taken = set(caller_names) | _all_names(helper)
        for loc in sorted(helper_locals):
            if loc in caller_names:
                self.counter += 1
                new = "%s__i%d" % (loc, self.counter)
                while new in taken:
                    self.counter += 1
                    new = "%s__i%d" % (loc, self.counter)
                renames[loc] = new
                taken.add(new)
        exprs: dict[str, ast.AST] = {}
        prelude: list[ast.stmt] = []
        # names the substituted expressions mention must not be rebound by the helper body
        for p in params + kwonly:
            v = bound[p]
            mentions = {n.id for n in ast.walk(v) if isinstance(n, ast.Name)}
            called = isinstance(v, ast.Constant) and any(
                isinstance(n, ast.Call) and isinstance(n.func, ast.Name) and n.func.id == p for n in ast.walk(helper))
            if _simple_expr(v) and not called and p not in assigned and not (mentions & (helper_locals - set(renames))):
                exprs[p] = v
            else:
                name = p
                if name in caller_names or name in renames.values():
                    self.counter += 1
                    name = "%s__i%d" % (p, self.counter)
                    while name in taken:
                        self.counter += 1
                        name = "%s__i%d" % (p, self.counter)
                    taken.add(name)
                    renames[p] = name
                tgt = ast.Name(id=name, ctx=ast.Store())
                st = ast.Assign(targets=[tgt], value=copy.deepcopy(v), lineno=at.lineno, col_offset=at.col_offset)
                ast.copy_location(tgt, at)
                ast.copy_location(st, at)
                prelude.append(st)
        if _has_shadowing_scope(helper.body, set(exprs) | set(renames)):
            raise _Refuse
        return prelude, exprs, renames

    def _instantiate(self, helper: ast.FunctionDef, recv, call: ast.Call, caller_names: set[str], at: ast.AST):
        prelude, exprs, renames = self._bind(helper, recv, call, caller_names, at)
        body = [copy.deepcopy(s) for s in _body_wo_doc(helper)]
        sub = _Subst(exprs, renames)
        body = [sub.visit(s) for s in body]
        return prelude, body

    # -- return handling
    @staticmethod
    def _returns_only_in_tail(stmts: list[ast.stmt]) -> bool:
        """After elsification every `return` is the last statement of a block that is itself in tail position."""

        def ok(block: list[ast.stmt], tail: bool) -> bool:
            for i, st in enumerate(block):
                last = tail and i == len(block) - 1
                if isinstance(st, ast.Return):
                    if not last:
                        return False
                elif isinstance(st, ast.If):
                    if not ok(st.body, last) or not ok(st.orelse, last):
                        return False
                elif isinstance(st, ast.With):
                    if not ok(st.body, last):
                        return False
                elif isinstance(st, ast.Try) and last and not st.finalbody:
                    # try: ...return X / except E: ...return Y   as the last statement: the returns end the helper either way
                    if not ok(st.body, not st.orelse) or not ok(st.orelse, True) or not all(ok(h.body, True) for h in st.handlers):
                        return False
                else:
                    if any(isinstance(n, ast.Return) for n in _walk_own(st)) or isinstance(st, ast.Return):
                        return False
            return True

        return ok(stmts, True)

    def _convert_returns(self, stmts: list[ast.stmt], target: Optional[ast.AST]) -> list[ast.stmt]:
        """Tail `return e` -> `target = e` (or the bare expression statement / nothing)."""
        out: list[ast.stmt] = []
        for st in stmts:
            if isinstance(st, ast.Return):
                if target is not None:
                    val = st.value if st.value is not None else ast.copy_location(ast.Constant(value=None), st)
                    t = copy.deepcopy(target)
                    for n in ast.walk(t):
                        if hasattr(n, "ctx"):
                            n.ctx = ast.Store()
                    out.append(ast.copy_location(ast.Assign(targets=[t], value=val, lineno=st.lineno, col_offset=st.col_offset), st))
                elif st.value is not None and not isinstance(st.value, (ast.Constant, ast.Name)):
                    out.append(ast.copy_location(ast.Expr(value=st.value), st))
                else:
                    out.append(ast.copy_location(ast.Pass(), st))
            elif isinstance(st, ast.If):
                st.body = self._convert_returns(st.body, target)
                st.orelse = self._convert_returns(st.orelse, target)
                out.append(st)
            elif isinstance(st, ast.With):
                st.body = self._convert_returns(st.body, target)
                out.append(st)
            elif isinstance(st, ast.Try) and st is stmts[-1] and not st.finalbody:
                st.body = self._convert_returns(st.body, target)
                st.orelse = self._convert_returns(st.orelse, target) if st.orelse else st.orelse
                for h in st.handlers:
                    h.body = self._convert_returns(h.body, target)
                out.append(st)
            else:
                out.append(st)
        # drop a trailing Pass that is not alone
        while len(out) > 1 and isinstance(out[-1], ast.Pass):
            out.pop()
        return out

    # -- statement-level inlining
    def _splice_value(self, call: ast.Call, cls, caller_names, at, target: Optional[ast.AST], tail_return: bool) -> Optional[list[ast.stmt]]:
        r = self.resolve(call, cls)
        if r is None:
            return None
        helper, recv = r
        if _is_generator(helper):
            return None
        try:
            prelude, body = self._instantiate(helper, recv, call, caller_names, at)
        except _Refuse:
            return None
        if tail_return:
            # `return h(..)`: the helper's returns are the caller's; falling off the end returns None as well
            if not _terminates(body):
                body = body + [ast.copy_location(ast.Return(value=None), at)]
            self.inlined_helpers.add(helper.name)
            return prelude + body
        body = _elsify_block(body)
        if not self._returns_only_in_tail(body):
            return None
        if target is not None and not _terminates(body):
            # some path falls off the end: the value is None there
            t = copy.deepcopy(target)
            for n in ast.walk(t):
                if hasattr(n, "ctx"):
                    n.ctx = ast.Store()
            init = ast.copy_location(ast.Assign(targets=[t], value=ast.copy_location(ast.Constant(value=None), at), lineno=at.lineno, col_offset=at.col_offset), at)
            prelude = prelude + [init]
        body = self._convert_returns(body, target)
        self.inlined_helpers.add(helper.name)
        return prelude + (body or [ast.copy_location(ast.Pass(), at)])

    def _splice_generator(self, call: ast.Call, cls, caller_names, at, loop: Optional[ast.For], tail: bool) -> Optional[list[ast.stmt]]:
        r = self.resolve(call, cls)
        if r is None:
            return None
        helper, recv = r
        if not _is_generator(helper):
            return None
        try:
            prelude, body = self._instantiate(helper, recv, call, caller_names, at)
        except _Refuse:
            return None
        has_return = any(isinstance(n, ast.Return) for st in body for n in [st] + list(_walk_own(st)))
        if has_return:
            if loop is None and tail:
                pass  # `yield from h()` as the last statement of a generator: returns coincide
            else:
                body = _elsify_block(body)
                if not self._returns_only_in_tail(body):
                    return None
                body = self._convert_returns(body, None)
        if loop is None:
            self.inlined_helpers.add(helper.name)
            return prelude + body
        # for T in h(): BODY
        if loop.orelse:
            return None
        for n in loop.body:
            for m in [n] + list(_walk_loop_level(n)):
                if isinstance(m, (ast.Break, ast.Continue)):
                    return None
        sites = 0
        for st in body:
            for n in [st] + list(_walk_own(st)):
                if isinstance(n, (ast.Yield, ast.YieldFrom)):
                    sites += 1
        if sites == 0 or sites > 3:
            return None
        ok = [True]

        def conv(block: list[ast.stmt]) -> list[ast.stmt]:
            out: list[ast.stmt] = []
            for st in block:
                if isinstance(st, ast.Expr) and isinstance(st.value, ast.Yield):
                    val = st.value.value if st.value.value is not None else ast.copy_location(ast.Constant(value=None), st)
                    tgt = copy.deepcopy(loop.target)
                    out.extend(_destructure(tgt, val, st))
                    out.extend(copy.deepcopy(s) for s in loop.body)
                    continue
                if isinstance(st, ast.Expr) and isinstance(st.value, ast.YieldFrom):
                    f = ast.For(target=copy.deepcopy(loop.target), iter=st.value.value, body=[copy.deepcopy(s) for s in loop.body], orelse=[], lineno=st.lineno, col_offset=st.col_offset)
                    out.append(ast.copy_location(f, st))
                    continue
                if any(isinstance(n, (ast.Yield, ast.YieldFrom)) for n in ast.walk(st) if n is not st) and not isinstance(st, (ast.If, ast.For, ast.While, ast.With, ast.Try)):
                    ok[0] = False
                for f in ("body", "orelse", "finalbody"):
                    v = getattr(st, f, None)
                    if isinstance(v, list) and v and isinstance(v[0], ast.stmt):
                        setattr(st, f, conv(v))
                for h in getattr(st, "handlers", []) or []:
                    h.body = conv(h.body)
                # a yield in the test / iterable expressions
                for f in ("test", "iter"):
                    v = getattr(st, f, None)
                    if v is not None and any(isinstance(n, (ast.Yield, ast.YieldFrom)) for n in ast.walk(v)):
                        ok[0] = False
                out.append(st)
            return out

        new = conv(body)
        if not ok[0]:
            return None
        self.inlined_helpers.add(helper.name)
        return prelude + new

    def _expr_like(self, call: ast.Call, cls, caller_names, at, record: bool = False) -> Optional[ast.AST]:
        r = self.resolve(call, cls)
        if r is None:
            return None
        helper, recv = r
        body = _body_wo_doc(helper)
        if len(body) != 1 or not isinstance(body[0], ast.Return) or body[0].value is None or _is_generator(helper):
            return None
        try:
            prelude, exprs, renames = self._bind(helper, recv, call, caller_names, at)
        except _Refuse:
            return None
        if prelude:
            return None  # arguments that are not simple: do not duplicate or reorder their evaluation
        e = copy.deepcopy(body[0].value)
        if record:
            self.inlined_helpers.add(helper.name)
        return _Subst(exprs, renames).visit(e)

    def transform_function(self, fn: ast.FunctionDef, cls: Optional[str]) -> None:
        for _ in range(MAX_DEPTH):
            before = self.n_inlined
            caller_names = _all_names(fn)
            fn.body = self._block(fn.body, cls, caller_names, tail=True, is_gen=_is_generator(fn), self_name=fn.name)
            if self.n_inlined == before:
                break

    def _block(self, stmts: list[ast.stmt], cls, names: set[str], tail: bool, is_gen: bool, self_name: str) -> list[ast.stmt]:
        out: list[ast.stmt] = []
        for i, st in enumerate(stmts):
            last = tail and i == len(stmts) - 1
            rep = self._stmt(st, cls, names, last, is_gen, self_name)
            if rep is not None:
                self.n_inlined += 1
                out.extend(rep)
                continue
            # recurse into compound statements
            if isinstance(st, _FUNC + (ast.ClassDef,)):
                out.append(st)
                continue
            for f in ("body", "orelse", "finalbody"):
                v = getattr(st, f, None)
                if isinstance(v, list) and v and isinstance(v[0], ast.stmt):
                    inner_tail = last and isinstance(st, (ast.If, ast.With)) and f in ("body", "orelse")
                    setattr(st, f, self._block(v, cls, names, inner_tail, is_gen, self_name))
            for h in getattr(st, "handlers", []) or []:
                h.body = self._block(h.body, cls, names, False, is_gen, self_name)
            for c in getattr(st, "cases", []) or []:
                c.body = self._block(c.body, cls, names, last, is_gen, self_name)
            # expression-like helpers anywhere in the statement's own expressions
            self._exprs(st, cls, names, self_name)
            out.append(st)
        return out

    def _is_self_call(self, call: ast.Call, self_name: str) -> bool:
        f = call.func
        return (isinstance(f, ast.Name) and f.id == self_name) or (isinstance(f, ast.Attribute) and f.attr == self_name)

    def _stmt(self, st: ast.stmt, cls, names, last: bool, is_gen: bool, self_name: str) -> Optional[list[ast.stmt]]:
        if isinstance(st, ast.Expr) and isinstance(st.value, ast.Call) and not self._is_self_call(st.value, self_name):
            return self._splice_value(st.value, cls, names, st, None, False)
        if isinstance(st, ast.Expr) and isinstance(st.value, ast.YieldFrom) and isinstance(st.value.value, ast.Call) and not self._is_self_call(st.value.value, self_name):
            return self._splice_generator(st.value.value, cls, names, st, None, last)
        if isinstance(st, ast.Assign) and len(st.targets) == 1 and isinstance(st.value, ast.Call) and not self._is_self_call(st.value, self_name):
            t = st.targets[0]
            if isinstance(t, (ast.Name, ast.Tuple, ast.Attribute)):
                # the target must not be read by the arguments after being (re)initialised: handled by binding order
                return self._splice_value(st.value, cls, names, st, t, False)
        if isinstance(st, ast.AnnAssign) and st.value is not None and isinstance(st.value, ast.Call) and isinstance(st.target, ast.Name) and not self._is_self_call(st.value, self_name):
            return self._splice_value(st.value, cls, names, st, st.target, False)
        if isinstance(st, ast.Return) and isinstance(st.value, ast.Call) and not is_gen and not self._is_self_call(st.value, self_name):
            return self._splice_value(st.value, cls, names, st, None, True)
        if isinstance(st, ast.For) and isinstance(st.iter, ast.Call) and not self._is_self_call(st.iter, self_name):
            return self._splice_generator(st.iter, cls, names, st, st, False)
        if isinstance(st, (ast.Expr, ast.Assign, ast.AugAssign, ast.AnnAssign, ast.Return)) and not is_gen:
            # one helper call somewhere inside a simple statement, evaluated before every other call of the statement
            # (the other calls are the ones it is an argument of): x.append(self._h(a)) -> t = self._h(a); x.append(t)
            anc: dict[int, ast.AST] = {}
            for n in ast.walk(st):
                for ch in ast.iter_child_nodes(n):
                    anc[id(ch)] = n
            calls = [n for n in ast.walk(st) if isinstance(n, ast.Call)]
            cands = [c for c in calls if not self._is_self_call(c, self_name) and self.resolve(c, cls) is not None
                     and self._expr_like(c, cls, names, st) is None]
            if len(cands) == 1 and anc.get(id(cands[0])) is not st and not isinstance(anc.get(id(cands[0])), (ast.Lambda, ast.GeneratorExp, ast.ListComp, ast.SetComp, ast.DictComp, ast.IfExp, ast.BoolOp)):
                call = cands[0]
                up: set[int] = set()
                x = anc.get(id(call))
                inside_lazy = False
                while x is not None and x is not st:
                    up.add(id(x))
                    if isinstance(x, (ast.Lambda, ast.GeneratorExp, ast.ListComp, ast.SetComp, ast.DictComp, ast.IfExp, ast.BoolOp)):
                        inside_lazy = True
                    x = anc.get(id(x))
                if not inside_lazy and all(c is call or id(c) in up for c in calls) and not any(isinstance(n, (ast.Yield, ast.YieldFrom, ast.Await, ast.NamedExpr)) for n in ast.walk(st)):
                    self.counter += 1
                    tmp = "__inl_t%d" % self.counter
                    tgt = ast.copy_location(ast.Name(id=tmp, ctx=ast.Store()), call)
                    pre = self._splice_value(call, cls, names | {tmp}, st, tgt, False)
                    if pre is not None:
                        par = anc[id(call)]
                        load = ast.copy_location(ast.Name(id=tmp, ctx=ast.Load()), call)
                        for f, v in ast.iter_fields(par):
                            if v is call:
                                setattr(par, f, load)
                            elif isinstance(v, list):
                                for k, item in enumerate(v):
                                    if item is call:
                                        v[k] = load
                        return pre + [st]
        if isinstance(st, ast.If):
            # if h(..): / if not h(..): / if h(..) <op> x:   with a helper that is not expression-like -> hoist
            t = st.test
            holder = None
            if isinstance(t, ast.Call):
                holder = ("test", None)
                call = t
            elif isinstance(t, ast.UnaryOp) and isinstance(t.op, ast.Not) and isinstance(t.operand, ast.Call):
                holder = ("operand", t)
                call = t.operand
            elif isinstance(t, ast.Compare) and isinstance(t.left, ast.Call):
                holder = ("left", t)
                call = t.left
            else:
                return None
            if self._is_self_call(call, self_name) or self._expr_like(call, cls, names, st) is not None:
                return None
            self.counter += 1
            tmp = "__inl_t%d" % self.counter
            tgt = ast.copy_location(ast.Name(id=tmp, ctx=ast.Store()), call)
            pre = self._splice_value(call, cls, names | {tmp}, st, tgt, False)
            if pre is None:
                return None
            load = ast.copy_location(ast.Name(id=tmp, ctx=ast.Load()), call)
            if holder[0] == "test":
                st.test = load
            else:
                setattr(holder[1], holder[0], load)
            return pre + [st]
        return None

    def _exprs(self, st: ast.stmt, cls, names, self_name: str) -> None:
        outer = self

        class T(ast.NodeTransformer):
            def visit_Call(self, node: ast.Call):
                self.generic_visit(node)
                if outer._is_self_call(node, self_name):
                    return node
                e = outer._expr_like(node, cls, names, node, record=True)
                if e is not None:
                    outer.n_inlined += 1
                    return e
                return node

            def visit_FunctionDef(self, node):
                return node

            visit_AsyncFunctionDef = visit_FunctionDef
            visit_ClassDef = visit_FunctionDef
            visit_Lambda = visit_FunctionDef

        # only the statement's own expressions (not nested statement lists)
        for f, v in ast.iter_fields(st):
            if f in ("body", "orelse", "finalbody", "handlers", "cases"):
                continue
            if isinstance(v, ast.AST):
                setattr(st, f, T().visit(v))
            elif isinstance(v, list):
                setattr(st, f, [T().visit(x) if isinstance(x, ast.AST) else x for x in v])


def _destructure(tgt: ast.AST, val: ast.AST, at: ast.AST) -> list[ast.stmt]:
    """`tgt = val`, element by element where both sides are tuples of the same shape and no target is read by a later value."""
    if isinstance(tgt, (ast.Tuple, ast.List)) and isinstance(val, (ast.Tuple, ast.List)) and len(tgt.elts) == len(val.elts) \
            and not any(isinstance(x, ast.Starred) for x in list(tgt.elts) + list(val.elts)):
        tn = {n.id for n in ast.walk(tgt) if isinstance(n, ast.Name)}
        vn = {n.id for n in ast.walk(val) if isinstance(n, ast.Name)}
        if not (tn & vn):
            out: list[ast.stmt] = []
            for t, v in zip(tgt.elts, val.elts):
                out.extend(_destructure(t, v, at))
            return out
    return [ast.copy_location(ast.Assign(targets=[tgt], value=val, lineno=at.lineno, col_offset=at.col_offset), at)]


def _walk_loop_level(node: ast.AST):
    """Nodes under `node` that belong to the same loop level (not inside a nested loop or def)."""
    stack = list(ast.iter_child_nodes(node))
    while stack:
        n = stack.pop()
        yield n
        if isinstance(n, _FUNC + (ast.ClassDef, ast.Lambda, ast.For, ast.While, ast.AsyncFor)):
            continue
        stack.extend(ast.iter_child_nodes(n))


# ------------------------------------------------------------------------------------------------------------ untable
def _module_tables(tree: ast.Module) -> dict[str, list[tuple[ast.Constant, ast.AST]]]:
    """Module-level `NAME = {const: function, ...}` that the module only reads."""
    cands: dict[str, list[tuple[ast.Constant, ast.AST]]] = {}
    for st in tree.body:
        tgt = val = None
        if isinstance(st, ast.Assign) and len(st.targets) == 1 and isinstance(st.targets[0], ast.Name):
            tgt, val = st.targets[0].id, st.value
        elif isinstance(st, ast.AnnAssign) and isinstance(st.target, ast.Name) and st.value is not None:
            tgt, val = st.target.id, st.value
        if tgt and isinstance(val, ast.Dict) and val.keys and all(isinstance(k, ast.Constant) for k in val.keys) \
                and all(isinstance(v, (ast.Name, ast.Attribute, ast.Constant)) for v in val.values):
            cands[tgt] = list(zip(val.keys, val.values))  # type: ignore[arg-type]
    if not cands:
        return {}
    stores: dict[str, int] = {}
    for n in ast.walk(tree):
        if isinstance(n, ast.Name) and n.id in cands and isinstance(n.ctx, (ast.Store, ast.Del)):
            stores[n.id] = stores.get(n.id, 0) + 1
        elif isinstance(n, ast.Subscript) and isinstance(n.value, ast.Name) and n.value.id in cands and isinstance(n.ctx, (ast.Store, ast.Del)):
            stores[n.value.id] = 99
        elif isinstance(n, ast.Attribute) and isinstance(n.value, ast.Name) and n.value.id in cands and n.attr not in ("get", "keys", "values", "items", "__contains__", "__getitem__"):
            stores[n.value.id] = 99
        elif isinstance(n, ast.Global) and any(x in cands for x in n.names):
            for x in n.names:
                stores[x] = 99
    return {k: v for k, v in cands.items() if stores.get(k, 0) == 1}


def _keyish(e: ast.AST) -> bool:
    return isinstance(e, (ast.Name, ast.Constant)) or (isinstance(e, ast.Attribute) and _chain_root(e) is not None)


def _table_lookup(e: ast.AST, tables) -> Optional[tuple[str, ast.AST]]:
    """`TABLE[k]` / `TABLE.get(k)` -> (TABLE, k)."""
    if isinstance(e, ast.Subscript) and isinstance(e.value, ast.Name) and e.value.id in tables and _keyish(e.slice):
        return e.value.id, e.slice
    if isinstance(e, ast.Call) and isinstance(e.func, ast.Attribute) and e.func.attr == "get" and isinstance(e.func.value, ast.Name) \
            and e.func.value.id in tables and len(e.args) == 1 and not e.keywords and _keyish(e.args[0]):
        return e.func.value.id, e.args[0]
    return None


def _untable_function(fn: ast.FunctionDef, tables) -> int:
    binds: dict[str, tuple[str, ast.AST]] = {}
    nstores: dict[str, int] = {}
    for n in _walk_own(fn):
        if isinstance(n, ast.Name) and isinstance(n.ctx, (ast.Store, ast.Del)):
            nstores[n.id] = nstores.get(n.id, 0) + 1
    for n in _walk_own(fn):
        if isinstance(n, ast.Assign) and len(n.targets) == 1 and isinstance(n.targets[0], ast.Name):
            lk = _table_lookup(n.value, tables)
            if lk is not None and nstores.get(n.targets[0].id) == 1:
                key_names = {x.id for x in ast.walk(lk[1]) if isinstance(x, ast.Name)}
                if not any(nstores.get(k, 0) > 0 for k in key_names if k != "self") or all(nstores.get(k, 0) <= 1 for k in key_names):
                    binds[n.targets[0].id] = lk
    done = [0]

    def dispatch_of(call: ast.Call) -> Optional[tuple[str, ast.AST]]:
        if isinstance(call.func, ast.Name) and call.func.id in binds:
            return binds[call.func.id]
        return _table_lookup(call.func, tables)

    def rewrite(block: list[ast.stmt]) -> list[ast.stmt]:
        out: list[ast.stmt] = []
        for st in block:
            if isinstance(st, _FUNC + (ast.ClassDef,)):
                out.append(st)
                continue
            for f in ("body", "orelse", "finalbody"):
                v = getattr(st, f, None)
                if isinstance(v, list) and v and isinstance(v[0], ast.stmt):
                    setattr(st, f, rewrite(v))
            for h in getattr(st, "handlers", []) or []:
                h.body = rewrite(h.body)
            if isinstance(st, (ast.Expr, ast.Return, ast.Assign, ast.AugAssign, ast.AnnAssign)):
                calls = [n for n in ast.walk(st) if isinstance(n, ast.Call) and dispatch_of(n) is not None]
                if len(calls) == 1:
                    tname, key = dispatch_of(calls[0])  # type: ignore[misc]
                    chain: Optional[ast.If] = None
                    last: Optional[ast.If] = None
                    for k, fnexpr in tables[tname]:
                        arm = copy.deepcopy(st)
                        for n in ast.walk(arm):
                            if isinstance(n, ast.Call) and ast.dump(n) == ast.dump(calls[0]):
                                n.func = copy.deepcopy(fnexpr)
                                break
                        test = ast.copy_location(ast.Compare(left=copy.deepcopy(key), ops=[ast.Eq()], comparators=[copy.deepcopy(k)]), st)
                        node = ast.copy_location(ast.If(test=test, body=[arm], orelse=[]), st)
                        if chain is None:
                            chain = node
                        else:
                            last.orelse = [node]  # type: ignore[union-attr]
                        last = node
                    last.orelse = [st]  # type: ignore[union-attr]
                    out.append(chain)  # type: ignore[arg-type]
                    done[0] += 1
                    continue
            out.append(st)
        return out

    fn.body = rewrite(fn.body)
    return done[0]


# -------------------------------------------------------------------------------------------------------------- driver
def ambiguous_method_names(trees: dict[str, ast.Module]) -> set[str]:
    """Method names defined by more than one class of the package: `self._m()` may reach an override."""
    seen: dict[str, int] = {}
    for t in trees.values():
        for n in ast.walk(t):
            if isinstance(n, ast.ClassDef):
                for m in n.body:
                    if isinstance(m, _FUNC):
                        seen[m.name] = seen.get(m.name, 0) + 1
    return {k for k, v in seen.items() if v > 1}


def _each_function(tree: ast.Module):
    """(function, enclosing class name or None), outermost functions and methods (nested defs are reached through them)."""
    for st in tree.body:
        if isinstance(st, _FUNC):
            yield st, None
        elif isinstance(st, ast.ClassDef):
            for m in st.body:
                if isinstance(m, _FUNC):
                    yield m, st.name


def private_refs(tree: ast.Module) -> set[str]:
    """Private names a module mentions (as a name or as an attribute), for `_drop_dead_helpers`."""
    out = set()
    for n in ast.walk(tree):
        if isinstance(n, ast.Attribute) and n.attr.startswith("_"):
            out.add(n.attr)
        elif isinstance(n, ast.Name) and n.id.startswith("_"):
            out.add(n.id)
        elif isinstance(n, ast.alias) and n.name.split(".")[-1].startswith("_"):
            out.add(n.name.split(".")[-1])
        elif isinstance(n, ast.Constant) and isinstance(n.value, str) and n.value.startswith("_") and n.value.isidentifier():
            out.add(n.value)  # getattr(x, "_name"), __all__
    return out


def _drop_dead_helpers(tree: ast.Module, inl: "Inliner", external_refs: dict[str, set[str]], module_name: str) -> int:
    """A private helper whose every call was inlined is dead code in the view: rules that look at every function of a class
    would otherwise judge the helper's body without its callers' guards, which is not how it ever runs."""
    inlined_names = inl.inlined_helpers
    if not inlined_names:
        return 0
    dropped = 0

    def refs_outside(name: str, own: ast.AST) -> bool:
        mangled = name.startswith("__")
        for n in ast.walk(tree):
            if n is own:
                continue
            if isinstance(n, ast.Attribute) and (n.attr == name or (mangled and n.attr.endswith(name) and n.attr.startswith("_"))):
                if not _inside(n, own):
                    return True
            elif isinstance(n, ast.Name) and n.id == name and not _inside(n, own):
                return True
            elif isinstance(n, ast.Constant) and n.value == name:
                return True
        return False

    own_nodes_cache: dict[int, set[int]] = {}

    def _inside(n: ast.AST, fn: ast.AST) -> bool:
        s = own_nodes_cache.get(id(fn))
        if s is None:
            s = own_nodes_cache[id(fn)] = {id(x) for x in ast.walk(fn)}
        return id(n) in s

    for holder in [tree] + [c for c in tree.body if isinstance(c, ast.ClassDef)]:
        keep = []
        for st in holder.body:
            if isinstance(st, ast.FunctionDef) and st.name in inlined_names and Inliner._private(st.name):
                ext = external_refs.get(st.name, set()) - {module_name}
                if not (ext and not st.name.startswith("__")) and not refs_outside(st.name, st):
                    dropped += 1
                    continue
            keep.append(st)
        if keep:
            holder.body = keep
    return dropped


def transform(tree: ast.Module, kind: str, ambiguous: set[str], external_refs: Optional[dict[str, set[str]]] = None, module_name: str = "") -> tuple[ast.Module, dict]:
    """A rewritten deep copy of `tree`; the second value counts what was rewritten."""
    new = copy.deepcopy(tree)
    stats = {"inlined_calls": 0, "functions_changed": 0}
    for step in _PIPE[kind]:
        if step == "quiet":
            new = _Quiet().visit(new)
            if any(isinstance(n, ast.Match) for n in ast.walk(new)):
                new = _Unmatch().visit(new)
        elif step == "inline":
            inl = Inliner(new, ambiguous, module_name)
            for fn, cls in _each_function(new):
                if isinstance(fn, ast.FunctionDef):
                    _CUR_CLASS[0] = cls
                    inl.transform_function(fn, cls)
            _CUR_CLASS[0] = None
            stats["inlined_calls"] += inl.n_inlined
            stats["helpers_dropped"] = _drop_dead_helpers(new, inl, external_refs or {}, module_name)
        elif step == "copyprop":
            for fn, _cls in _each_function(new):
                if isinstance(fn, ast.FunctionDef):
                    _CUR_CLASS[0] = _cls
                    _copyprop_function(fn)
            _CUR_CLASS[0] = None
        elif step == "fold":
            folder = _Fold()
            folder.tables = dict(_module_tables(new))
            # constant tables of the private modules this one imports functions from (their bodies may have been inlined)
            if PACKAGE_TREES and module_name:
                for st in new.body:
                    if isinstance(st, ast.ImportFrom):
                        for cand in PACKAGE_TREES:
                            if cand.split(".")[-1].startswith("_") and not cand.split(".")[-1].startswith("__") and st.module and cand.endswith(st.module.lstrip(".")):
                                for k, v in _module_tables(PACKAGE_TREES[cand]).items():
                                    folder.tables.setdefault(k, v)
            new = folder.visit(new)
        elif step == "untable":
            tables = {k: v for k, v in _module_tables(new).items() if all(isinstance(x, (ast.Name, ast.Attribute)) for _k, x in v)}
            if tables:
                for fn, _cls in _each_function(new):
                    if isinstance(fn, ast.FunctionDef):
                        stats["untabled"] = stats.get("untabled", 0) + _untable_function(fn, tables)
        elif step == "elsify":
            for fn, _cls in _each_function(new):
                fn.body = _elsify_block(fn.body)
        elif step == "guardify":
            for fn, _cls in _each_function(new):
                fn.body = _guardify_block(fn.body)
    ast.fix_missing_locations(new)
    return new, stats
