"""Helpers of check C01 (rules n - s): the Graph classes seen as a family.

* graph_classes / resolve: every class whose (mypy) MRO contains rdflib.graph.Graph, and the definition a method name resolves to
  through that MRO (class-level aliases `__len__ = Graph.__len__` are followed).
* store_writes: what a method hands to the store when it adds (context expression, quoted flag), for `store.add(...)` and
  `store.addN(<comprehension of quads>)`.
* ctx_kind: where a context expression comes from - the receiving graph (`self`), a value resolved by a method of self, or an object
  taken as it is out of the caller's triple / quad.
* derived_names: local names whose value (transitively, flow-insensitively) comes from reading `self` / `super()`.

and (rules a, b, d, h) the in-memory stores seen through the values that reach their subscripts:

* StoreFlow: what a method of a store class - and the methods of the class it calls - writes to / deletes from / files in which
  level of which attribute of self, keyed by which component of the triple (index_orders: the three indexes declared by add()).
* PatternInterp: triples() interpreted once per bound/unbound pattern shape, on values instead of variable names.
* context_key_methods / class_callee / unsnap: the anchors these two share, found by role from the public entry points.
"""
from __future__ import annotations

import ast
from typing import Iterator, Optional

from .core import AnalysisError, Module, Repo, norm, own_nodes

GRAPH = "rdflib.graph.Graph"
STORE = "rdflib.store.Store"


# --------------------------------------------------------------------------- the family


def graph_classes(repo: Repo) -> list[tuple[str, Module, str]]:
    """(full name, module, qualified name inside the module) of Graph and each of its subclasses, base classes first"""
    T = repo.typed
    out = []
    for full in T.subclasses(GRAPH):
        d = T.classes[full]
        mn = d["module"]
        if mn not in repo.modules:
            continue
        out.append((len(d["mro"]), full, repo.mod(mn), full[len(mn) + 1:]))
    out.sort(key=lambda x: (x[0], x[1]))
    if not any(f == GRAPH for _, f, _, _ in out):
        raise AnalysisError("anchor vanished: class %s" % GRAPH)
    return [(f, m, q) for _, f, m, q in out]


def own_method(mod: Module, cls_q: str, name: str, repo: Repo, _depth: int = 0) -> Optional[tuple[Module, str, ast.FunctionDef]]:
    """the FunctionDef that `name` is bound to in the body of class cls_q: a def, or an alias `name = Other.name2` (followed)"""
    if not mod.has(cls_q) or _depth > 4:
        return None
    c = mod.cls(cls_q)
    found = None
    for st in c.body:
        if isinstance(st, (ast.FunctionDef, ast.AsyncFunctionDef)) and st.name == name:
            if found is not None and any(norm(d).endswith("overload") for d in st.decorator_list):
                continue
            found = (mod, cls_q + "." + name, st)
        elif isinstance(st, ast.Assign) and any(isinstance(t, ast.Name) and t.id == name for t in st.targets) \
                and isinstance(st.value, ast.Attribute) and isinstance(st.value.value, ast.Name):
            other = st.value.value.id
            parent = cls_q.rsplit(".", 1)[0] + "." if "." in cls_q else ""
            r = own_method(mod, parent + other, st.value.attr, repo, _depth + 1)
            if r is not None:
                found = r
    return found


def resolve(repo: Repo, full: str, name: str) -> Optional[tuple[Module, str, ast.FunctionDef]]:
    """the definition of method `name` that instances of class `full` use (first hit along the MRO)"""
    T = repo.typed
    for b in T.mro(full):
        d = T.classes.get(b)
        if not d or name not in d["defs"] or d["module"] not in repo.modules:
            continue
        m = repo.mod(d["module"])
        r = own_method(m, b[len(d["module"]) + 1:], name, repo)
        if r is not None:
            return r
    return None


def is_store(repo: Repo, mn: str, e: ast.AST) -> bool:
    tf = repo.typed.type_of(mn, e)
    return tf is not None and any(STORE in repo.typed.mro(c) for c in tf.items)


def is_graph(repo: Repo, mn: str, e: ast.AST) -> bool:
    tf = repo.typed.type_of(mn, e)
    return tf is not None and any(GRAPH in repo.typed.mro(c) for c in tf.items)


def store_calls(repo: Repo, mod: Module, fn: ast.AST, names: tuple) -> Iterator[ast.Call]:
    """calls `<expr of static type Store>.<name>(...)` in fn (nested defs excluded)"""
    for n in own_nodes(fn):
        if isinstance(n, ast.Call) and isinstance(n.func, ast.Attribute) and n.func.attr in names and is_store(repo, mod.name, n.func.value):
            yield n


def self_name(fn: ast.FunctionDef) -> Optional[str]:
    a = fn.args.posonlyargs + fn.args.args
    return a[0].arg if a else None


def param_names(fn: ast.FunctionDef) -> set:
    a = fn.args
    out = {x.arg for x in a.posonlyargs + a.args + a.kwonlyargs}
    if a.vararg:
        out.add(a.vararg.arg)
    if a.kwarg:
        out.add(a.kwarg.arg)
    return out


# --------------------------------------------------------------------------- what add / addN hand to the store


def _arg(call: ast.Call, pos: int, kw: str) -> Optional[ast.expr]:
    for k in call.keywords:
        if k.arg == kw:
            return k.value
    return call.args[pos] if len(call.args) > pos and not any(isinstance(a, ast.Starred) for a in call.args[:pos + 1]) else None


def store_add_contract(repo: Repo) -> tuple[bool, bool]:
    """(default of Store.add's `quoted`, the flag with which Store.addN - which has no quoted parameter - adds each quad)"""
    sm = repo.mod("rdflib.store")
    addf = sm.func("Store.add")
    a = addf.args
    names = [x.arg for x in a.args]
    if "quoted" not in names:
        raise AnalysisError("Store.add has no `quoted` parameter any more")
    i = names.index("quoted") - (len(names) - len(a.defaults))
    if i < 0 or not isinstance(a.defaults[i], ast.Constant) or not isinstance(a.defaults[i].value, bool):
        raise AnalysisError("Store.add: `quoted` has no constant default")
    default = a.defaults[i].value
    addn = sm.func("Store.addN")
    if "quoted" in [x.arg for x in addn.args.args + addn.args.kwonlyargs]:
        raise AnalysisError("Store.addN has a `quoted` parameter now: the add/addN agreement rule must be re-read")
    flags = set()
    sn = self_name(addn)
    for c in own_nodes(addn):
        if isinstance(c, ast.Call) and isinstance(c.func, ast.Attribute) and c.func.attr == "add" and isinstance(c.func.value, ast.Name) and c.func.value.id == sn:
            q = _arg(c, 2, "quoted")
            if q is None:
                flags.add(default)
            elif isinstance(q, ast.Constant):
                flags.add(bool(q.value))
            else:
                raise AnalysisError("Store.addN: quoted flag %s is not a constant" % norm(q))
    if len(flags) != 1:
        raise AnalysisError("Store.addN no longer adds each quad through one self.add(...) call (found flags %s)" % sorted(flags))
    return default, flags.pop()


class Write:
    __slots__ = ("call", "via", "ctx", "quoted", "binder")

    def __init__(self, call, via, ctx, quoted, binder):
        self.call, self.via, self.ctx, self.quoted, self.binder = call, via, ctx, quoted, binder


def store_writes(repo: Repo, mod: Module, fn: ast.FunctionDef) -> list[Write]:
    """every statement added through the store by fn: the context expression and the quoted flag that reach Store.add"""
    default, addn_flag = store_add_contract(repo)
    out = []
    for c in store_calls(repo, mod, fn, ("add", "addN")):
        if c.func.attr == "add":
            q = _arg(c, 2, "quoted")
            if q is None:
                flag = default
            elif isinstance(q, ast.Constant):
                flag = bool(q.value)
            else:
                flag = None  # not a constant
            out.append(Write(c, "add", _arg(c, 1, "context"), flag, None))
        else:
            a = _arg(c, 0, "quads")
            if isinstance(a, (ast.GeneratorExp, ast.ListComp, ast.SetComp)) and isinstance(a.elt, ast.Tuple) and len(a.elt.elts) == 4:
                out.append(Write(c, "addN", a.elt.elts[3], addn_flag, a))
            else:
                # the caller's iterable (or something not built here) is handed on as it is: the contexts are the caller's objects
                out.append(Write(c, "addN", a, addn_flag, None))
    return out


def _bindings(fn: ast.FunctionDef) -> dict:
    """local name -> list of ('assign', value) / ('iter', iterable) it is bound from (tuple targets bind every name in them)"""
    b: dict = {}

    def names(t):
        return [x.id for x in ast.walk(t) if isinstance(x, ast.Name)]

    for n in own_nodes(fn):
        if isinstance(n, ast.Assign):
            for t in n.targets:
                for x in names(t):
                    b.setdefault(x, []).append(("assign", n.value))
        elif isinstance(n, ast.AnnAssign) and n.value is not None:
            for x in names(n.target):
                b.setdefault(x, []).append(("assign", n.value))
        elif isinstance(n, ast.NamedExpr):
            b.setdefault(n.target.id, []).append(("assign", n.value))
        elif isinstance(n, (ast.For, ast.comprehension)):
            for x in names(n.target):
                b.setdefault(x, []).append(("iter", n.iter))
    return b


def ctx_kind(fn: ast.FunctionDef, e: Optional[ast.expr], _seen: frozenset = frozenset()) -> str:
    """'self' - the receiving graph; 'resolved' - the result of a call on self (self._graph(c), a component of self._spoc(...));
    'raw' - an object taken as it is from a parameter (the caller's quad / iterable); 'none'; otherwise 'other'"""
    sn = self_name(fn)
    params = param_names(fn) - {sn}
    if e is None or (isinstance(e, ast.Constant) and e.value is None):
        return "none"
    if isinstance(e, ast.Name) and e.id == sn:
        return "self"
    if isinstance(e, ast.Call) and isinstance(e.func, ast.Attribute) and isinstance(e.func.value, ast.Name) and e.func.value.id == sn:
        return "resolved"
    if isinstance(e, ast.Name):
        if e.id in _seen:
            return "other"
        binds = _bindings(fn).get(e.id, [])
        kinds = set()
        for how, v in binds:
            if how == "iter":
                src = v
                while isinstance(src, ast.Call) and isinstance(src.func, ast.Name) and src.func.id in ("list", "tuple", "iter", "set", "sorted") and src.args:
                    src = src.args[0]
                kinds.add("raw" if isinstance(src, ast.Name) and src.id in params else ctx_kind(fn, src, _seen | {e.id}))
            else:
                kinds.add("raw" if isinstance(v, ast.Name) and v.id in params else ctx_kind(fn, v, _seen | {e.id}))
        if not binds and e.id in params:
            return "raw"
        if e.id in params:
            kinds.add("raw")
        if len(kinds) == 1:
            return kinds.pop()
        if "raw" in kinds:
            return "raw"
        return "other"
    if isinstance(e, ast.IfExp):
        ks = {ctx_kind(fn, e.body, _seen), ctx_kind(fn, e.orelse, _seen)}
        return ks.pop() if len(ks) == 1 else ("raw" if "raw" in ks else "other")
    if isinstance(e, (ast.Subscript, ast.Attribute)) and isinstance(_base(e), ast.Name) and _base(e).id in params:
        return "raw"
    return "other"


def _base(e: ast.AST) -> ast.AST:
    while isinstance(e, (ast.Subscript, ast.Attribute)):
        e = e.value
    return e


# --------------------------------------------------------------------------- values that come from reading the graph


def _mentions(e: ast.AST, names: set) -> bool:
    for x in ast.walk(e):
        if isinstance(x, ast.Name) and (x.id in names or x.id == "super"):
            return True
    return False


def derived_names(fn: ast.FunctionDef) -> set:
    """self, and every local name assigned / iterated (transitively) from an expression that mentions self, super() or such a name"""
    sn = self_name(fn)
    d = {sn} if sn else set()
    changed = True
    while changed:
        changed = False
        for n in own_nodes(fn):
            tg, v = [], None
            if isinstance(n, ast.Assign):
                tg, v = n.targets, n.value
            elif isinstance(n, (ast.AnnAssign, ast.AugAssign)) and n.value is not None:
                tg, v = [n.target], n.value
            elif isinstance(n, ast.NamedExpr):
                tg, v = [n.target], n.value
            elif isinstance(n, (ast.For, ast.comprehension)):
                tg, v = [n.target], n.iter
            elif isinstance(n, ast.withitem) and n.optional_vars is not None:
                tg, v = [n.optional_vars], n.context_expr
            if v is None or not _mentions(v, d):
                continue
            for t in tg:
                for x in ast.walk(t):
                    if isinstance(x, ast.Name) and x.id not in d:
                        d.add(x.id)
                        changed = True
    return d


def reads_graph_before(mod: Module, fn: ast.FunctionDef, y: ast.AST, derived: set) -> Optional[str]:
    """why the yield y only happens for something read from the graph: it sits in the body of a loop over a graph-derived iterable, or
    in the true branch of a test that mentions the graph.  None when nothing of the kind encloses it."""
    child: ast.AST = y
    for p in mod.parents(y):
        if p is fn:
            break
        if isinstance(p, (ast.For, ast.AsyncFor)) and child is not p.iter and child is not p.target and _mentions(p.iter, derived):
            return "inside `for %s in %s`" % (norm(p.target), norm(p.iter)[:60])
        if isinstance(p, ast.While) and any(child is s for s in p.body) and _mentions(p.test, derived):
            return "inside `while %s`" % norm(p.test)[:60]
        if isinstance(p, ast.If) and any(child is s for s in p.body) and _mentions(p.test, derived):
            return "under `if %s`" % norm(p.test)[:60]
        child = p
    return None


def is_generator(fn: ast.FunctionDef) -> list:
    return [n for n in own_nodes(fn) if isinstance(n, (ast.Yield, ast.YieldFrom))]


# ---------------------------------------------------------------------------------------------------------------------
# The in-memory stores (rules a, b, d, h): value flow instead of spellings.
#
# The clauses these rules stand for are about WHICH KEYS reach WHICH LEVEL of WHICH ATTRIBUTE of the store, not about how the
# statement that does it is spelled: a nested level may be reached by `v[k]`, `v.get(k)`, `v.setdefault(k, {})`, through a local
# alias (also one bound in a tuple assignment), through a chained assignment `x = v[k] = {}`, or through a private method of
# the same class that is handed the level and returns the next one.  StoreFlow evaluates a method abstractly (may-sets with
# strong updates, branches merged, calls to methods of the same class followed with the abstract arguments bound to the
# parameters) and records what it does to the levels of the attributes of self.


ROLES = ("S", "P", "O")
_SNAP_FUNCS = ("list", "tuple", "sorted", "set", "frozenset")


def unsnap(it: ast.AST) -> tuple:
    """(inner expression, True) when `it` is a materialised copy (list/tuple/sorted/set/frozenset(...), .copy()) of the inner expression"""
    snap = False
    while True:
        if isinstance(it, ast.Call) and isinstance(it.func, ast.Name) and it.func.id in _SNAP_FUNCS and len(it.args) == 1 and not it.keywords:
            it, snap = it.args[0], True
        elif isinstance(it, ast.Call) and isinstance(it.func, ast.Attribute) and it.func.attr == "copy" and not it.args:
            it, snap = it.func.value, True
        else:
            return it, snap


def _scope_bindings(root: ast.AST, pkg: Optional[str] = None) -> tuple[dict, set]:
    """(names bound by import -> dotted name, names bound in any other way) in the scope whose node is root (a module or a function): nested
    functions, lambdas and classes are scopes of their own (a comprehension target is counted here, which errs to the side of refusing)"""
    imported: dict[str, str] = {}
    other: set = set()
    if isinstance(root, (ast.FunctionDef, ast.AsyncFunctionDef, ast.Lambda)):
        a_ = root.args
        other.update(x.arg for x in a_.posonlyargs + a_.args + a_.kwonlyargs + ([a_.vararg] if a_.vararg else []) + ([a_.kwarg] if a_.kwarg else []))
    for n in own_nodes(root):
        if isinstance(n, ast.Import):
            for a in n.names:
                if a.asname:
                    imported[a.asname] = a.name
                else:
                    imported[a.name.split(".")[0]] = a.name.split(".")[0]
        elif isinstance(n, ast.ImportFrom):
            base = n.module
            if n.level:
                # relative to the package the module stands in (pkg)
                up = pkg.split(".") if pkg else []
                up = up[:len(up) - (n.level - 1)] if pkg and n.level - 1 < len(up) else []
                base = ".".join(up + ([n.module] if n.module else [])) if up else None
            for a in n.names:
                if base:
                    imported[a.asname or a.name] = base + "." + a.name
                else:
                    other.add(a.asname or a.name)
        elif isinstance(n, (ast.FunctionDef, ast.AsyncFunctionDef, ast.ClassDef)):
            other.add(n.name)
        elif isinstance(n, ast.Name) and isinstance(n.ctx, (ast.Store, ast.Del)):
            other.add(n.id)
        elif isinstance(n, ast.ExceptHandler) and n.name:
            other.add(n.name)
        elif isinstance(n, (ast.Global, ast.Nonlocal)):
            other.update(n.names)
    for k in other:
        imported.pop(k, None)
    return imported, other


class Denotes:
    """What an expression used as a callable denotes, as a dotted name, whatever the module calls it: `chain`, `itertools.chain`, `it.chain` (after
    `import itertools as it`) and `c` (after `from itertools import chain as c`) all denote 'itertools.chain'; a builtin that nothing shadows
    denotes 'builtins.<name>'.  The name is looked up in the function the expression stands in (fn), then in the module.  None when the expression
    is not a (dotted) name, or the name is bound in one of these scopes in any other way (a def, an assignment, a parameter): nothing is
    claimed about it then."""

    def __init__(self, mod: Module, fn: Optional[ast.AST] = None):
        import builtins

        self.pkg = mod.name if mod.path.name == "__init__.py" else mod.name.rpartition(".")[0]
        self.scopes = ([_scope_bindings(fn, self.pkg)] if fn is not None else []) + [_scope_bindings(mod.tree, self.pkg)]
        self.builtins = set(dir(builtins))

    def within(self, mod: Module, fn: ast.AST) -> "Denotes":
        d = Denotes.__new__(Denotes)
        d.pkg, d.scopes, d.builtins = self.pkg, [_scope_bindings(fn, self.pkg)] + self.scopes[-1:], self.builtins
        return d

    def __call__(self, e: ast.AST) -> Optional[str]:
        parts = []
        while isinstance(e, ast.Attribute):
            parts.append(e.attr)
            e = e.value
        if not isinstance(e, ast.Name):
            return None
        for imported, other in self.scopes:
            if e.id in other:
                return None
            if e.id in imported:
                return ".".join([imported[e.id]] + parts[::-1])
        if e.id in self.builtins and not parts:
            return "builtins." + e.id
        return None


def package_function(repo: Repo, mod: Module, fn: Optional[ast.AST], call: ast.AST) -> Optional[tuple[Module, ast.FunctionDef]]:
    """the module-level function of the package that `call` (standing in function fn of module mod) calls: a function of the module itself, or one
    of another module of the package under the name it was imported by (`from pkg.m import g [as h]`, `import pkg.m as x; x.g(...)`, relative
    forms).  None when the callee is anything else or the name is rebound in a scope on the way."""
    if not isinstance(call, ast.Call):
        return None
    d0 = mod.__dict__.get("_h_c01_denotes")
    if d0 is None:
        d0 = mod.__dict__["_h_c01_denotes"] = Denotes(mod)
    d = d0.within(mod, fn) if fn is not None else d0

    def top_level(m: Module, name: str) -> Optional[ast.FunctionDef]:
        hits = [st for st in m.tree.body if isinstance(st, (ast.FunctionDef, ast.AsyncFunctionDef)) and st.name == name]
        imported, other = _scope_bindings(m.tree)
        n_other = sum(1 for x in ast.walk(m.tree) if isinstance(x, ast.Name) and isinstance(x.ctx, ast.Store) and x.id == name and m.scope.get(id(x), "") == "")
        return hits[0] if len(hits) == 1 and not hits[0].decorator_list and not n_other and name not in imported else None

    f = call.func
    if isinstance(f, ast.Name) and (fn is None or f.id not in d.scopes[0][1]):
        g = top_level(mod, f.id)
        if g is not None:
            return mod, g
    dotted = d(f)
    if dotted is None or "." not in dotted:
        return None
    mn, _, name = dotted.rpartition(".")
    if mn in repo.modules:
        m2 = repo.mod(mn)
        g = top_level(m2, name)
        if g is not None:
            return m2, g
    return None


def _is_static(fn: ast.FunctionDef) -> bool:
    return any(norm(d) in ("staticmethod", "builtins.staticmethod") for d in fn.decorator_list)


def _is_classmethod(fn: ast.FunctionDef) -> bool:
    return any(norm(d) in ("classmethod", "builtins.classmethod") for d in fn.decorator_list)


def class_callee(meths: dict, cls: str, fn: ast.FunctionDef, call: ast.Call) -> Optional[tuple[str, ast.FunctionDef, int]]:
    """the method of the class that `call` (inside method fn of that class) can evaluate to, and how many leading call arguments stand
    for the receiver: self.m(..) / cls.m(..) / type(self).m(..) / self.__class__.m(..) / <Class>.m(self, ..)"""
    f = call.func
    if not (isinstance(f, ast.Attribute) and f.attr in meths):
        return None
    callee = meths[f.attr]
    sn = self_name(fn) if not _is_static(fn) else None
    recv = f.value
    if isinstance(recv, ast.Name) and sn is not None and recv.id == sn:
        return f.attr, callee, 0
    via_class = (isinstance(recv, ast.Name) and recv.id == cls.rsplit(".", 1)[-1]) \
        or (isinstance(recv, ast.Call) and isinstance(recv.func, ast.Name) and recv.func.id == "type" and len(recv.args) == 1) \
        or (isinstance(recv, ast.Attribute) and recv.attr == "__class__")
    if via_class:
        return f.attr, callee, 0 if (_is_static(callee) or _is_classmethod(callee)) else 1
    return None


def _callee_params(callee: ast.FunctionDef) -> list[str]:
    ps = [a.arg for a in callee.args.posonlyargs + callee.args.args]
    return ps if _is_static(callee) else ps[1:]


class Event:
    """something a method does to a level of an attribute of self.  kind: 'write' (subscript store / setdefault), 'del' (del v[k]), 'pop',
    'popitem', 'clear', 'rebind' (self.attr = ...), 'mut' (v.add(x) / v.remove(x) / v.discard(x): `how` is the method name, `arg` the abstract
    values of its argument), 'read' (a level was looked up), 'enumerate' (a loop over self.triples(...)).  keys: the abstract keys from the
    attribute down to the entry concerned ('S' 'P' 'O' a component of the triple, 'T' the triple, 'K' a context key, '?' anything else);
    texts: the key expressions as written"""
    __slots__ = ("kind", "attr", "keys", "texts", "node", "stmt", "fn", "qual", "how", "arg")

    def __init__(self, kind, attr, keys, texts, node, stmt, fn, qual, how=None, arg=frozenset()):
        self.kind, self.attr, self.keys, self.texts, self.node, self.stmt, self.fn, self.qual, self.how, self.arg = kind, attr, keys, texts, node, stmt, fn, qual, how, arg


TRIPLE = ("triple",)
CTXKEY = ("ctxkey",)
CONTEXT = ("context",)
_ENUM = ("enumerated",)  # an element of self.triples(...): (triple, contexts)


class StoreFlow:
    def __init__(self, mod: Module, cls: str, key_methods: frozenset = frozenset()):
        self.mod, self.cls = mod, cls
        self.meths = mod.methods(cls)
        self.key_methods = key_methods
        self.events: list[Event] = []
        self._seen: set = set()
        self._stack: list = []
        self._rets: list = []
        self._cur: list = []  # (fn, qual, stmt)
        self.unpacked: set = set()

    # -- entry
    def enter(self, name: str, bind: dict) -> set:
        fn = self.meths.get(name)
        if fn is None:
            raise AnalysisError("anchor vanished: %s.%s" % (self.cls, name))
        return self._invoke(name, fn, dict(bind))

    def _invoke(self, name: str, fn: ast.FunctionDef, env: dict) -> set:
        key = (name, tuple(sorted((k, tuple(sorted(v, key=repr))) for k, v in env.items() if v)))
        if key in self._stack or len(self._stack) > 6:
            return set()
        self._stack.append(key)
        self._rets.append(set())
        self._cur.append([fn, "%s.%s" % (self.cls, name), None])
        try:
            self._block(fn.body, env)
        finally:
            self._stack.pop()
            self._cur.pop()
        return self._rets.pop()

    # -- events
    def _event(self, kind, view, node, how=None, arg=frozenset(), extra_key=None, extra_text=None):
        _, attr, keys, texts = view
        if extra_key is not None:
            keys, texts = keys + (extra_key,), texts + (extra_text,)
        fn, qual, stmt = self._cur[-1]
        k = (kind, attr, keys, id(node), how, frozenset(arg))
        if k in self._seen:
            return
        self._seen.add(k)
        self.events.append(Event(kind, attr, keys, texts, node, stmt, fn, qual, how, frozenset(arg)))

    # -- statements
    @staticmethod
    def _merge(a: dict, b: dict) -> dict:
        out = {k: set(v) for k, v in a.items()}
        for k, v in b.items():
            out.setdefault(k, set()).update(v)
        return out

    def _block(self, stmts, env: dict) -> dict:
        for s in stmts:
            env = self._stmt(s, env)
        return env

    def _stmt(self, s, env: dict) -> dict:
        self._cur[-1][2] = s
        if isinstance(s, ast.Assign):
            vals = self.ev(s.value, env)
            views = [self._target_view(t, env) for t in s.targets]
            for i, t in enumerate(s.targets):
                extra = set()
                for j, v in enumerate(views):
                    if j != i and v:
                        extra |= v
                self._bind(t, vals | extra, env, s.value, s)
            return env
        if isinstance(s, ast.AnnAssign):
            if s.value is not None:
                self._bind(s.target, self.ev(s.value, env), env, s.value, s)
            return env
        if isinstance(s, ast.AugAssign):
            self.ev(s.value, env)
            if isinstance(s.target, ast.Subscript):
                for v in self._target_view(s.target, env):
                    self._event("write", v, s)
            return env
        if isinstance(s, ast.Delete):
            for t in s.targets:
                if isinstance(t, ast.Subscript):
                    for v in self._target_view(t, env):
                        self._event("del", v, s)
                elif isinstance(t, ast.Name):
                    env[t.id] = set()
            return env
        if isinstance(s, ast.Return):
            if s.value is not None:
                self._rets[-1] |= self.ev(s.value, env)
            return env
        if isinstance(s, ast.Expr):
            self.ev(s.value, env)
            return env
        if isinstance(s, ast.If):
            self.ev(s.test, env)
            a = self._block(s.body, {k: set(v) for k, v in env.items()})
            self._cur[-1][2] = s
            b = self._block(s.orelse, {k: set(v) for k, v in env.items()})
            return self._merge(a, b)
        if isinstance(s, (ast.For, ast.AsyncFor)):
            inner, _ = unsnap(s.iter)
            itv = self.ev(inner, env)
            elem: set = set()
            if isinstance(inner, ast.Call) and isinstance(inner.func, ast.Attribute) and inner.func.attr == "triples" and self._is_self(inner.func.value):
                elem = {_ENUM}
                self._event("enumerate", ("view", "", (), ()), s)
            rows = [v for v in itv if v[0] == "tuple"]
            if len(rows) == 1 and len(itv) == 1:
                # a loop over a table whose rows are known (a tuple / list display, also a module-level one): one pass per row, the target bound
                # to that row - what goes together in a row stays together
                for row in rows[0][1]:
                    e2 = {k: set(v) for k, v in env.items()}
                    self._bind(s.target, set(row), e2, None, s)
                    e2 = self._block(s.body, e2)
                    env = self._merge(env, e2)
                self._cur[-1][2] = s
                return self._block(s.orelse, env)
            for _ in (0, 1):
                e2 = {k: set(v) for k, v in env.items()}
                self._bind(s.target, elem, e2, None, s)
                e2 = self._block(s.body, e2)
                env = self._merge(env, e2)
            self._cur[-1][2] = s
            return self._block(s.orelse, env)
        if isinstance(s, ast.While):
            for _ in (0, 1):
                self.ev(s.test, env)
                e2 = self._block(s.body, {k: set(v) for k, v in env.items()})
                env = self._merge(env, e2)
            return self._block(s.orelse, env)
        if isinstance(s, (ast.Try, getattr(ast, "TryStar", ast.Try))):
            after = self._block(s.body, {k: set(v) for k, v in env.items()})
            mid = self._merge(env, after)
            out = self._block(s.orelse, {k: set(v) for k, v in after.items()})
            for h in s.handlers:
                out = self._merge(out, self._block(h.body, {k: set(v) for k, v in mid.items()}))
            return self._block(s.finalbody, out)
        if isinstance(s, (ast.With, ast.AsyncWith)):
            for it in s.items:
                self.ev(it.context_expr, env)
            return self._block(s.body, env)
        if isinstance(s, (ast.FunctionDef, ast.AsyncFunctionDef, ast.ClassDef)):
            return env
        for c in ast.iter_child_nodes(s):
            if isinstance(c, ast.expr):
                self.ev(c, env)
        return env

    def _is_self(self, e: ast.AST) -> bool:
        fn = self._cur[-1][0]
        return isinstance(e, ast.Name) and not _is_static(fn) and e.id == self_name(fn)

    def _target_view(self, t: ast.AST, env: dict) -> set:
        """the levels a subscript target denotes (the entry that is stored / deleted: keys include the subscript's own key)"""
        if isinstance(t, ast.Subscript):
            return {v for v in self._subscript(t.value, t.slice, env) if v[0] == "view"}
        return set()

    def _bind(self, t: ast.AST, vals: set, env: dict, value_expr, stmt) -> None:
        if isinstance(t, ast.Name):
            env[t.id] = set(vals)
        elif isinstance(t, (ast.Tuple, ast.List)):
            n = len(t.elts)
            if isinstance(value_expr, (ast.Tuple, ast.List)) and len(value_expr.elts) == n and not any(isinstance(x, ast.Starred) for x in list(t.elts) + list(value_expr.elts)):
                for te, ve in zip(t.elts, value_expr.elts):
                    self._bind(te, self.ev(ve, env), env, ve, stmt)
            elif TRIPLE in vals and n == 3:
                self.unpacked.update(ROLES)
                for te, r in zip(t.elts, ROLES):
                    self._bind(te, {("role", r)}, env, None, stmt)
            elif _ENUM in vals and n == 2:
                self._bind(t.elts[0], {TRIPLE}, env, None, stmt)
                self._bind(t.elts[1], set(), env, None, stmt)
            elif any(v[0] == "tuple" and len(v[1]) == n for v in vals) and not any(isinstance(x, ast.Starred) for x in t.elts):
                for i, te in enumerate(t.elts):
                    self._bind(te, set().union(*[v[1][i] for v in vals if v[0] == "tuple" and len(v[1]) == n]), env, None, stmt)
            else:
                for te in t.elts:
                    self._bind(te.value if isinstance(te, ast.Starred) else te, set(), env, None, stmt)
        elif isinstance(t, ast.Subscript):
            for v in self._target_view(t, env):
                self._event("write", v, stmt)
                if isinstance(value_expr, ast.Dict):
                    for k in value_expr.keys:
                        if k is not None:
                            for kk in self._keys_of(k, env):
                                self._event("write", v, stmt, extra_key=kk, extra_text=norm(k))
        elif isinstance(t, ast.Attribute) and self._is_self(t.value):
            # `arg`: what the attribute is bound to (the levels of store state the new value is, if any)
            self._event("rebind", ("view", t.attr, (), ()), stmt, arg=frozenset(v for v in vals if v and v[0] == "view"))

    # -- expressions
    def _keys_of(self, k: ast.AST, env: dict) -> set:
        out = set()
        for v in self.ev(k, env):
            if v[0] == "role":
                out.add(v[1])
            elif v == TRIPLE:
                out.add("T")
            elif v == CTXKEY:
                out.add("K")
        return out or {"?"}

    def _subscript(self, base: ast.AST, key: ast.AST, env: dict) -> set:
        out = set()
        bases = self.ev(base, env)
        ks = self._keys_of(key, env)
        for b in bases:
            if b[0] == "view" and len(b[2]) < 4:
                for k in ks:
                    out.add(("view", b[1], b[2] + (k,), b[3] + (norm(key),)))
        return out

    def _module_value(self, name: str) -> set:
        """the value of a module-level name that is bound once, at module level, to a display of constants (a table of key positions, say)"""
        memo = self.__dict__.setdefault("_modvals", {})
        if name in memo:
            return memo[name]
        memo[name] = set()
        binds = []
        for st in ast.walk(self.mod.tree):
            if isinstance(st, (ast.Assign, ast.AnnAssign, ast.AugAssign, ast.For, ast.NamedExpr, ast.withitem, ast.comprehension)):
                tg = st.targets if isinstance(st, ast.Assign) else [getattr(st, "target", None) or getattr(st, "optional_vars", None)]
                if any(isinstance(x, ast.Name) and x.id == name for t in tg if t is not None for x in ast.walk(t)):
                    binds.append(st)
            elif isinstance(st, (ast.Global, ast.Nonlocal)) and name in st.names:
                binds.append(st)
            elif isinstance(st, (ast.FunctionDef, ast.AsyncFunctionDef, ast.ClassDef)) and st.name == name:
                binds.append(st)
            elif isinstance(st, (ast.Import, ast.ImportFrom)) and any((a.asname or a.name.split(".")[0]) == name for a in st.names):
                binds.append(st)
        if len(binds) == 1 and isinstance(binds[0], (ast.Assign, ast.AnnAssign)) and binds[0] in self.mod.tree.body and binds[0].value is not None:
            v = binds[0].value
            if all(isinstance(x, (ast.Tuple, ast.List, ast.Constant, ast.Name, ast.Load, ast.UnaryOp, ast.USub)) for x in ast.walk(v)):
                memo[name] = self.ev(v, {})
        return memo[name]

    def _element(self, bases: set, keys: set) -> set:
        """what indexing a triple / a known tuple with a known position gives"""
        out: set = set()
        for b in bases:
            for k in keys:
                if k[0] != "const" or not isinstance(k[1], int) or isinstance(k[1], bool):
                    continue
                if b == TRIPLE and -3 <= k[1] < 3:
                    r = ROLES[k[1]]
                    self.unpacked.add(r)
                    out.add(("role", r))
                elif b[0] == "tuple" and -len(b[1]) <= k[1] < len(b[1]):
                    out |= b[1][k[1]]
        return out

    def ev(self, e: ast.AST, env: dict) -> set:
        if isinstance(e, ast.Name):
            if e.id not in env and isinstance(e.ctx, ast.Load):
                return set(self._module_value(e.id))
            return set(env.get(e.id, ()))
        if isinstance(e, ast.Constant):
            return {("const", e.value)} if isinstance(e.value, int) and not isinstance(e.value, bool) else set()
        if isinstance(e, ast.UnaryOp) and isinstance(e.op, ast.USub) and isinstance(e.operand, ast.Constant) and type(e.operand.value) is int:
            return {("const", -e.operand.value)}
        if isinstance(e, ast.Attribute):
            if self._is_self(e.value):
                return {("view", e.attr, (), ())}
            self.ev(e.value, env)
            return set()
        if isinstance(e, ast.Subscript):
            out = self._subscript(e.value, e.slice, env)
            for v in out:
                self._event("read", v, e)
            return out | self._element(self.ev(e.value, env), self.ev(e.slice, env))
        if isinstance(e, ast.NamedExpr):
            vals = self.ev(e.value, env)
            self._bind(e.target, vals, env, e.value, self._cur[-1][2])
            return vals
        if isinstance(e, ast.IfExp):
            self.ev(e.test, env)
            return self.ev(e.body, env) | self.ev(e.orelse, env)
        if isinstance(e, ast.BoolOp):
            out = set()
            for v in e.values:
                out |= self.ev(v, env)
            return out
        if isinstance(e, (ast.Tuple, ast.List)) and isinstance(getattr(e, "ctx", None), ast.Load):
            vs = [self.ev(x, env) for x in e.elts]
            if len(vs) == 3 and all(("role", r) in v for v, r in zip(vs, ROLES)):
                return {TRIPLE}
            if any(isinstance(x, ast.Starred) for x in e.elts):
                return set()
            return {("tuple", tuple(frozenset(v) for v in vs))}
        if isinstance(e, ast.Call):
            return self._call(e, env)
        if isinstance(e, (ast.Lambda, ast.GeneratorExp, ast.ListComp, ast.SetComp, ast.DictComp)):
            return set()
        for c in ast.iter_child_nodes(e):
            if isinstance(c, ast.expr):
                self.ev(c, env)
        return set()

    def _call(self, c: ast.Call, env: dict) -> set:
        fn = self._cur[-1][0]
        f = c.func
        # a method of this class: follow it with the abstract arguments
        r = class_callee(self.meths, self.cls, fn, c)
        if r is not None:
            name, callee, skip = r
            argv = [self.ev(a, env) for a in c.args if not isinstance(a, ast.Starred)]
            kw = {k.arg: self.ev(k.value, env) for k in c.keywords if k.arg}
            if name in self.key_methods:
                return {CTXKEY}
            if any(isinstance(a, ast.Starred) for a in c.args):
                return set()
            params = _callee_params(callee)
            new = {p: set() for p in params}
            for p, v in zip(params, argv[skip:]):
                new[p] = v
            for k, v in kw.items():
                if k in new:
                    new[k] = v
            saved = self._cur[-1][2]
            out = self._invoke(name, callee, new)
            self._cur[-1][2] = saved
            return out
        if isinstance(f, ast.Attribute):
            base = self.ev(f.value, env)
            views = {b for b in base if b[0] == "view"}
            argv = [self.ev(a, env) for a in c.args if not isinstance(a, ast.Starred)]
            for k in c.keywords:
                self.ev(k.value, env)
            if views and f.attr in ("get", "setdefault", "pop", "__getitem__") and c.args:
                out = self._subscript(f.value, c.args[0], env)
                for v in out:
                    self._event({"get": "read", "__getitem__": "read", "setdefault": "write", "pop": "pop"}[f.attr], v, c)
                return out
            if views and f.attr in ("__setitem__", "__delitem__") and c.args:
                for v in self._subscript(f.value, c.args[0], env):
                    self._event("write" if f.attr == "__setitem__" else "del", v, c)
                return set()
            if views and f.attr in ("popitem", "clear"):
                for v in views:
                    self._event(f.attr, v, c)
                return set()
            if views and f.attr in ("add", "remove", "discard") and len(argv) == 1:
                for v in views:
                    self._event("mut", v, c, how=f.attr, arg=argv[0])
                return set()
            return set()
        for a in c.args:
            self.ev(a.value if isinstance(a, ast.Starred) else a, env)
        for k in c.keywords:
            self.ev(k.value, env)
        if not isinstance(f, ast.Name):
            self.ev(f, env)
        return set()


def context_key_methods(mod: Module, cls: str) -> frozenset:
    """the methods of the class that the public entry points apply to their `context` argument to obtain the key under which the store files
    the context: `k = self.m(context)` in triples / remove / __len__ (the parameter is found by position in the public signature)"""
    meths = mod.methods(cls)
    found: dict = {}
    for pub, pos in (("triples", 2), ("remove", 2), ("__len__", 1)):
        fn = meths.get(pub)
        if fn is None:
            continue
        ps = [a.arg for a in fn.args.posonlyargs + fn.args.args]
        if len(ps) <= pos:
            continue
        cp, sn = ps[pos], ps[0]
        for st in own_nodes(fn):
            n = st.value if isinstance(st, (ast.Assign, ast.AnnAssign, ast.NamedExpr)) else None
            tg = (st.targets if isinstance(st, ast.Assign) else [st.target]) if n is not None else []
            if isinstance(n, ast.Call) and all(isinstance(t, ast.Name) for t in tg) and isinstance(n.func, ast.Attribute) and isinstance(n.func.value, ast.Name) \
                    and n.func.value.id == sn and n.func.attr in meths and n.func.attr not in ("triples", "remove", "add", "__len__", "contexts") \
                    and any(isinstance(a, ast.Name) and a.id == cp for a in list(n.args) + [k.value for k in n.keywords]):
                found.setdefault(n.func.attr, set()).add(pub)
    return frozenset(found)


def context_state(mod: Module, cls: str) -> tuple[Optional[str], set]:
    """(per-triple context map, shared default-context attributes) of a context-aware store, by what add() does - itself or through the
    methods of the class it calls: the per-triple map is the attribute of self in which add() stores an entry under the TRIPLE as the only key
    (and which is not one of the three indexes); a default-context attribute is an attribute of self that add() binds to such an entry (the
    context dict of one triple, which from then on stands for every triple without an entry of its own)"""
    fn = mod.func(cls + ".add")
    ps = [a.arg for a in fn.args.posonlyargs + fn.args.args]
    if len(ps) < 2:
        raise AnalysisError("%s.add: no triple parameter" % cls)
    fl = StoreFlow(mod, cls, context_key_methods(mod, cls))
    fl.enter("add", {ps[1]: {TRIPLE}})
    maps = {e.attr for e in fl.events if e.kind == "write" and e.keys == ("T",)}
    if len(maps) != 1:
        return None, set()
    tc = next(iter(maps))
    dflt = {e.attr for e in fl.events if e.kind == "rebind" and any(v[1] == tc and v[2] == ("T",) for v in e.arg)}
    return tc, dflt


def index_orders(mod: Module, cls: str) -> tuple[dict, list]:
    """(attribute -> declared key order, conflicts): the attributes of the store that add() - itself or through the methods of the class it
    calls - writes at the third nested level with the three components of its triple argument as keys"""
    fn = mod.func(cls + ".add")
    ps = [a.arg for a in fn.args.posonlyargs + fn.args.args]
    if len(ps) < 2:
        raise AnalysisError("%s.add: no triple parameter" % cls)
    fl = StoreFlow(mod, cls, context_key_methods(mod, cls))
    fl.enter("add", {ps[1]: {TRIPLE}})
    if fl.unpacked != set(ROLES):
        raise AnalysisError("%s.add: triple parameter is not unpacked into three components" % cls)
    seen: dict = {}
    for ev in fl.events:
        if ev.kind == "write" and len(ev.keys) == 3 and all(k in ROLES for k in ev.keys):
            seen.setdefault(ev.attr, []).append(ev.keys)
    out, conflicts = {}, []
    for a, os_ in seen.items():
        perms = [o for o in os_ if sorted(o) == ["O", "P", "S"]]
        if not perms:
            raise AnalysisError("%s.add: index %s is written with keys %s, not a permutation of S,P,O" % (cls, a, os_[0]))
        out[a] = perms[0]
        for o in os_:
            if o != perms[0]:
                conflicts.append((a, perms[0], o))
    return out, conflicts


# ---------------------------------------------------------------------------------------------------------------------
# rule b: triples() interpreted once per bound/unbound pattern shape.
#
# Same obligations as vlib/roles.TriplesInterp (every yield justified by a complete membership chain of one index, pattern term in
# each bound position, each unbound position enumerated from an index level, per-triple context filter applied, nothing
# unmodelled on the way), but stated on VALUES instead of on variable names and spellings:
#   * a name stands for what it was bound to (a pattern term, a key enumerated by a loop, an index level, the key of the requested
#     context, that context's triple set, a triple built from components) - so parameters of a private generator that triples()
#     delegates to with `yield from self.m(...)` carry the caller's values, and the callee is interpreted in place;
#   * an index level / the context's triple set may be looked up by `v[k]`, by `v.get(k)` followed by an `is None` test (the value is
#     usable on the not-None side only), or by `v.get(k, <empty container>)` (a missing key enumerates nothing);
#   * which shape is being interpreted decides every boundness test exactly, so a value built only from such tests (a bool, a tuple of them,
#     a local that holds one) is a known Python value: an `if` on it and a `match` on it (first case whose literal / sequence / wildcard /
#     or-pattern accepts it and whose guard folds to True) take exactly one branch; anything not decided that way stays unmodelled;
#   * the context key is the result of a method of self applied to the `context` argument (found by position in the public signature);
#   * the per-triple context filter is a test that asks whether THIS triple is in the requested context's triple set: written in place
#     (`t in self.X.get(key, ())`) or as a method of self that is handed the triple and the key and returns such a test.


class _Yield:
    def __init__(self, node, shape, comps, problems, loops, idx, via=()):
        self.node, self.shape, self.comps, self.problems, self.loops, self.index = node, shape, comps, problems, loops, idx
        self.via = via  # the yields of the generators (functions of the package that triples() consumes) through which this yield was reached


def _is_empty_container(e: ast.AST) -> bool:
    if isinstance(e, (ast.Tuple, ast.List, ast.Set)) and not e.elts:
        return True
    if isinstance(e, ast.Dict) and not e.keys:
        return True
    return isinstance(e, ast.Call) and isinstance(e.func, ast.Name) and e.func.id in ("dict", "set", "frozenset", "tuple", "list") and not e.args and not e.keywords


def _flags(v) -> bool:
    """a bool, or a tuple/list of such"""
    return isinstance(v, bool) or (isinstance(v, (tuple, list)) and bool(v) and all(_flags(x) for x in v))


def _comp(v) -> bool:
    return isinstance(v, tuple) and v and v[0] in ("pat", "loop")


def _as_triple(v):
    """the pattern argument used as a triple is the triple of its three terms"""
    return ("triple", tuple(("pat", r) for r in ROLES)) if v == ("pattern",) else v


class PatternInterp:
    def __init__(self, mod: Module, cls: str, orders: dict, ctx_aware: bool, repo: Optional[Repo] = None):
        self.mod, self.cls, self.orders, self.ctx_aware = mod, cls, orders, ctx_aware
        self.repo = repo
        self.mods_seen: list = [mod]
        self.meths = mod.methods(cls)
        self.fn = mod.func(cls + ".triples")
        ps = [a.arg for a in self.fn.args.posonlyargs + self.fn.args.args]
        if len(ps) < 2:
            raise AnalysisError("%s.triples: no pattern parameter" % cls)
        self.sn, self.tp = ps[0], ps[1]
        self.cp = ps[2] if len(ps) > 2 else None
        self.none_names = {"None"}
        for st in mod.tree.body:
            if isinstance(st, ast.Assign) and isinstance(st.targets[0], ast.Name) and isinstance(st.value, ast.Constant) and st.value.value is None:
                self.none_names.add(st.targets[0].id)
            if isinstance(st, ast.AnnAssign) and isinstance(st.target, ast.Name) and isinstance(st.value, ast.Constant) and st.value.value is None:
                self.none_names.add(st.target.id)
        self.yields: list = []
        self.unmodelled: list = []
        self.truthy_tests: list = []
        self._tok = 0
        self._depth: list = []

    # ------------------------------------------------------------------ values
    def is_none(self, e: ast.AST) -> bool:
        return (isinstance(e, ast.Constant) and e.value is None) or (isinstance(e, ast.Name) and e.id in self.none_names)

    def _self(self, e: ast.AST, env) -> bool:
        return isinstance(e, ast.Name) and e.id == env["self"]

    def val(self, e: ast.AST, env):
        """the abstract value of an expression, None when it is not one the interpretation tracks"""
        if isinstance(e, ast.Name):
            return env["vars"].get(e.id)
        if isinstance(e, ast.Attribute) and self._self(e.value, env):
            return ("view", e.attr, ()) if e.attr in self.orders else ("selfattr", e.attr)
        if isinstance(e, ast.Subscript):
            return self._lookup(self.val(e.value, env), e.slice, env, None, False)
        if isinstance(e, ast.Call) and isinstance(e.func, ast.Attribute):
            a = e.func.attr
            if a == "keys" and not e.args:
                b = self.val(e.func.value, env)
                return b if b and b[0] == "view" else None
            if a == "copy" and not e.args:
                b = self.val(e.func.value, env)
                return b if b and b[0] in ("view", "ctxset") else None
            if a == "get" and len(e.args) in (1, 2) and not e.keywords:
                if len(e.args) == 2 and not _is_empty_container(e.args[1]):
                    return None
                return self._lookup(self.val(e.func.value, env), e.args[0], env, e, len(e.args) == 1)
            if a in ("keys", "copy", "get"):
                return None
        if isinstance(e, ast.Call) and isinstance(e.func, ast.Name) and e.func.id in _SNAP_FUNCS and len(e.args) == 1 and not e.keywords:
            b = self.val(e.args[0], env)
            return b if b and b[0] == "ctxset" else None
        if isinstance(e, ast.Call) and self.repo is not None:
            # a generator function of the package (of this module, or imported) called with tracked values: the generator it returns
            r = package_function(self.repo, env["mod"], env["fn"], e)
            if r is not None and not any(isinstance(a, ast.Starred) for a in e.args) and all(k.arg for k in e.keywords) \
                    and any(isinstance(x, (ast.Yield, ast.YieldFrom)) for x in own_nodes(r[1])):
                argv = tuple(self.val(a, env) for a in e.args)
                kw = tuple((k.arg, self.val(k.value, env)) for k in e.keywords)
                if any(v is not None for v in argv + tuple(v for _, v in kw)):
                    return ("gen", r[0], r[1], argv, kw)
            return None
        if isinstance(e, ast.Tuple) and len(e.elts) == 3:
            vs = tuple(self.val(x, env) for x in e.elts)
            if all(_comp(v) for v in vs):
                return ("triple", vs)
            return ("triple", tuple(v if _comp(v) else ("unknown", norm(x)) for v, x in zip(vs, e.elts)))
        return None

    def _lookup(self, base, key: ast.AST, env, get_call, optional: bool):
        if not base:
            return None
        if base[0] == "view":
            k = self.val(key, env)
            if not _comp(k):
                return None
            keys = base[2] + (k,)
            if get_call is not None and not optional:
                env["facts"].add((base[1], keys))  # v.get(k, <empty>): a missing key behaves as an empty level
            return ("optview", base[1], keys) if optional else ("view", base[1], keys)
        if base[0] == "selfattr":
            k = self.val(key, env)
            if k == ("ctxkey",):
                return ("ctxset", base[1], bool(optional))
        return None

    # ------------------------------------------------------------------ tests
    def fold(self, t: ast.expr, env):
        """True/False for boundness tests, ('member', idx, keys) for `k in V`, ('ctxfilter', triple), ('ctxknown',), ('isnone', name, value), each
        possibly prefixed by 'not'; None = unmodelled"""
        if isinstance(t, ast.BoolOp):
            vals = []
            for v in t.values:
                fv = self.fold(v, env)
                vals.append(fv)
                # `x is not None and <uses x>` / `x is None or <uses x>`: the operands to the right are evaluated with x present
                present = None
                if isinstance(fv, tuple) and isinstance(t.op, ast.And) and fv[:2] == ("not", "isnone"):
                    present = (fv[2], fv[3])
                elif isinstance(fv, tuple) and isinstance(t.op, ast.Or) and fv[0] == "isnone":
                    present = (fv[1], fv[2])
                if present is not None and v is not t.values[-1]:
                    name, pv = present
                    env = self.copy(env)
                    if pv[0] == "optview":
                        env["vars"][name] = ("view", pv[1], pv[2])
                        env["facts"].add((pv[1], pv[2]))
                    else:
                        env["vars"][name] = ("ctxset", pv[1], False)
            if all(isinstance(v, bool) for v in vals):
                return all(vals) if isinstance(t.op, ast.And) else any(vals)
            if isinstance(t.op, ast.And):
                # `s is not None and t in s`: the presence test of the context's triple set adds nothing to the filter that follows it
                rest = [v for v in vals if v is not True]
                if any(v is False for v in rest):
                    return False
                filt = [v for v in rest if isinstance(v, tuple) and v[0] == "ctxfilter"]
                pres = [v for v in rest if isinstance(v, tuple) and v[:2] == ("not", "isnone") and v[3][0] == "ctxset"] + [v for v in rest if v == ("ctxknown",)]
                if len(filt) == 1 and len(filt) + len(pres) == len(rest):
                    return filt[0]
            return None
        if isinstance(t, ast.UnaryOp) and isinstance(t.op, ast.Not):
            v = self.fold(t.operand, env)
            if isinstance(v, bool):
                return not v
            if isinstance(v, tuple):
                return v[1:] if v[0] == "not" else ("not",) + v
            return None
        if isinstance(t, ast.Compare) and len(t.ops) == 1:
            l, r, op = t.left, t.comparators[0], t.ops[0]
            if isinstance(op, (ast.Is, ast.IsNot, ast.Eq, ast.NotEq)) and self.is_none(r):
                v = self.val(l, env)
                if v and v[0] == "pat":
                    isnone = not env["bound"][v[1]]
                    return isnone if isinstance(op, (ast.Is, ast.Eq)) else (not isnone)
                if v and isinstance(l, ast.Name) and isinstance(op, (ast.Is, ast.IsNot)) and (v[0] == "optview" or (v[0] == "ctxset" and v[2])):
                    m = ("isnone", l.id, v)
                    return m if isinstance(op, ast.Is) else ("not",) + m
            if isinstance(op, (ast.In, ast.NotIn)):
                lv = _as_triple(self.val(l, env))
                saved = set(env["facts"])
                rv = self.val(r, env)
                m = None
                if _comp(lv) and rv and rv[0] == "view":
                    m = ("member", rv[1], rv[2] + (lv,))
                elif lv == ("ctxkey",) and rv and rv[0] == "selfattr":
                    m = ("ctxknown",)
                elif lv and lv[0] in ("triple", "ctxtriple") and rv and rv[0] == "ctxset" and not rv[2]:
                    m = ("ctxfilter", lv)
                if m is None:
                    env["facts"] = saved
                    return None
                if rv[0] == "view":
                    self.note_subscript(r, rv, env, t)
                return m if isinstance(op, ast.In) else ("not",) + m
        if isinstance(t, ast.Call):
            r = self._filter_call(t, env)
            if r is not None:
                return r
        if isinstance(t, ast.Name):
            v = env["vars"].get(t.id)
            if v and v[0] == "pat":
                self.truthy_tests.append(t)
                return None
            if v and v[0] == "const" and isinstance(v[1], bool):
                return v[1]  # a name that holds the outcome of a boundness test
        return None

    def _filter_call(self, c: ast.Call, env):
        """a method of self handed a triple and the context key, whose body is (bindings and) one `return <test>`: the test, folded with the
        parameters bound to the caller's values"""
        r = self._class_callee(env, c)
        if r is None or any(isinstance(a, ast.Starred) for a in c.args):
            return None
        name, callee, skip = r
        argv = [_as_triple(self.val(a, env)) for a in c.args][skip:]
        kw = {k.arg: _as_triple(self.val(k.value, env)) for k in c.keywords if k.arg}
        allv = argv + list(kw.values())
        if not any(v and v[0] in ("triple", "ctxtriple") for v in allv) or ("ctxkey",) not in allv:
            return None
        if name in self._depth or len(self._depth) > 3:
            return None
        body = [s for s in callee.body if not (isinstance(s, ast.Expr) and isinstance(s.value, ast.Constant))]
        if not body or not isinstance(body[-1], ast.Return) or body[-1].value is None:
            return None
        e2 = self._callee_env(callee, argv, kw, env)
        mark = len(self.unmodelled)
        self._depth.append(name)
        try:
            for s in body[:-1]:
                if not isinstance(s, (ast.Assign, ast.AnnAssign)):
                    return None
                out = self.stmt(s, e2)
                if len(out) != 1 or len(self.unmodelled) != mark:
                    del self.unmodelled[mark:]
                    return None
            return self.fold(body[-1].value, e2)
        finally:
            self._depth.pop()

    def _class_callee(self, env, call: ast.AST):
        """the method of the store class that a call inside a method of that class goes to (a call in a function of the package that is being
        interpreted on behalf of triples() has no receiver of the class)"""
        if env["self"] is None or env["mod"] is not self.mod or not isinstance(call, ast.Call):
            return None
        return class_callee(self.meths, self.cls, env["fn"], call)

    def mod_of(self, node: ast.AST) -> Module:
        """the module a reported node stands in"""
        for m in self.mods_seen:
            if id(node) in m.parent:
                return m
        return self.mod

    def _function_env(self, cmod: Module, callee: ast.FunctionDef, argv, kw, env) -> dict:
        """the environment in which the body of a module-level function runs: its parameters bound to the caller's values"""
        e2 = self.copy(env)
        ps = [a.arg for a in callee.args.posonlyargs + callee.args.args]
        new: dict = {}
        for p_, v in zip(ps, argv):
            if v is not None:
                new[p_] = v
        names = set(ps) | {a.arg for a in callee.args.kwonlyargs}
        for k, v in kw:
            if k in names and v is not None:
                new[k] = v
        e2["vars"], e2["self"], e2["fn"], e2["mod"] = new, None, callee, cmod
        if cmod not in self.mods_seen:
            self.mods_seen.append(cmod)
        return e2

    def _consume(self, gen, env, on_yield, where) -> None:
        """run the body of the generator function behind `gen`; every value it yields is handed to on_yield(yield node, value, environment at
        the yield) - the consumer's loop body, or the consumer's own yield for `yield from`"""
        _, cmod, callee, argv, kw = gen
        tag = "%s:%s" % (cmod.name, callee.name)
        if tag in self._depth or len(self._depth) > 3:
            self.unmodelled.append((where, "generator %s consumed recursively" % callee.name))
            return
        e2 = self._function_env(cmod, callee, argv, kw, env)
        e2["consumer"] = on_yield
        self._depth.append(tag)
        try:
            self.block(callee.body, e2)
        finally:
            self._depth.pop()

    def _callee_env(self, callee: ast.FunctionDef, argv: list, kw: dict, env) -> dict:
        e2 = self.copy(env)
        ps = _callee_params(callee)
        allp = [a.arg for a in callee.args.posonlyargs + callee.args.args]
        new: dict = {}
        for p, v in zip(ps, argv):
            if v is not None:
                new[p] = v
        for k, v in kw.items():
            if k in ps and v is not None:
                new[k] = v
        e2["vars"] = new
        e2["self"] = allp[0] if allp and not _is_static(callee) else None
        e2["fn"] = callee
        return e2

    # ------------------------------------------------------------------ execution
    def run_shape(self, bound: dict) -> None:
        v0 = {self.tp: ("pattern",)}
        if self.cp:
            v0[self.cp] = ("context",)
        env = {"vars": v0, "bound": bound, "facts": set(), "loops": [], "ctx_ok": None, "try": 0, "self": self.sn, "fn": self.fn,
               "shape": "".join(r if bound[r] else "-" for r in ROLES), "mod": self.mod, "consumer": None, "via": ()}
        self.block(self.fn.body, env)

    def copy(self, env):
        return {"vars": dict(env["vars"]), "bound": env["bound"], "facts": set(env["facts"]), "loops": list(env["loops"]), "ctx_ok": env["ctx_ok"],
                "try": env["try"], "self": env["self"], "fn": env["fn"], "shape": env["shape"], "mod": env["mod"], "consumer": env["consumer"], "via": env["via"]}

    def block(self, stmts, env) -> list:
        envs = [env]
        for s in stmts:
            nxt = []
            for e in envs:
                nxt += self.stmt(s, e)
            envs = nxt
            if not envs:
                break
        return envs

    def _assign(self, t: ast.AST, v: ast.AST, s, env) -> list:
        val = self.val(v, env)
        if isinstance(t, (ast.Tuple, ast.List)) and len(t.elts) == 3 and val == ("pattern",) and all(isinstance(x, ast.Name) for x in t.elts):
            for r, x in zip(ROLES, t.elts):
                env["vars"][x.id] = ("pat", r)
            return [env]
        if isinstance(t, ast.Name):
            if val == ("pattern",):
                env["vars"][t.id] = _as_triple(val)
                return [env]
            if val and val[0] in ("view", "optview"):
                self.note_subscript(v, ("view", val[1], val[2][:-1]) if val[0] == "optview" else val, env, s)
                env["vars"][t.id] = val
                return [env]
            if val and val[0] == "triple" and not any(_comp(c) for c in val[1]):
                sv = self.static(v, env)  # three boundness flags, not three terms
                if sv is not None and _flags(sv[1]):
                    env["vars"][t.id] = sv
                    return [env]
            if val and val[0] in ("triple", "ctxset", "ctxkey", "pat", "loop", "ctxtriple", "gen"):
                env["vars"][t.id] = val
                return [env]
            if isinstance(v, ast.Call) and self.cp is not None:
                r = self._class_callee(env, v)
                if r is not None and any(self.val(a, env) == ("context",) for a in list(v.args) + [k.value for k in v.keywords]):
                    env["vars"][t.id] = ("ctxkey",)
                    return [env]
            if not isinstance(v, ast.Constant):
                # the outcome of boundness tests (a bool, a tuple of them) kept in a local: known exactly for the shape being interpreted
                sv = self.static(v, env)
                if sv is not None and _flags(sv[1]):
                    env["vars"][t.id] = sv
                    return [env]
        self.unmodelled.append((s, "assignment form"))
        return [env]

    def stmt(self, s, env) -> list:
        if isinstance(s, ast.Expr) and isinstance(s.value, ast.Constant):
            return [env]
        if isinstance(s, ast.Pass):
            return [env]
        if isinstance(s, ast.Return):
            return []
        if isinstance(s, ast.Continue) and env["loops"]:
            # the rest of this pass through the loop body is not executed on this path; the other passes are the other paths through the
            # body, each interpreted on its own (a `break` is different: it gives up the keys not yet enumerated, and stays unmodelled)
            return []
        if isinstance(s, ast.Assign) and len(s.targets) == 1:
            return self._assign(s.targets[0], s.value, s, env)
        if isinstance(s, ast.AnnAssign) and s.value is not None:
            return self._assign(s.target, s.value, s, env)
        if isinstance(s, ast.Expr) and isinstance(s.value, ast.Yield):
            if env["consumer"] is not None:
                env["consumer"](s.value, env)  # a yield of a generator that triples() consumes: the consumer goes on with the value
            else:
                self.do_yield(s.value, env)
            return [env]
        if isinstance(s, ast.Expr) and isinstance(s.value, ast.YieldFrom):
            return self._delegate(s, s.value.value, env)
        if isinstance(s, ast.If):
            f = self.fold(s.test, env)
            if f is True:
                return self.block(s.body, env)
            if f is False:
                return self.block(s.orelse, env)
            neg = False
            if isinstance(f, tuple) and f[0] == "not":
                neg, f = True, f[1:]
            if isinstance(f, tuple):
                e_true, e_false = self.copy(env), self.copy(env)
                if f[0] == "member":
                    e_true["facts"].add((f[1], f[2]))
                elif f[0] == "ctxfilter":
                    e_true["ctx_ok"] = f[1]
                elif f[0] == "isnone":
                    _, name, v = f
                    e_true["vars"][name] = ("none",)
                    if v[0] == "optview":
                        e_false["vars"][name] = ("view", v[1], v[2])
                        e_false["facts"].add((v[1], v[2]))
                    else:
                        e_false["vars"][name] = ("ctxset", v[1], False)
                a, b = (s.orelse, s.body) if neg else (s.body, s.orelse)
                return self.block(a, e_true) + self.block(b, e_false)
            has_yield = any(isinstance(x, (ast.Yield, ast.YieldFrom)) for st in s.body + s.orelse for x in ast.walk(st))
            if has_yield:
                self.unmodelled.append((s, "condition `%s` guards a yield" % norm(s.test)))
            elif any(isinstance(x, (ast.Return, ast.Continue, ast.Break, ast.Raise)) for st in s.body + s.orelse for x in ast.walk(st)):
                # a guard clause is the same condition written the other way round: what it lets through are the yields that follow
                self.unmodelled.append((s, "condition `%s` decides whether the yields that follow are reached" % norm(s.test)))
            return self.block(s.body, self.copy(env)) + self.block(s.orelse, self.copy(env))
        if isinstance(s, ast.For):
            inner, snap = unsnap(s.iter)
            e2 = self.copy(env)
            vw = self.val(inner, e2)
            if vw is not None and vw[0] == "view" and isinstance(s.target, ast.Name):
                _, idx, keys = vw
                if len(keys) >= 3:
                    self.unmodelled.append((s, "loop below the third index level"))
                    return [env]
                role = self.orders[idx][len(keys)]
                self.note_subscript(inner, vw, e2, s)
                self._tok += 1
                lv = ("loop", role, self._tok)
                e2["vars"][s.target.id] = lv
                e2["facts"].add((idx, keys + (lv,)))
                e2["loops"].append((s, snap))
                self.block(s.body, e2)
                return [env]
            if vw is not None and vw[0] == "gen" and not snap and isinstance(s.target, ast.Name) and not s.orelse:
                # a loop over a generator of the package: the body runs once for each value the generator yields, with what was established
                # on the way to that yield (membership facts, the snapshots its loops iterate); the loop itself iterates no store state
                caller, target, body = env, s.target.id, s.body

                def on_yield(y: ast.Yield, genv, caller=caller, target=target, body=body, loop=s):
                    v = _as_triple(self.val(y.value, genv)) if y.value is not None else None
                    if v is None or v[0] not in ("triple", "ctxtriple", "pat", "loop"):
                        self.unmodelled.append((y, "the generator yields a value that is not a tracked triple"))
                        return
                    e3 = self.copy(caller)
                    e3["facts"] |= genv["facts"]
                    e3["loops"] = list(genv["loops"])
                    e3["via"] = caller["via"] + (id(y),)
                    e3["vars"][target] = v
                    self.block(body, e3)

                self._consume(vw, e2, on_yield, s)
                return [env]
            if vw is not None and vw[0] == "ctxset" and not vw[2] and isinstance(s.target, ast.Name):
                self._tok += 1
                e2["vars"][s.target.id] = ("ctxtriple", self._tok)
                e2["loops"].append((s, snap))
                self.block(s.body, e2)
                return [env]
            self.unmodelled.append((s, "loop over %s" % norm(s.iter)[:60]))
            return [env]
        if isinstance(s, ast.Try):
            e2 = self.copy(env)
            e2["try"] += 1 if any(h.type is None or "KeyError" in norm(h.type) or "LookupError" in norm(h.type) or "Exception" in norm(h.type) for h in s.handlers) else 0
            out = self.block(s.body, e2)
            for o in out:
                o["try"] = env["try"]
            for h in s.handlers:
                out += self.block(h.body, self.copy(env))
            return out
        if isinstance(s, ast.Match):
            return self._match(s, env)
        self.unmodelled.append((s, "statement %s" % type(s).__name__))
        return [env]

    # ------------------------------------------------------------------ dispatch on statically known values (`match`)
    def static(self, e: ast.AST, env):
        """('const', v) when, for the pattern shape being interpreted, the expression has exactly the Python value v: a literal, a boundness
        test of a pattern position (a real bool), a tuple/list of such, a name bound to such; None otherwise"""
        if isinstance(e, ast.Constant):
            return ("const", e.value)
        if isinstance(e, ast.Name):
            v = env["vars"].get(e.id)
            return v if v and v[0] == "const" else None
        if isinstance(e, (ast.Tuple, ast.List)):
            vs = [self.static(x, env) for x in e.elts]
            if any(v is None for v in vs) or any(isinstance(x, ast.Starred) for x in e.elts):
                return None
            return ("const", tuple(v[1] for v in vs) if isinstance(e, ast.Tuple) else [v[1] for v in vs])
        if isinstance(e, (ast.Compare, ast.BoolOp)) or (isinstance(e, ast.UnaryOp) and isinstance(e.op, ast.Not)):
            f = self.fold(e, env)
            return ("const", f) if isinstance(f, bool) else None
        return None

    def _pattern(self, p: ast.AST, v):
        """does the match pattern accept the Python value v: True / False, with the names it binds; None when the pattern is of a kind that is
        not decided here (class, mapping, star patterns)"""
        if isinstance(p, ast.MatchSingleton):
            return (v is p.value), {}
        if isinstance(p, ast.MatchValue):
            if not isinstance(p.value, ast.Constant):
                return None
            return (type(v) in (bool, int, float, str, bytes, type(None)) and v == p.value.value), {}
        if isinstance(p, ast.MatchAs):
            if p.pattern is None:
                return True, ({p.name: ("const", v)} if p.name else {})
            r = self._pattern(p.pattern, v)
            if r is None or not r[0]:
                return r
            return True, dict(r[1], **({p.name: ("const", v)} if p.name else {}))
        if isinstance(p, ast.MatchOr):
            for q in p.patterns:
                r = self._pattern(q, v)
                if r is None or r[0]:
                    return r
            return False, {}
        if isinstance(p, ast.MatchSequence):
            if any(isinstance(q, ast.MatchStar) for q in p.patterns):
                return None
            if not isinstance(v, (tuple, list)) or len(v) != len(p.patterns):
                return False, {}
            binds: dict = {}
            for q, x in zip(p.patterns, v):
                r = self._pattern(q, x)
                if r is None or not r[0]:
                    return r
                binds.update(r[1])
            return True, binds
        return None

    def _match(self, s: ast.Match, env) -> list:
        """`match <value known for this shape>`: the first case whose pattern accepts the value (and whose guard holds) is the one that runs, the
        others do not; no case accepting it = the statement does nothing. A subject or a pattern that is not decided = unmodelled."""
        sv = self.static(s.subject, env)
        if sv is None:
            self.unmodelled.append((s, "match on `%s`, a value that is not known from the boundness of the pattern positions" % norm(s.subject)[:60]))
            return [env]
        for c in s.cases:
            r = self._pattern(c.pattern, sv[1])
            if r is None:
                self.unmodelled.append((s, "case pattern `%s` is not decided" % norm(c.pattern)[:60]))
                return [env]
            ok, binds = r
            if not ok:
                continue
            e2 = self.copy(env)
            e2["vars"].update(binds)
            if c.guard is not None:
                g = self.fold(c.guard, e2)
                if g is False:
                    continue
                if g is not True:
                    self.unmodelled.append((s, "case guard `%s` decides whether a yield is reached" % norm(c.guard)[:60]))
                    return [env]
            return self.block(c.body, e2)
        return [env]

    def _delegate(self, s, call: ast.AST, env) -> list:
        """`yield from self.m(...)`, m a generator method of the class: its body is interpreted with the parameters bound to the caller's values"""
        gv = self.val(call, env)
        if gv is not None and gv[0] == "gen":
            # `yield from g(...)`, g a generator function of the package: its yields are yields of the caller
            outer = env

            def on_yield(y: ast.Yield, genv, outer=outer):
                e3 = self.copy(genv)
                e3["consumer"], e3["via"] = outer["consumer"], outer["via"] + (id(y),)
                e3["ctx_ok"] = outer["ctx_ok"]
                if e3["consumer"] is not None:
                    e3["consumer"](y, e3)
                else:
                    self.do_yield(y, e3)

            self._consume(gv, self.copy(env), on_yield, s)
            return [env]
        r = self._class_callee(env, call)
        if r is None or any(isinstance(a, ast.Starred) for a in call.args):
            self.unmodelled.append((s, "yields from %s" % norm(call)[:60]))
            return [env]
        name, callee, skip = r
        if name in self._depth or len(self._depth) > 3 or not any(isinstance(x, (ast.Yield, ast.YieldFrom)) for x in own_nodes(callee)):
            self.unmodelled.append((s, "yields from %s" % norm(call)[:60]))
            return [env]
        argv = [self.val(a, env) for a in call.args][skip:]
        kw = {k.arg: self.val(k.value, env) for k in call.keywords if k.arg}
        e2 = self._callee_env(callee, argv, kw, env)
        self._depth.append(name)
        try:
            self.block(callee.body, e2)
        finally:
            self._depth.pop()
        return [env]

    def note_subscript(self, e: ast.AST, vw, env, where) -> None:
        """every level V[k] that is read must be justified: a membership fact, or inside try/except KeyError"""
        _, idx, keys = vw
        for i in range(1, len(keys) + 1):
            pre = keys[:i]
            if (idx, pre) in env["facts"] or env["try"]:
                if env["try"]:
                    env["facts"].add((idx, pre))
                continue
            self.unmodelled.append((where, "subscript %s without membership guard (may raise KeyError / read a missing key)" % norm(e)[:60]))

    def do_yield(self, y: ast.Yield, env) -> None:
        problems = []
        val = y.value
        first = val.elts[0] if isinstance(val, ast.Tuple) and val.elts else val
        fv = _as_triple(self.val(first, env)) if first is not None else None
        comps = fv[1] if fv and fv[0] == "triple" else None
        idx_used = None
        if fv and fv[0] == "ctxtriple":
            if any(env["bound"].values()):
                problems.append("per-context dump yields for a shape with bound positions")
            idx_used = "contextTriples"
        elif comps is None:
            problems.append("yielded value is not a tracked triple")
        else:
            roles = [c[1] if _comp(c) else None for c in comps]
            if tuple(roles) != ROLES:
                problems.append("components have roles %s, expected (S,P,O)" % (roles,))
            else:
                for r, c in zip(ROLES, comps):
                    if env["bound"][r] and c[0] != "pat":
                        problems.append("position %s is bound in the pattern but the yielded component is not the pattern term" % r)
                    if not env["bound"][r] and c[0] != "loop":
                        problems.append("position %s is unbound but the yielded component is not enumerated from an index" % r)
                byrole = dict(zip(ROLES, comps))
                for idx, order in self.orders.items():
                    keys = tuple(byrole[r] for r in order)
                    if all((idx, keys[:i]) in env["facts"] for i in (1, 2, 3)):
                        idx_used = idx
                        break
                if idx_used is None:
                    problems.append("no index holds a complete membership chain for %s: facts %s" % (norm(first)[:40], sorted((i, tuple(v[1] for v in k)) for i, k in env["facts"])))
            if self.ctx_aware and env["ctx_ok"] != fv:
                problems.append("yield is not guarded by the per-triple context filter for this triple: triples of other graphs leak into the requested graph")
        self.yields.append(_Yield(y, env["shape"], comps, problems, list(env["loops"]), idx_used, env["via"]))


def shapes():
    import itertools

    for bits in itertools.product((True, False), repeat=3):
        yield dict(zip(ROLES, bits))
