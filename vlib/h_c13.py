"""Helpers of the later C13 rules (checks/c13.py, rules i-m):

* reachability of a CFG under a fixed abstract value of some parameters (the "mode" a wrapper class is constructed in),
* the read accessors of a module of property-style wrapper classes (rdflib.extras.infixowl),
* one-shot iterator attributes (an attribute that is consumed and then reset to None) and the cache their elements go to,
* the tests on the local part of a qname before / after the call that generates (and binds) a prefix,
* (last section) PurityEffects: the effect analysis of rules a-g with return summaries of callees and with calls through a
  value (local alias, table of functions) resolved to the functions the value can denote.

Nothing here keys on local variable names, line numbers or source text: names of locals are resolved by def-use."""
from __future__ import annotations

import ast
import itertools
from typing import Iterable, Iterator, Optional

from .cfg import CFG, eval3
from .core import AnalysisError, Module, norm, own_nodes

FuncDef = (ast.FunctionDef, ast.AsyncFunctionDef)


# ----------------------------------------------------------------------------------------------------------- small things
def self_attr(e: ast.AST) -> Optional[str]:
    if isinstance(e, ast.Attribute) and isinstance(e.value, ast.Name) and e.value.id == "self":
        return e.attr
    return None


def names_in(e: ast.AST) -> set[str]:
    return {x.id for x in ast.walk(e) if isinstance(x, ast.Name)}


def class_functions(cls: ast.ClassDef) -> list[ast.FunctionDef]:
    """every def of the class body, the same-named ones (property getter / setter) included"""
    return [st for st in cls.body if isinstance(st, FuncDef)]  # type: ignore[misc]


def has_yield(fn: ast.AST) -> bool:
    return any(isinstance(n, (ast.Yield, ast.YieldFrom)) for n in own_nodes(fn))


def head_expr(node_ast: ast.AST) -> list[ast.AST]:
    """the expressions a CFG node evaluates itself (not the bodies nested under it)"""
    st = node_ast
    if isinstance(st, (ast.If, ast.While)):
        return [st.test]
    if isinstance(st, (ast.For, ast.AsyncFor)):
        return [st.iter, st.target]
    if isinstance(st, (ast.With, ast.AsyncWith)):
        return list(st.items)
    if isinstance(st, ast.Match):
        return [st.subject]
    if isinstance(st, (ast.ExceptHandler, ast.Try) + FuncDef + (ast.ClassDef,)):
        return []
    return [st]


def head_nodes(node_ast: ast.AST) -> Iterator[ast.AST]:
    for e in head_expr(node_ast):
        stack = [e]
        while stack:
            n = stack.pop()
            yield n
            if isinstance(n, FuncDef + (ast.Lambda, ast.ClassDef)):
                continue
            stack.extend(ast.iter_child_nodes(n))


def cfg_node_of(g: CFG, mod: Module, node: ast.AST) -> int:
    return g.node_of(node, mod)


def assignments(fn: ast.AST) -> Iterator[tuple[ast.expr, ast.expr, ast.AST]]:
    """(target, value, statement) of every plain / annotated assignment of the function (tuple targets not split)"""
    for n in own_nodes(fn):
        if isinstance(n, ast.Assign):
            for t in n.targets:
                yield t, n.value, n
        elif isinstance(n, ast.AnnAssign) and n.value is not None:
            yield n.target, n.value, n


def derived_names(fn: ast.AST, is_source) -> set[str]:
    """local names that (flow-insensitively) receive a value computed from a source expression"""
    out: set[str] = set()
    pairs = [(t, v) for t, v, _ in assignments(fn)]
    changed = True
    while changed:
        changed = False
        for t, v in pairs:
            if not isinstance(t, (ast.Name, ast.Tuple, ast.List)):
                continue
            if any(is_source(x) for x in ast.walk(v)) or (names_in(v) & out):
                new = names_in(t) - out
                if new:
                    out |= new
                    changed = True
    return out


# --------------------------------------------------------------------------------------- reachability under parameter values
# abstract values of an argument: 'none' (None), 'true' (truthy, not None), 'false' (falsy, not None), None = unknown
def absval(e: Optional[ast.AST]) -> Optional[str]:
    if e is None:
        return None
    if isinstance(e, ast.Constant):
        if e.value is None:
            return "none"
        return "true" if e.value else "false"
    if isinstance(e, (ast.List, ast.Tuple, ast.Set, ast.Dict)):
        n = len(e.keys) if isinstance(e, ast.Dict) else len(e.elts)
        return "true" if n else "false"
    if isinstance(e, ast.Attribute):
        # a namespace term / class attribute (OWL.ObjectProperty): an object, never None
        return "true"
    return None


def env_of(values: dict[str, Optional[str]]) -> dict[str, Optional[bool]]:
    env: dict[str, Optional[bool]] = {}
    for p, v in values.items():
        if v is None:
            continue
        env[p] = v == "true"
        env["%s is None" % p] = v == "none"
        env["%s is not None" % p] = v != "none"
        env["%s == None" % p] = v == "none"
        env["%s != None" % p] = v != "none"
    return env


def reach_under(g: CFG, env: dict[str, Optional[bool]]) -> set[int]:
    """CFG nodes reachable from the entry when the branch conditions that `env` decides take the decided edge only"""
    seen = {g.entry}
    stack = [g.entry]
    while stack:
        nid = stack.pop()
        node = g.nodes[nid]
        verdict = None
        if node.kind == "test" and node.ast is not None:
            verdict = eval3(node.ast.test, env)  # type: ignore[attr-defined]
        for m in g.succ[nid]:
            lab = g.edge_label.get((nid, m), "")
            if node.kind == "test" and lab != "exc" and verdict is not None:
                if (lab == "true") != verdict:
                    continue
            if m not in seen:
                seen.add(m)
                stack.append(m)
    return seen


def init_params(fn: ast.FunctionDef) -> tuple[list[str], dict[str, Optional[ast.AST]]]:
    """(positional parameter names after self, default expression of every parameter that has one)"""
    a = fn.args
    pos = [x.arg for x in a.posonlyargs + a.args]
    defaults: dict[str, Optional[ast.AST]] = {}
    for name, d in zip(reversed(pos), reversed(a.defaults)):
        defaults[name] = d
    for x, d in zip(a.kwonlyargs, a.kw_defaults):
        if d is not None:
            defaults[x.arg] = d
    return pos[1:], defaults


def name_values(fn: ast.AST, name: str) -> Optional[list[tuple[ast.AST, ast.AST]]]:
    """the (value, statement) of every binding of a local name, or None when some binding is not a plain `name = value`
    (a parameter, a loop target, an unpacking ...)"""
    out = []
    for a in ast.walk(fn):
        if isinstance(a, ast.arg) and a.arg == name:
            return None
    for n in own_nodes(fn):
        if isinstance(n, ast.Name) and n.id == name and isinstance(n.ctx, (ast.Store, ast.Del)):
            out.append(n)
    plain = []
    for t, v, st in assignments(fn):
        if isinstance(t, ast.Name) and t.id == name:
            plain.append((v, st))
    if len(plain) != len(out) or not plain:
        return None
    return plain


def call_arg_values(call: ast.Call, init: ast.FunctionDef, caller: ast.AST) -> dict[str, list[Optional[str]]]:
    """for every parameter of `init` (after self) the abstract values the call may pass (several when the argument is a local
    name with several plain definitions; [None] = unknown)"""
    pos, defaults = init_params(init)
    allp = pos + [x.arg for x in init.args.kwonlyargs]
    given: dict[str, ast.AST] = {}
    star = any(isinstance(a, ast.Starred) for a in call.args) or any(k.arg is None for k in call.keywords)
    for p, a in zip(pos, call.args):
        given[p] = a
    for k in call.keywords:
        if k.arg is not None:
            given[k.arg] = k.value
    out: dict[str, list[Optional[str]]] = {}
    for p in allp:
        if p in given:
            e = given[p]
            if isinstance(e, ast.Name):
                vals = name_values(caller, e.id)
                out[p] = [None] if vals is None else sorted({absval(v) for v, _ in vals}, key=str)  # type: ignore[arg-type]
            else:
                out[p] = [absval(e)]
        elif star:
            out[p] = [None]
        elif p in defaults:
            out[p] = [absval(defaults[p])]
        else:
            out[p] = [None]
    return out


# ---------------------------------------------------------------------------------------------- wrapper classes with a mode
def is_graph_receiver(e: ast.AST, params: Iterable[str]) -> bool:
    """`self.graph`, `self.factoryGraph`, `<x>.graph` or a parameter that is the graph"""
    if isinstance(e, ast.Attribute) and e.attr in ("graph", "factoryGraph"):
        return True
    return isinstance(e, ast.Name) and e.id in params and e.id in ("graph", "store")


def type_assertions(init: ast.FunctionDef) -> list[ast.AST]:
    """the statements `<graph>.add((<term>, RDF.type, <class>))` of a constructor"""
    params = [a.arg for a in init.args.args + init.args.kwonlyargs]
    out = []
    for n in own_nodes(init):
        if isinstance(n, ast.Expr) and isinstance(n.value, ast.Call):
            c = n.value
            if isinstance(c.func, ast.Attribute) and c.func.attr == "add" and is_graph_receiver(c.func.value, params) and len(c.args) == 1 \
                    and isinstance(c.args[0], ast.Tuple) and len(c.args[0].elts) == 3:
                p = c.args[0].elts[1]
                if isinstance(p, ast.Attribute) and p.attr == "type" and norm(p.value) == "RDF":
                    out.append(n)
    return out


class WrapperMode:
    """A class whose constructor asserts `self rdf:type <T>` unless a parameter says otherwise."""

    def __init__(self, mod: Module, cls: ast.ClassDef, init: ast.FunctionDef):
        self.cls = cls
        self.init = init
        self.g = CFG(init)
        self.asserts = [self.g.node_of(a, mod) for a in type_assertions(init)]
        # the asserted type when it is a fixed term (OWL.Class), None when it is a parameter
        ts = {norm(a.value.args[0].elts[2]) for a in type_assertions(init)}  # type: ignore[attr-defined]
        t = ts.pop() if len(ts) == 1 else None
        self.asserted_type = t if t is not None and "." in t and t.split(".")[0].isupper() else None
        pos, _ = init_params(init)
        self.params = pos + [x.arg for x in init.args.kwonlyargs]
        # the parameter values under which no assertion is reachable: the wrap-only mode(s)
        self.wrap_only: list[tuple[str, str]] = []
        for p in self.params:
            for v in ("none", "true", "false"):
                if not self.asserting({p: v}):
                    self.wrap_only.append((p, v))

    def asserting(self, values: dict[str, Optional[str]]) -> bool:
        r = reach_under(self.g, env_of(values))
        return any(a in r for a in self.asserts)

    def gating_params(self) -> list[str]:
        return sorted({p for p, _ in self.wrap_only})

    def mode_text(self) -> str:
        show = {"none": "None", "true": "True", "false": "False"}
        # one value per parameter, the one a caller would write
        seen: dict[str, str] = {}
        for p, v in self.wrap_only:
            seen.setdefault(p, show[v])
        return " / ".join("%s=%s" % kv for kv in sorted(seen.items()))

    def call_may_assert(self, call: ast.Call, caller: ast.AST) -> Optional[dict[str, Optional[str]]]:
        """a combination of argument values the call may pass under which the type assertion is reachable (None = there is none)"""
        vals = call_arg_values(call, self.init, caller)
        gate = self.gating_params()
        for combo in itertools.product(*[vals[p] for p in gate]):
            values = dict(zip(gate, combo))
            if self.asserting(values):
                return values
        return None


def found_as_type(fn: ast.AST, call: ast.Call, type_text: Optional[str]) -> bool:
    """is the term the call wraps a loop variable that ranges over `<graph>.subjects(predicate=RDF.type, object=<T>)` with <T> the
    very type the constructor would assert?  (the assertion is then about a triple that was just read: it adds nothing)"""
    if type_text is None:
        return False
    arg: Optional[ast.AST] = call.args[0] if call.args else None
    for k in call.keywords:
        if k.arg == "identifier":
            arg = k.value
    if not isinstance(arg, ast.Name):
        return False
    binds = [n for n in own_nodes(fn, include_nested=True) if isinstance(n, ast.Name) and n.id == arg.id and isinstance(n.ctx, (ast.Store, ast.Del))]
    if any(isinstance(a, ast.arg) and a.arg == arg.id for a in ast.walk(fn)):
        return False
    loops = [n for n in own_nodes(fn, include_nested=True) if isinstance(n, (ast.For, ast.AsyncFor)) and isinstance(n.target, ast.Name) and n.target.id == arg.id]
    if not loops or len(loops) != len(binds):
        return False
    for lp in loops:
        hit = False
        for c in ast.walk(lp.iter):
            if isinstance(c, ast.Call) and isinstance(c.func, ast.Attribute) and c.func.attr == "subjects":
                kw = {k.arg: norm(k.value) for k in c.keywords if k.arg}
                pos = [norm(a) for a in c.args]
                pred = kw.get("predicate", pos[0] if pos else None)
                obj = kw.get("object", pos[1] if len(pos) > 1 else None)
                if pred == "RDF.type" and obj == type_text:
                    hit = True
        if not hit:
            return False
    return True


def wrapper_modes(mod: Module) -> dict[str, WrapperMode]:
    out = {}
    for st in mod.tree.body:
        if isinstance(st, ast.ClassDef):
            inits = [f for f in class_functions(st) if f.name == "__init__"]
            if not inits or not type_assertions(inits[-1]):
                continue
            w = WrapperMode(mod, st, inits[-1])
            if w.wrap_only:
                out[st.name] = w
    return out


# ------------------------------------------------------------------------------------------------------------ read accessors
READ_DUNDERS = {"__repr__", "__str__", "__hash__", "__eq__", "__ne__", "__len__", "__iter__", "__contains__", "__getitem__", "__bool__",
                "__lt__", "__le__", "__gt__", "__ge__"}


def _local_related(mod: Module) -> dict[str, set[str]]:
    """class name -> the module's classes it is related to by inheritance (ancestors, descendants, itself)"""
    bases: dict[str, set[str]] = {}
    classes = {st.name: st for st in mod.tree.body if isinstance(st, ast.ClassDef)}
    for n, c in classes.items():
        bases[n] = {b.id for b in c.bases if isinstance(b, ast.Name) and b.id in classes}
    anc: dict[str, set[str]] = {}

    def up(n: str) -> set[str]:
        if n not in anc:
            anc[n] = set()
            for b in bases[n]:
                anc[n] |= {b} | up(b)
        return anc[n]

    rel = {n: {n} | up(n) for n in classes}
    for n in classes:
        for a in up(n):
            rel[a].add(n)
    return rel


def read_accessors(mod: Module) -> dict[str, tuple[ast.FunctionDef, str]]:
    """qualified name -> (function, why it is a reader): property getters, read dunders, module-level generators, and the functions of
    the module these call by name (`f(...)`, `self.m(...)`), transitively; constructors, setters and deleters are never readers"""
    classes = {st.name: st for st in mod.tree.body if isinstance(st, ast.ClassDef)}
    modfuncs = {st.name: st for st in mod.tree.body if isinstance(st, FuncDef)}
    related = _local_related(mod)
    out: dict[str, tuple[ast.FunctionDef, str]] = {}
    key_of: dict[int, str] = {}
    writers: set[int] = set()  # setters / deleters / constructors
    work: list[tuple[str, ast.FunctionDef, Optional[str]]] = []

    def add(q: str, f: ast.FunctionDef, cname: Optional[str], why: str) -> None:
        if id(f) in key_of or id(f) in writers:
            return
        k = q
        n = 2
        while k in out:  # same-named defs of a class body
            k = "%s#%d" % (q, n)
            n += 1
        key_of[id(f)] = k
        out[k] = (f, why)
        work.append((k, f, cname))

    holds = {n for n, c in classes.items() if any(self_attr(x) in ("graph", "factoryGraph") for x in ast.walk(c))}
    for cname, c in classes.items():
        funcs = class_functions(c)
        getters: set[str] = set()
        for st in c.body:
            v = getattr(st, "value", None)
            if isinstance(st, (ast.Assign, ast.AnnAssign)) and isinstance(v, ast.Call) and norm(v.func) == "property":
                roles = list(v.args) + [None] * (3 - len(v.args))
                for k in v.keywords:
                    if k.arg in ("fget", "fset", "fdel"):
                        roles[("fget", "fset", "fdel").index(k.arg)] = k.value
                if isinstance(roles[0], ast.Name):
                    getters.add(roles[0].id)
                for r in roles[1:3]:
                    if isinstance(r, ast.Name):
                        writers.update(id(f) for f in funcs if f.name == r.id)
        for f in funcs:
            decos = [norm(d) for d in f.decorator_list]
            if f.name == "__init__" or any(d.endswith((".setter", ".deleter")) for d in decos):
                writers.add(id(f))
        if not (related[cname] & holds):
            continue  # not a view of a graph (a namespace / helper class): its accessors read no graph
        for f in funcs:
            decos = [norm(d) for d in f.decorator_list]
            if f.name in getters or "property" in decos or any(d.endswith(".getter") for d in decos):
                add("%s.%s" % (cname, f.name), f, cname, "property getter")
            elif f.name in READ_DUNDERS:
                add("%s.%s" % (cname, f.name), f, cname, "read dunder")
    for name, f in modfuncs.items():
        if has_yield(f):
            add(name, f, None, "module-level generator")
    while work:
        k, f, cname = work.pop()
        for n in own_nodes(f, include_nested=True):
            if not isinstance(n, ast.Call):
                continue
            if isinstance(n.func, ast.Name) and n.func.id in modfuncs:
                add(n.func.id, modfuncs[n.func.id], None, "called by reader %s" % k)
            elif isinstance(n.func, ast.Attribute) and isinstance(n.func.value, ast.Name) and n.func.value.id == "self" and cname:
                for rc in sorted(related.get(cname, ())):
                    for m in class_functions(classes[rc]):
                        if m.name == n.func.attr:
                            add("%s.%s" % (rc, m.name), m, rc, "called by reader %s" % k)
    return out


def guard_position(mod: Module, fn: ast.AST, st: ast.AST) -> tuple[str, Optional[ast.If]]:
    """where a statement stands with respect to its nearest enclosing `if` inside fn: 'positive' (in the body of an if/elif),
    'catch-all' (in an else branch), 'unconditional' (no enclosing if)"""
    child = st
    for p in mod.parents(st):
        if isinstance(p, ast.If):
            if any(child is s for s in p.body):
                return "positive", p
            return "catch-all", p
        if p is fn:
            break
        child = p
    return "unconditional", None


# ------------------------------------------------------------------------------------------------ one-shot iterator attributes
BULK = ("list", "tuple", "sorted", "set", "frozenset", "deque")
STORE_METHODS = ("append", "extend", "insert", "appendleft")


class Consumption:
    def __init__(self, kind: str, expr: ast.AST, stmt: ast.AST, attr: str):
        self.kind = kind  # 'next' | 'for' | 'bulk'
        self.expr = expr  # the consuming expression (next(...) / list(...) / the For)
        self.stmt = stmt  # statement (CFG node ast) evaluating it
        self.attr = attr


def _stmt_of(mod: Module, fn: ast.AST, e: ast.AST) -> ast.AST:
    if isinstance(e, ast.stmt):
        return e
    child = e
    for p in mod.parents(e):
        if isinstance(p, ast.stmt) and not isinstance(p, FuncDef + (ast.ClassDef,)):
            return p
        if p is fn:
            break
        child = p
    raise AnalysisError("no statement for %s" % norm(child)[:60])


def consumptions(mod: Module, fn: ast.AST, attrs: Optional[set[str]] = None) -> list[Consumption]:
    """the places where fn takes elements out of an iterator held in a self attribute"""
    out = []
    for n in own_nodes(fn):
        if isinstance(n, ast.Call) and isinstance(n.func, ast.Name) and n.args and self_attr(n.args[0]):
            a = self_attr(n.args[0])
            if n.func.id == "next":
                out.append(Consumption("next", n, _stmt_of(mod, fn, n), a))  # type: ignore[arg-type]
            elif n.func.id in BULK:
                out.append(Consumption("bulk", n, _stmt_of(mod, fn, n), a))  # type: ignore[arg-type]
        elif isinstance(n, (ast.For, ast.AsyncFor)) and self_attr(n.iter):
            out.append(Consumption("for", n, n, self_attr(n.iter)))  # type: ignore[arg-type]
        elif isinstance(n, (ast.ListComp, ast.SetComp, ast.GeneratorExp, ast.DictComp)) and any(self_attr(c.iter) for c in n.generators):
            a = [self_attr(c.iter) for c in n.generators if self_attr(c.iter)][0]
            out.append(Consumption("bulk", n, _stmt_of(mod, fn, n), a))  # type: ignore[arg-type]
        elif isinstance(n, ast.Call) and isinstance(n.func, ast.Attribute) and n.func.attr == "extend" and n.args and self_attr(n.args[0]):
            out.append(Consumption("bulk", n.args[0], _stmt_of(mod, fn, n), self_attr(n.args[0])))  # type: ignore[arg-type]
        elif isinstance(n, ast.AugAssign) and self_attr(n.value):
            out.append(Consumption("bulk", n.value, n, self_attr(n.value)))  # type: ignore[arg-type]
    if attrs is not None:
        out = [c for c in out if c.attr in attrs]
    return out


def one_shot_attrs(mod: Module, cls: ast.ClassDef) -> set[str]:
    """attributes A of self such that some method takes elements out of self.A and also resets `self.A = None`: an iterator
    that can be run once and is dropped when exhausted"""
    out: set[str] = set()
    for f in class_functions(cls):
        if f.name == "__init__":
            continue
        cons = {c.attr for c in consumptions(mod, f)}
        if not cons:
            continue
        for t, v, _ in assignments(f):
            a = self_attr(t)
            if a in cons and isinstance(v, ast.Constant) and v.value is None:
                out.add(a)  # type: ignore[arg-type]
    return out


def cache_store(st: ast.AST) -> Optional[tuple[str, list[ast.AST]]]:
    """(cache attribute, stored expressions) when the statement puts values into a list held in a self attribute:
    self.C.append(v) / .extend(vs) / .insert(i, v) / self.C += vs"""
    if isinstance(st, ast.Expr) and isinstance(st.value, ast.Call):
        c = st.value
        if isinstance(c.func, ast.Attribute) and c.func.attr in STORE_METHODS and self_attr(c.func.value):
            return self_attr(c.func.value), list(c.args)  # type: ignore[return-value]
    if isinstance(st, ast.AugAssign) and isinstance(st.op, ast.Add) and self_attr(st.target):
        return self_attr(st.target), [st.value]  # type: ignore[return-value]
    return None


def yield_nodes(g: CFG) -> set[int]:
    out = set()
    for n in g.nodes:
        if n.ast is not None and any(isinstance(x, (ast.Yield, ast.YieldFrom)) for x in head_nodes(n.ast)):
            out.add(n.id)
    return out


def element_name(c: Consumption) -> Optional[str]:
    """the local name that receives the element(s) taken, when they are not stored directly"""
    if c.kind == "for":
        t = c.expr.target  # type: ignore[attr-defined]
        return t.id if isinstance(t, ast.Name) else None
    st = c.stmt
    if isinstance(st, ast.Assign) and len(st.targets) == 1 and isinstance(st.targets[0], ast.Name) and st.value is c.expr:
        return st.targets[0].id
    if isinstance(st, ast.AnnAssign) and isinstance(st.target, ast.Name) and st.value is c.expr:
        return st.target.id
    return None


def stores_of(fn: ast.AST, name: Optional[str], direct: Optional[ast.AST] = None) -> list[tuple[ast.AST, str]]:
    """the cache stores of fn whose stored expression is the element: the name alone (or the consuming expression itself)"""
    out = []
    for n in own_nodes(fn):
        cs = cache_store(n)
        if cs is None:
            continue
        attr, exprs = cs
        for e in exprs:
            if (direct is not None and any(x is direct for x in ast.walk(e))) or (name is not None and isinstance(e, ast.Name) and e.id == name):
                out.append((n, attr))
    return out


def every_element_cached(mod: Module, fn: ast.AST, g: CFG, c: Consumption) -> tuple[bool, str, set[str]]:
    """is every element taken at c put into a cache list before the function yields, returns or takes the next one?
    -> (ok, why, cache attributes used)"""
    direct = stores_of(fn, None, c.expr if c.kind != "for" else None)
    src = g.node_of(c.stmt, mod)
    if any(st is c.stmt for st, _ in direct):
        return True, "the element goes straight into self.%s" % direct[0][1], {a for _, a in direct}
    name = element_name(c)
    if name is None:
        return False, "the element taken from self.%s is not kept in a local name nor stored" % c.attr, set()
    stores = stores_of(fn, name)
    if not stores:
        return False, "no statement stores the element taken from self.%s into a cache list" % c.attr, set()
    through = {g.node_of(st, mod) for st, _ in stores}
    stops = {g.exit, src} | yield_nodes(g)
    if c.kind == "for":
        starts = {m for m in g.succ[src] if g.edge_label.get((src, m)) == "true"}
    else:
        starts = {m for m in g.succ[src] if g.edge_label.get((src, m)) != "exc"}
    seen: set[int] = set()
    for s in starts:
        if s in through:
            continue
        seen |= {s} | g.reach(s, avoid=through, skip_exc=True)
    bad = seen & stops
    if bad:
        b = src if src in bad else sorted(bad - {g.exit} or bad)[0]
        what = "the end of the function" if b == g.exit else ("where the next element is taken" if b == src else "a yield")
        return False, "a path leads from taking the element to %s without self.%s.%s(...) of it" % (
            what, stores[0][1], "append"), {a for _, a in stores}
    return True, "every path from taking the element passes the store into self.%s first" % stores[0][1], {a for _, a in stores}


def cache_reads(mod: Module, g: CFG, cache: set[str]) -> set[int]:
    """CFG nodes that read a cache list (len / index / iterate / pass on), not merely append to it"""
    out = set()
    for n in g.nodes:
        if n.ast is None:
            continue
        cs = cache_store(n.ast)
        for x in head_nodes(n.ast):
            if isinstance(x, ast.Attribute) and self_attr(x) in cache and isinstance(x.ctx, ast.Load):
                par = mod.parent.get(id(x))
                if isinstance(par, ast.Attribute) and par.attr in STORE_METHODS and isinstance(mod.parent.get(id(par)), ast.Call):
                    continue  # receiver of append
                if cs is not None and isinstance(n.ast, ast.AugAssign) and x is n.ast.target:
                    continue
                out.add(n.id)
    return out


# -------------------------------------------------------------------------------------- prefix generation and its usability
QNAME_CALLS = ("compute_qname", "compute_qname_strict")


def qname_calls(fn: ast.AST) -> list[tuple[ast.Call, bool]]:
    """(call, may it generate and bind a prefix) for every <x>.compute_qname[_strict](...) of fn"""
    out = []
    for n in own_nodes(fn):
        if isinstance(n, ast.Call) and isinstance(n.func, ast.Attribute) and n.func.attr in QNAME_CALLS and n.args:
            gen: Optional[ast.AST] = n.args[1] if len(n.args) > 1 else None
            for k in n.keywords:
                if k.arg == "generate":
                    gen = k.value
            generating = not (isinstance(gen, ast.Constant) and not gen.value)
            out.append((n, generating))
    return out


class Pred:
    """a test on a string: R.search(s) / R.match(s) / R.fullmatch(s) or s.endswith('.') / s.startswith(...)"""

    def __init__(self, call: ast.Call, sig: tuple, subject: ast.AST):
        self.call = call
        self.sig = sig
        self.subject = subject


def string_preds(e: ast.AST) -> list[Pred]:
    out = []
    for n in ast.walk(e):
        if not (isinstance(n, ast.Call) and isinstance(n.func, ast.Attribute)):
            continue
        f = n.func
        if f.attr in ("search", "match", "fullmatch") and len(n.args) >= 1 and isinstance(f.value, (ast.Name, ast.Attribute)):
            out.append(Pred(n, ("re", norm(f.value), f.attr), n.args[0]))
        elif f.attr in ("endswith", "startswith", "__contains__", "isidentifier") and all(isinstance(a, ast.Constant) for a in n.args):
            out.append(Pred(n, ("str", f.attr, tuple(norm(a) for a in n.args)), f.value))
    return out


def returns_nothing(body: list[ast.stmt]) -> bool:
    for st in body:
        for n in [st] + [x for x in ast.walk(st) if not isinstance(x, FuncDef + (ast.Lambda,))]:
            if isinstance(n, ast.Return) and (n.value is None or (isinstance(n.value, ast.Constant) and n.value.value is None)):
                return True
    return False


def raw_local_of(fn: ast.AST, e: ast.AST, uri_text: str, depth: int = 0) -> tuple[bool, bool]:
    """(is e exactly the local name split_uri(<uri>)[1], does e at least contain it) - names resolved by def-use"""

    def is_split(c: ast.AST) -> bool:
        return isinstance(c, ast.Call) and norm(c.func).split(".")[-1] == "split_uri" and bool(c.args) and norm(c.args[0]) == uri_text

    if isinstance(e, ast.Subscript) and is_split(e.value) and isinstance(e.slice, ast.Constant) and e.slice.value == 1:
        return True, True
    if isinstance(e, ast.Name) and depth < 4:
        defs = []
        for t, v, _ in assignments(fn):
            if isinstance(t, ast.Name) and t.id == e.id:
                defs.append(("plain", v))
            elif isinstance(t, (ast.Tuple, ast.List)):
                for i, el in enumerate(t.elts):
                    if isinstance(el, ast.Name) and el.id == e.id:
                        defs.append(("unpack%d" % i, v))
        if len(defs) == 1:
            kind, v = defs[0]
            if kind == "plain":
                return raw_local_of(fn, v, uri_text, depth + 1)
            if kind == "unpack1" and is_split(v):
                return True, True
            return False, False
        return False, False
    contains = False
    for x in ast.walk(e):
        if x is not e and isinstance(x, (ast.Subscript, ast.Name)):
            if raw_local_of(fn, x, uri_text, depth + 1)[0]:
                contains = True
    return False, contains


def edge_starts(g: CFG, test: int, value: bool) -> set[int]:
    """successors of a test node taken when the test has the given truth value"""
    out = set()
    for m in g.succ[test]:
        lab = g.edge_label.get((test, m), "")
        if lab == "exc":
            continue
        if (lab == "true") == value:
            out.add(m)
    return out


# ------------------------------------------------------------------------------ rule f: the read side of a store class, by role
# The read entry points are the PUBLIC names of the Store API (they cannot be renamed without breaking every caller); the private
# helpers a read relies on are whatever methods of the class those entry points reach through `self.<method>`, under any name.
STORE_READ_API = ("triples", "triples_choices", "__len__", "contexts", "namespaces", "prefix", "namespace", "query")


def _method_ref(cls: ast.ClassDef, e: ast.AST, defined: set[str]) -> Optional[str]:
    """`self.<m>` naming a method the class defines (a name-mangled reference spelled out, `self._<Class>__m`, included)"""
    a = self_attr(e)
    if a is None:
        return None
    if a in defined:
        return a
    pre = "_" + cls.name.lstrip("_")
    if a.startswith(pre + "__") and a[len(pre):] in defined:
        return a[len(pre):]
    return None


def store_read_methods(cls: ast.ClassDef) -> dict[str, list[ast.FunctionDef]]:
    """the read entry points the class defines + every method of the class reachable from them through a `self.<method>`
    reference (called or passed on), transitively; every def of a name (overload stubs, getter/setter) is kept"""
    by_name: dict[str, list[ast.FunctionDef]] = {}
    for f in class_functions(cls):
        by_name.setdefault(f.name, []).append(f)
    defined = set(by_name)
    todo = [n for n in STORE_READ_API if n in defined]
    seen: dict[str, list[ast.FunctionDef]] = {}
    while todo:
        n = todo.pop()
        if n in seen:
            continue
        seen[n] = by_name[n]
        for f in by_name[n]:
            for x in own_nodes(f, include_nested=True):
                m = _method_ref(cls, x, defined)
                if m is not None and m not in seen:
                    todo.append(m)
    return seen


def lookup_only_tables(mod: Module, cls: ast.ClassDef) -> set[str]:
    """the attributes self.<A> that __init__ binds to an empty dict and that the class uses for point access only: `self.A[k]`
    (read or store), `k in self.A`, `self.A.get(k[, d])`.  Such a table is never enumerated, measured, handed out, rebound or
    deleted from, so an entry stored under k is observable through a lookup of that very k and through nothing else"""
    bound: set[str] = set()
    bad: set[str] = set()
    for f in class_functions(cls):
        for x in own_nodes(f, include_nested=True):
            a = self_attr(x)
            if a is None:
                continue
            par = mod.parent.get(id(x))
            if isinstance(par, (ast.Assign, ast.AnnAssign)) and x in (par.targets if isinstance(par, ast.Assign) else [par.target]):
                v = par.value
                empty = (isinstance(v, ast.Dict) and not v.keys) or (isinstance(v, ast.Call) and isinstance(v.func, ast.Name) and v.func.id == "dict" and not v.args and not v.keywords)
                if f.name == "__init__" and empty and a not in bound:
                    bound.add(a)
                else:
                    bad.add(a)
                continue
            if isinstance(par, ast.Subscript) and par.value is x and isinstance(par.ctx, (ast.Load, ast.Store)):
                continue
            if isinstance(par, ast.Compare) and x in par.comparators and all(isinstance(o, (ast.In, ast.NotIn)) for o in par.ops) and len(par.ops) == 1:
                continue
            if isinstance(par, ast.Attribute) and par.attr == "get" and par.value is x:
                call = mod.parent.get(id(par))
                if isinstance(call, ast.Call) and call.func is par and 1 <= len(call.args) <= 2 and not call.keywords:
                    continue
            bad.add(a)
    return bound - bad


def _string_of(e: ast.AST, v: str) -> bool:
    """a string built from the name v alone (v, attributes of v): f-string, "<literal>".format(..), "<literal>" % .., str(..)"""
    if not (names_in(e) - {"str", "repr"} == {v}):
        return False
    if isinstance(e, ast.JoinedStr):
        return True
    if isinstance(e, ast.BinOp) and isinstance(e.op, ast.Mod) and isinstance(e.left, ast.Constant) and isinstance(e.left.value, str):
        return True
    if isinstance(e, ast.Call) and isinstance(e.func, ast.Attribute) and e.func.attr == "format" and isinstance(e.func.value, ast.Constant) and isinstance(e.func.value.value, str):
        return not any(isinstance(a, ast.Starred) for a in e.args) and all(k.arg for k in e.keywords)
    if isinstance(e, ast.Call) and isinstance(e.func, ast.Name) and e.func.id in ("str", "repr") and len(e.args) == 1 and not e.keywords:
        return True
    return False


def interning_store(mod: Module, fn: ast.AST, st: ast.AST, tables: set[str]) -> bool:
    """st is `self.A[k] = v`: A a lookup-only table of the class, v a parameter of fn that fn never rebinds, k a local name
    every binding of which in fn is a string built from v alone.  The key is then a function of the stored object: whatever
    object sits under k has the identity k spells, so the write cannot change which key a lookup finds nor make it find an
    object of another identity - it is an interning memo, not triple / graph-set state"""
    if not isinstance(st, ast.Assign) or len(st.targets) != 1:
        return False
    t = st.targets[0]
    if not (isinstance(t, ast.Subscript) and self_attr(t.value) in tables and isinstance(t.slice, ast.Name) and isinstance(st.value, ast.Name)):
        return False
    k, v = t.slice.id, st.value.id
    args = getattr(fn, "args", None)
    if args is None:
        return False
    params = {a.arg for a in args.posonlyargs + args.args + args.kwonlyargs}
    if v not in params or k in params or k == v:
        return False
    n_bind = 0
    for x in own_nodes(fn, include_nested=True):
        if isinstance(x, ast.Name) and isinstance(x.ctx, (ast.Store, ast.Del)):
            if x.id == v:
                return False
            if x.id == k:
                par = mod.parent.get(id(x))
                if not (isinstance(par, ast.Assign) and par.targets == [x] and _string_of(par.value, v)):
                    return False
                n_bind += 1
        if isinstance(x, (ast.Global, ast.Nonlocal)) and (k in x.names or v in x.names):
            return False
        if isinstance(x, ast.arg) and x.arg in (k, v) and mod.parent.get(id(mod.parent.get(id(x)))) is not fn:
            return False  # a nested def / lambda re-declares the name
    return n_bind > 0


# ------------------------------------------------------------------------------ the effect analysis, two notions made semantic
# (rules a-g of checks/c13.py run on this subclass of vlib/effects.py; nothing below keys on a name of the package)
#
# 1. WHAT A CALL RETURNS.  The base interpreter takes the result of a call of a package function to alias the receiver and every
#    argument.  That is a safe guess, and it is the guess that turns `retval = <fresh graph>` into `retval = self.<helper>()` =
#    "rooted at self" when the construction of the fresh graph is moved into a helper.  Here the origin of the result is what the
#    callee's `return` statements say (its *return summary*: the parameter-rooted paths a returned value may alias, computed by
#    the same interpreter on the callee's body, i.e. what inlining the body would give), mapped through the call's arguments.  The
#    guess stays wherever the summary is not available: a callee mypy did not resolve to package functions (all of them, closed
#    under overrides), a generator / async / decorated callee, a constructor, `*args`/`**kw` at the call, a recursive cycle, a
#    returned path that cannot be mapped back to an argument.
#
# 2. WHAT A CALL CALLS.  A call whose callee expression mypy cannot name (`f = TABLE.get(k)` ... `f(a)`, `TABLE[k](a)`, a local
#    alias `f = g if c else h`) had no callee at all, so what it does was invisible.  Here the callee expression is evaluated to
#    the set of package functions it can denote: a reference to a function; a local name -> every value bound to it; a lookup in
#    a literal table (dict / list / tuple display bound once at module or class level) -> every function the table maps to, plus
#    the default of `.get(k, default)`; a conditional / boolean expression -> every operand.
from .effects import Effects, FuncInfo, _Interp, _path as _eff_path  # noqa: E402


def _is_generator(fn: ast.AST) -> bool:
    return isinstance(fn, ast.AsyncFunctionDef) or has_yield(fn)


def _plain_decorators(fn: ast.AST) -> bool:
    """only decorators that leave the function's own return value to the caller"""
    for d in getattr(fn, "decorator_list", []):
        if norm(d).split(".")[-1] not in ("staticmethod", "overload"):
            return False
    return True


class PurityEffects(Effects):
    def __init__(self, repo):
        super().__init__(repo)
        self._ret: dict[str, Optional[frozenset]] = {}
        self._ret_stack: list[str] = []  # the functions whose return summary is being computed, outermost first
        self._ret_low = 1 << 30  # lowest position of that stack a finished computation met in progress (a recursive cycle)
        self._tables: dict[tuple[str, str], Optional[list[tuple[str, ast.AST]]]] = {}
        self._locals: dict[int, set[str]] = {}
        self.n_return_summaries_used = 0
        self.n_table_calls = 0

    # -- the interpreter with the two refinements
    def interpret_all(self) -> None:
        if self._interpreted:
            return
        self._pending = list(self.funcs.keys())
        while self._pending:
            k = self._pending.pop()
            _PurityInterp(self, self.funcs[k]).run()
        self._interpreted = True

    # -- 1. return summaries
    def return_origin(self, full: str) -> Optional[frozenset]:
        """the paths (rooted at the callee's own parameters) a value returned by `full` may alias; frozenset() = always a fresh /
        pure-data value; None = not known (the caller keeps the conservative guess)"""
        if full in self._ret:
            return self._ret[full]
        fi = self.funcs.get(full)
        if fi is None or _is_generator(fi.node) or not _plain_decorators(fi.node):
            return None
        if full in self._ret_stack:
            self._ret_low = min(self._ret_low, self._ret_stack.index(full))
            return None  # a recursive cycle: the guess, for this one occurrence
        pos = len(self._ret_stack)
        self._ret_stack.append(full)
        try:
            probe = fi.variant({})
            probe.full = full
            it = _PurityInterp(self, probe)
            it.returns = []
            it.run()
            out: frozenset = frozenset()
            for o in it.returns:
                out |= o
            names = set(fi.params) | ({fi.vararg} if fi.vararg else set()) | ({fi.kwarg} if fi.kwarg else set())
            res: Optional[frozenset] = out
            if fi.outer is None and any(p.split(".")[0] not in names for p in out):
                res = None  # rooted at something that is no parameter: not expressible to the caller
        finally:
            self._ret_stack.pop()
        if self._ret_low >= pos:
            # nothing it used was the guess for a function still in progress further out: this is the function's own summary
            self._ret[full] = res
            self._ret_low = 1 << 30
        return res

    # -- 2. the functions a callee expression can denote
    def resolve_targets(self, modname: str, call: ast.Call, fi: FuncInfo) -> list[str]:
        out = super().resolve_targets(modname, call, fi)
        if any(t in self.funcs for t in out):
            return out
        if isinstance(call.func, ast.Attribute):
            return out  # a method of a receiver mypy knows nothing about: the base engine's untyped-receiver rule judges it
        den = self.denoted_functions(modname, call.func, fi.node, 0)
        if den:
            self.n_table_calls += 1
            return sorted(den)
        return out

    def denoted_functions(self, modname: str, e: ast.AST, fn: Optional[ast.AST], depth: int) -> set[str]:
        if depth > 6:
            return set()
        if isinstance(e, (ast.Name, ast.Attribute)):
            ref = self.typed.ref(modname, e)
            if ref and ref in self.funcs:
                if isinstance(e, ast.Attribute) and self.funcs[ref].is_method:
                    owner = self.typed.ref(modname, e.value) if isinstance(e.value, (ast.Name, ast.Attribute)) else None
                    if owner not in self.typed.classes:
                        return set()  # a bound method: its receiver is not among the arguments of the call, not modelled
                return {ref}
        if isinstance(e, ast.Name) and fn is not None:
            if e.id not in self.local_names(fn):
                return set()  # a builtin, a module-level object that is no package function, a parameter
            vals = name_values(fn, e.id)
            out: set[str] = set()
            for v, _ in vals or ():
                out |= self.denoted_functions(modname, v, fn, depth + 1)
            return out
        if isinstance(e, ast.IfExp):
            return self.denoted_functions(modname, e.body, fn, depth + 1) | self.denoted_functions(modname, e.orelse, fn, depth + 1)
        if isinstance(e, ast.BoolOp):
            out = set()
            for v in e.values:
                out |= self.denoted_functions(modname, v, fn, depth + 1)
            return out
        if isinstance(e, ast.NamedExpr):
            return self.denoted_functions(modname, e.value, fn, depth + 1)
        table = None
        extra: list[ast.AST] = []
        if isinstance(e, ast.Subscript):
            table = e.value
        elif isinstance(e, ast.Call) and isinstance(e.func, ast.Attribute) and e.func.attr in ("get", "pop", "setdefault", "__getitem__"):
            table = e.func.value
            extra = list(e.args[1:]) + [k.value for k in e.keywords]
        if table is None:
            return set()
        rows = self.table_values(modname, table)
        if rows is None:
            return set()
        out = set()
        for m, v in rows:
            out |= self.denoted_functions(m, v, None, depth + 1)
        for x in extra:
            out |= self.denoted_functions(modname, x, fn, depth + 1)
        return out

    def local_names(self, fn: ast.AST) -> set[str]:
        """the names the function binds itself (nested defs not entered)"""
        got = self._locals.get(id(fn))
        if got is None:
            got = self._locals[id(fn)] = {n.id for n in own_nodes(fn) if isinstance(n, ast.Name) and isinstance(n.ctx, ast.Store)}
        return got

    def table_values(self, modname: str, t: ast.AST) -> Optional[list[tuple[str, ast.AST]]]:
        """(module, value expression) of every entry of the literal table the expression `t` refers to: a dict / list / tuple display
        bound by the one assignment to that name at module or class level"""
        if not isinstance(t, (ast.Name, ast.Attribute)):
            return None
        ref = self.typed.ref(modname, t)
        cands = []
        if ref:
            parts = ref.split(".")
            for i in range(len(parts) - 1, 0, -1):
                if ".".join(parts[:i]) in self.repo.modules:
                    cands.append((".".join(parts[:i]), parts[i:]))
                    break
        if isinstance(t, ast.Name):
            cands.append((modname, [t.id]))
        for m, q in cands:
            key = (m, ".".join(q))
            if key not in self._tables:
                self._tables[key] = self._find_table(m, q)
            if self._tables[key] is not None:
                return self._tables[key]
        return None

    def _find_table(self, m: str, q: list[str]) -> Optional[list[tuple[str, ast.AST]]]:
        mod = self.repo.modules[m]
        holder: ast.AST = mod.tree
        for cname in q[:-1]:
            nxt = [st for st in holder.body if isinstance(st, ast.ClassDef) and st.name == cname]  # type: ignore[attr-defined]
            if not nxt:
                return None
            holder = nxt[-1]
        binds = []
        for st in holder.body:  # type: ignore[attr-defined]
            if isinstance(st, ast.Assign) and any(isinstance(x, ast.Name) and x.id == q[-1] for x in st.targets):
                binds.append(st.value)
            elif isinstance(st, ast.AnnAssign) and isinstance(st.target, ast.Name) and st.target.id == q[-1] and st.value is not None:
                binds.append(st.value)
        if len(binds) != 1:
            return None
        v = binds[0]
        if isinstance(v, ast.Dict):
            return [(m, x) for x in v.values if x is not None]
        if isinstance(v, (ast.List, ast.Tuple)):
            return [(m, x) for x in v.elts]
        return None


class _PurityInterp(_Interp):
    returns: Optional[list] = None

    def stmt(self, s: ast.stmt, st: dict) -> dict:
        if self.returns is not None and isinstance(s, ast.Return):
            o = self.origin(s.value, st) if s.value is not None else frozenset()
            # what the function has put into the fields of the object it hands back comes with it
            p = _eff_path(s.value) if s.value is not None else None
            if p is not None:
                for k, v in st.items():
                    if k.startswith(p + "."):
                        o |= v
            self.returns.append(o)
        return super().stmt(s, st)

    def call_origin(self, c: ast.Call, st: dict) -> frozenset:
        guess = super().call_origin(c, st)
        if not guess:
            return guess
        o = self.summarised_origin(c, st)
        if o is None:
            return guess
        self.eff.n_return_summaries_used += 1
        return o

    def summarised_origin(self, c: ast.Call, st: dict) -> Optional[frozenset]:
        mn = self.mod.name
        cal = self.typed.callees(mn, c)
        f = c.func
        if not cal or any(x.endswith(".__init__") for x in cal) or not isinstance(f, (ast.Name, ast.Attribute)):
            return None
        if any(isinstance(a, ast.Starred) for a in c.args) or any(k.arg is None for k in c.keywords):
            return None
        targets = Effects.resolve_targets(self.eff, mn, c, self.fi)  # what mypy resolved, closed under overrides - nothing denoted
        if not targets:
            return None
        out: frozenset = frozenset()
        for t in targets:
            callee = self.eff.funcs.get(t)
            if callee is None:
                return None
            ro = self.eff.return_origin(t)
            if ro is None:
                return None
            if not ro:
                continue
            amap = self.arg_map(c, t, callee, st)
            for path in ro:
                root, _, rest = path.partition(".")
                o = amap.get((root, rest))
                if o is None and rest and (root, "@name") in amap:
                    o = frozenset("%s.%s" % (n, rest) for n in amap[(root, "@name")])
                if o is None:
                    o = amap.get((root, ""))
                if o is None:
                    if root in callee.params:
                        o = frozenset()  # not passed: the parameter's default, an object of the module
                    else:
                        return None  # *args / **kw of the callee, or a variable of an enclosing function that is not in sight here
                out |= o
        return out

    def arg_map(self, c: ast.Call, t: str, callee: FuncInfo, st: dict) -> dict:
        """(parameter of the callee, field) -> origin of what the call passes for it; the mapping `call_event` of the base builds"""
        mn = self.mod.name
        f = c.func
        amap: dict[tuple[str, str], frozenset] = {}
        params = list(callee.params)
        recv_expr = None
        if callee.is_method and isinstance(f, ast.Attribute):
            ref = self.typed.ref(mn, f.value) if isinstance(f.value, (ast.Name, ast.Attribute)) else None
            if ref and ref in self.typed.classes:
                pass  # Class.method(self_arg, ...): positional from the first parameter
            elif isinstance(f.value, ast.Call) and isinstance(f.value.func, ast.Name) and f.value.func.id == "super":
                recv_expr = ast.Name(id="self", ctx=ast.Load())
            else:
                recv_expr = f.value
        if recv_expr is not None and params:
            self._map(amap, params[0], recv_expr, st)
            params = params[1:]
        for p, a in zip(params, c.args):
            self._map(amap, p, a, st)
        for k in c.keywords:
            if k.arg and k.arg in callee.params:
                self._map(amap, k.arg, k.value, st)
        if callee.outer is not None:
            for n in ast.walk(callee.node):
                if isinstance(n, ast.Name) and n.id not in callee.params and (n.id in st or n.id in self.params):
                    amap.setdefault((n.id, ""), self.origin(ast.Name(id=n.id, ctx=ast.Load()), st))
        return amap
