"""Small def-use / control-dependence helpers for the later rules of checks/c06.py (pure ``ast``)."""
from __future__ import annotations

import ast
from typing import Iterator, Optional

from vlib.core import Module, norm, own_nodes

IRI_ILLEGAL = {chr(i) for i in range(0x21)} | set('<>"{}|\\^`')


def local_defs(fn: ast.AST, mutators: bool = False) -> dict[str, list[ast.expr]]:
    """name -> every expression assigned to it in fn (plain, annotated, walrus; tuple targets share the value); with
    mutators=True also the arguments of method-call statements on the name (`n.update(x)`, `n.add(x)`: x feeds n)."""
    out: dict[str, list[ast.expr]] = {}
    for n in own_nodes(fn, include_nested=True):
        if mutators and isinstance(n, ast.Expr) and isinstance(n.value, ast.Call) and isinstance(n.value.func, ast.Attribute) \
                and isinstance(n.value.func.value, ast.Name):
            out.setdefault(n.value.func.value.id, []).extend(n.value.args)
            continue
        if isinstance(n, ast.Assign):
            tgts, val = n.targets, n.value
        elif isinstance(n, (ast.AnnAssign, ast.NamedExpr)) and n.value is not None:
            tgts, val = [n.target], n.value
        else:
            continue
        for t in tgts:
            for x in ast.walk(t):
                if isinstance(x, ast.Name):
                    out.setdefault(x.id, []).append(val)
    return out


def expand(e: ast.AST, defs: dict[str, list[ast.expr]], depth: int = 3) -> Iterator[ast.AST]:
    """All nodes of e, and of the expressions its local names were assigned from (transitively, bounded)."""
    seen: set[str] = set()
    work = [(e, depth)]
    while work:
        x, d = work.pop()
        for n in ast.walk(x):
            yield n
            if d > 0 and isinstance(n, ast.Name) and n.id in defs and n.id not in seen:
                seen.add(n.id)
                work.extend((v, d - 1) for v in defs[n.id])


def governing_tests(mod: Module, node: ast.AST, fn: ast.AST) -> list[ast.expr]:
    """Tests of every if / elif / conditional expression / loop the node's execution depends on inside fn (for an elif or else
    branch the tests of the earlier branches of the chain are included: their negation governs it)."""
    out: list[ast.expr] = []
    child = node
    for p in mod.parents(node):
        if isinstance(p, (ast.If, ast.While)) and child is not p.test:
            out.append(p.test)
        elif isinstance(p, ast.IfExp) and child is not p.test:
            out.append(p.test)
        if p is fn:
            break
        child = p
    return out


def const_str(mod: Module, e: Optional[ast.AST]) -> Optional[str]:
    """The string an expression denotes when it is a literal or a module-level constant assigned once from a literal."""
    if isinstance(e, ast.Constant) and isinstance(e.value, str):
        return e.value
    if isinstance(e, ast.Name):
        vals = [st.value for st in mod.tree.body if isinstance(st, ast.Assign) and any(isinstance(t, ast.Name) and t.id == e.id for t in st.targets)]
        vals += [st.value for st in mod.tree.body if isinstance(st, ast.AnnAssign) and isinstance(st.target, ast.Name) and st.target.id == e.id and st.value is not None]
        if len(vals) == 1 and isinstance(vals[0], ast.Constant) and isinstance(vals[0].value, str):
            return vals[0].value
    return None


def stmt_of(mod: Module, node: ast.AST) -> ast.AST:
    if isinstance(node, ast.stmt):
        return node
    for p in mod.parents(node):
        if isinstance(p, ast.stmt):
            return p
    return node


def is_self_call(c: ast.AST, name: str) -> bool:
    return isinstance(c, ast.Call) and ((isinstance(c.func, ast.Attribute) and c.func.attr == name and norm(c.func.value) in ("self", "cls"))
                                        or (isinstance(c.func, ast.Name) and c.func.id == name))


# --------------------------------------------------------------------------- helpers of the third layer (rules C06.q ...)

KEYS_MODULE = "rdflib.plugins.shared.jsonld.keys"


def key_value(repo, mod: Module, name: str) -> Optional[str]:
    """The JSON-LD keyword ("@id", ...) a module-level name stands for when the module imports it from the keys module
    (resolved by value, so that LANG and LANGUAGE are the same key)."""
    for st in mod.tree.body:
        if isinstance(st, ast.ImportFrom) and (st.module or "").split(".")[-1] == "keys":
            for a in st.names:
                if (a.asname or a.name) == name:
                    return const_str(repo.mod(KEYS_MODULE), ast.Name(id=a.name, ctx=ast.Load()))
    return None


def imported_from(mod: Module, module: str) -> set[str]:
    """Local names bound by `from <module> import ...` at module level."""
    out: set[str] = set()
    for st in mod.tree.body:
        if isinstance(st, ast.ImportFrom) and st.module == module:
            out |= {a.asname or a.name for a in st.names}
    return out


def params(fn: ast.AST) -> list[str]:
    a = fn.args  # type: ignore[attr-defined]
    return [x.arg for x in a.posonlyargs + a.args + a.kwonlyargs]


def arg_for(call: ast.Call, fn: ast.AST, param: str, method: bool = True) -> Optional[ast.expr]:
    """The expression a call passes for parameter `param` of fn (by position or keyword); None when it is left to the default."""
    for k in call.keywords:
        if k.arg == param:
            return k.value
    names = [x.arg for x in fn.args.posonlyargs + fn.args.args]  # type: ignore[attr-defined]
    if param in names:
        i = names.index(param) - (1 if method else 0)
        if 0 <= i < len(call.args) and not any(isinstance(a, ast.Starred) for a in call.args[: i + 1]):
            return call.args[i]
    return None


def default_of(fn: ast.AST, param: str) -> Optional[ast.expr]:
    a = fn.args  # type: ignore[attr-defined]
    pos = a.posonlyargs + a.args
    for p, d in zip(pos[len(pos) - len(a.defaults):], a.defaults):
        if p.arg == param:
            return d
    for p, d in zip(a.kwonlyargs, a.kw_defaults):
        if p.arg == param:
            return d
    return None


def body_tests(mod: Module, node: ast.AST) -> Iterator[ast.expr]:
    """Tests of the if-statements in whose *body* the node stands (innermost first); an if-statement in whose orelse it stands
    (the earlier branches of an elif chain) contributes nothing."""
    child = node
    for p in mod.parents(node):
        if isinstance(p, ast.If) and any(child is s for s in p.body):
            yield p.test
        if isinstance(p, (ast.FunctionDef, ast.AsyncFunctionDef, ast.ClassDef, ast.Lambda)):
            return
        child = p


def self_attr_reads(fn: ast.AST) -> set[str]:
    return {n.attr for n in own_nodes(fn, include_nested=True)
            if isinstance(n, ast.Attribute) and isinstance(n.ctx, ast.Load) and isinstance(n.value, ast.Name) and n.value.id == "self"}


def self_calls(fn: ast.AST) -> set[str]:
    return {n.func.attr for n in own_nodes(fn, include_nested=True)
            if isinstance(n, ast.Call) and isinstance(n.func, ast.Attribute) and isinstance(n.func.value, ast.Name) and n.func.value.id == "self"}


def setter_writes(mod: Module, cls: str, prop: str) -> set[str]:
    """self attributes the setter of property `prop` of class cls assigns (empty when prop is a plain attribute)."""
    out: set[str] = set()
    for st in mod.cls(cls).body:
        if isinstance(st, ast.FunctionDef) and st.name == prop and any(norm(d) == "%s.setter" % prop for d in st.decorator_list):
            for n in own_nodes(st):
                if isinstance(n, ast.Attribute) and isinstance(n.ctx, ast.Store) and isinstance(n.value, ast.Name) and n.value.id == "self":
                    out.add(n.attr)
    return out


def mentions(e: ast.AST, name: str) -> bool:
    return any(isinstance(x, ast.Name) and x.id == name for x in ast.walk(e))


def has_const(e: ast.AST, value) -> bool:
    return any(isinstance(x, ast.Constant) and type(x.value) is type(value) and x.value == value for x in ast.walk(e))


def is_const(e: Optional[ast.AST], value) -> bool:
    return isinstance(e, ast.Constant) and e.value is value


def stream_write_calls(fn: ast.AST, receiver_ok) -> Iterator[ast.Call]:
    """Calls `<r>.write(...)` with receiver_ok(r), and calls of local names bound to such a bound method (`w = <r>.write`)."""
    alias = set()
    for n in own_nodes(fn, include_nested=True):
        if isinstance(n, ast.Assign) and isinstance(n.value, ast.Attribute) and n.value.attr == "write" and receiver_ok(n.value.value):
            alias |= {x.id for t in n.targets for x in ast.walk(t) if isinstance(x, ast.Name)}
    for n in own_nodes(fn, include_nested=True):
        if isinstance(n, ast.Call):
            if isinstance(n.func, ast.Attribute) and n.func.attr == "write" and receiver_ok(n.func.value):
                yield n
            elif isinstance(n.func, ast.Name) and n.func.id in alias:
                yield n


# --------------------------------------------------------------------------- value flow helpers (equivalent spellings of one clause)

def denotes(e: Optional[ast.AST], pred, defs: dict[str, list[ast.expr]], depth: int = 3) -> bool:
    """Does the expression e evaluate to what `pred` recognises?  Either pred(e) holds, or e is a local name EVERY definition
    of which (in the function `defs` was taken from) denotes it in turn: `n = c.identifier ... x[n]` for `x[c.identifier]`.
    (That the definition is the one that reaches the use is a separate question: see `fresh_in_iteration`.)"""
    if e is None:
        return False
    if pred(e):
        return True
    if depth > 0 and isinstance(e, ast.Name) and defs.get(e.id):
        return all(denotes(v, pred, defs, depth - 1) for v in defs[e.id])
    return False


def binding_stmts(fn: ast.AST, name: str) -> list[ast.stmt]:
    """Statements of fn that (re)bind the local name (assignments, for targets, with-as, walrus inside a statement)."""
    out = []
    for n in own_nodes(fn, include_nested=True):
        if isinstance(n, ast.stmt) and not isinstance(n, (ast.FunctionDef, ast.AsyncFunctionDef, ast.ClassDef)):
            heads: list[ast.AST] = []
            if isinstance(n, ast.Assign):
                heads = list(n.targets)
            elif isinstance(n, (ast.AugAssign, ast.AnnAssign)):
                heads = [n.target] if not (isinstance(n, ast.AnnAssign) and n.value is None) else []
            elif isinstance(n, (ast.For, ast.AsyncFor)):
                heads = [n.target]
            elif isinstance(n, (ast.With, ast.AsyncWith)):
                heads = [i.optional_vars for i in n.items if i.optional_vars is not None]
            # (a walrus in the statement's own expressions - not in the statements nested in it - binds as well)
            heads += [w.target for c in ast.iter_child_nodes(n) if isinstance(c, ast.expr) for w in ast.walk(c) if isinstance(w, ast.NamedExpr)]
            if any(isinstance(x, ast.Name) and isinstance(x.ctx, ast.Store) and x.id == name for h in heads for x in ast.walk(h)):
                out.append(n)
    return out


def fresh_in_iteration(cfg, loop: ast.AST, fn: ast.AST, name: str, use: ast.stmt) -> bool:
    """Inside the body of `loop`, is the local `name` (re)bound in THIS iteration on every path from the loop head to the
    statement `use`?  (Every binding of the name stands inside the loop, and `use` cannot be reached from the head of the loop
    without passing one of them - so the name never carries the value of an earlier iteration.)"""
    binds = binding_stmts(fn, name)
    inside = {id(x) for s in loop.body for x in ast.walk(s)}  # type: ignore[attr-defined]
    if not binds or any(id(b) not in inside for b in binds):
        return False
    head = cfg.by_ast.get(id(loop))
    if head is None or id(use) not in cfg.by_ast:
        return False
    through = [cfg.by_ast[id(b)] for b in binds if id(b) in cfg.by_ast]
    if len(through) != len(binds):
        return False
    return cfg.by_ast[id(use)] not in cfg.reach(head, avoid=through)


def on_every_pass(cfg, loop: ast.AST, st: ast.stmt) -> bool:
    """Is the statement `st` of the body of `loop` executed on every complete pass through the body - every path from the head of
    the loop back to the head that does not leave the pass by `continue` (a skipped item) goes through it?  Guard clause or else
    branch, nesting and order of the other statements do not matter."""
    head = cfg.by_ast.get(id(loop))
    at = cfg.by_ast.get(id(st))
    if head is None or at is None:
        return False
    inside = {cfg.by_ast[id(x)] for s in loop.body for x in ast.walk(s) if id(x) in cfg.by_ast}  # type: ignore[attr-defined]
    if at not in inside:
        return False
    skip = {n for n in inside if isinstance(cfg.nodes[n].ast, ast.Continue)}
    seen: set[int] = set()
    stack = [n for n in cfg.succ[head] if n in inside]
    while stack:
        n = stack.pop()
        if n in seen or n == at or n in skip:
            continue
        seen.add(n)
        if head in cfg.succ[n]:
            return False  # a pass that ends without st
        stack.extend(m for m in cfg.succ[n] if m in inside)
    return True


def reach_methods(mod: Module, cls: str, entries, rounds: int = 6) -> dict[str, ast.FunctionDef]:
    """The methods of class cls that the public entry points `entries` reach through calls on self (transitively): the code
    that does the work of those entry points however it is split into private helpers."""
    meths = mod.methods(cls)
    out = {e: meths[e] for e in entries if e in meths}
    for _ in range(rounds):
        new = {m: meths[m] for f in list(out.values()) for m in self_calls(f) if m in meths and m not in out}
        if not new:
            break
        out.update(new)
    return out


def local_callee(mod: Module, cls: Optional[str], call: ast.AST) -> Optional[tuple[ast.FunctionDef, bool]]:
    """(definition, is_method) of a call that can only go to code of this module: `self.m(...)` with m a method of the class
    `cls`, or `f(...)` with f a module-level function."""
    if not isinstance(call, ast.Call):
        return None
    if isinstance(call.func, ast.Attribute) and isinstance(call.func.value, ast.Name) and call.func.value.id in ("self", "cls") and cls:
        d = mod.defs.get("%s.%s" % (cls, call.func.attr))
        if isinstance(d, ast.FunctionDef):
            return d, True
    if isinstance(call.func, ast.Name):
        d = mod.defs.get(call.func.id)
        if isinstance(d, ast.FunctionDef):
            return d, False
    return None


def delegated_returns(mod: Module, cls: Optional[str], fn: ast.AST, stmts: list[ast.stmt], depth: int = 2, _chain: tuple = ()) -> Iterator[tuple[ast.Return, tuple]]:
    """Every `return <value>` among the statements (of function fn), as (return statement, chain).  A return that hands the
    decision on to other code of the module - `return self.m(...)` / `return f(...)`, not a call of fn itself - stands for the
    returns of that callee: they are yielded in its place with chain = ((delegating return, call, callee, is_method), ...), outermost
    first.  So the value a function gives back on a branch is found wherever the branch was split off to."""
    for r in [x for s in stmts for x in ast.walk(s)]:
        if not (isinstance(r, ast.Return) and r.value is not None):
            continue
        tgt = local_callee(mod, cls, r.value) if depth > 0 else None
        if tgt is not None and tgt[0] is not fn and all(tgt[0] is not c[2] for c in _chain):
            yield from delegated_returns(mod, cls, tgt[0], tgt[0].body, depth - 1, _chain + ((r, r.value, tgt[0], tgt[1]),))
        else:
            yield r, _chain


def terminates(stmts: list[ast.stmt]) -> bool:
    """Does control never fall off the end of the statement list (return / raise / continue / break on every path)?"""
    if not stmts:
        return False
    last = stmts[-1]
    if isinstance(last, (ast.Return, ast.Raise, ast.Continue, ast.Break)):
        return True
    if isinstance(last, ast.If):
        return terminates(last.body) and terminates(last.orelse)
    return False


def control_tests(mod: Module, node: ast.AST, fn: ast.AST) -> list[ast.expr]:
    """The tests the execution of `node` is control dependent on inside fn, whatever their polarity: those of `governing_tests`
    (enclosing if / elif / while / conditional expression) and those of guard clauses - an earlier statement of an enclosing
    block that is an `if` one arm of which always leaves (return / raise / continue / break): `if c: return x` followed by S
    governs S exactly as `if c: return x / else: S` does.  Innermost first."""
    out: list[ast.expr] = []
    child = node
    for p in mod.parents(node):
        for field in ("body", "orelse", "finalbody"):
            block = getattr(p, field, None)
            if isinstance(block, list) and any(child is s for s in block):
                i = next(k for k, s in enumerate(block) if s is child)
                for prev in reversed(block[:i]):
                    if isinstance(prev, ast.If) and (terminates(prev.body) != terminates(prev.orelse)):
                        out.append(prev.test)
        if isinstance(p, (ast.If, ast.While, ast.IfExp)) and child is not p.test:
            out.append(p.test)
        if p is fn:
            break
        child = p
    return out


def governing_nodes(mod: Module, fn: ast.AST, ret: ast.AST, chain: tuple = (), stop: Optional[ast.AST] = None) -> Iterator[tuple[ast.AST, int]]:
    """(node, frame) for every node of every test the statement `ret` is control dependent on (control_tests: enclosing tests and
    guard clauses, either polarity) - in the function it stands in and, when it was
    reached by delegation (see delegated_returns), in the callers down to fn (frame 0), where the walk stops below the test `stop`.
    Local names are followed to the expressions they were assigned from; a parameter of a callee is followed to the argument
    the delegating call passes for it (a node of the caller's frame)."""
    frames = [fn] + [c[2] for c in chain]
    sites = [c[0] for c in chain] + [ret]
    defs = [local_defs(f) for f in frames]
    pars = [set(params(f)) for f in frames]

    def walk(e: ast.AST, i: int, budget: int) -> Iterator[tuple[ast.AST, int]]:
        for n in expand(e, defs[i]):
            yield n, i
            if i > 0 and budget > 0 and isinstance(n, ast.Name) and n.id in pars[i]:
                a = arg_for(chain[i - 1][1], frames[i], n.id, method=chain[i - 1][3])
                if a is not None:
                    yield from walk(a, i - 1, budget - 1)

    for i in range(len(frames) - 1, -1, -1):
        for t in control_tests(mod, sites[i], frames[i]):
            if i == 0 and stop is not None and t is stop:
                break
            yield from walk(t, i, 6)


# --------------------------------------------------------------------------- which method does a call go to (rule C06.d)
#
# "The call removes from X" is a fact about the callable the call expression evaluates to and about the object it is bound to,
# not about the spelling `X.remove(...)`: `getattr(X, m)(...)` with m taken from a row of a constant table, `op = X.remove ...
# op(...)`, `(X.add if adding else X.remove)(...)`, `operator.methodcaller("remove", t)(X)` are the same call.  The helpers
# below compute, by def-use inside one function and through constant tables, (a) the set of strings an expression can denote,
# (b) the (receiver, method names) pairs a callee expression can denote, (c) the expressions a receiver can evaluate to.

_UNWRAP = ("tuple", "list", "iter", "reversed", "sorted", "frozenset", "set")


def module_const(mod: Module, name: str) -> Optional[ast.expr]:
    """The expression a module-level name is bound to, when it is bound exactly once at module level and never declared global."""
    vals = [st.value for st in mod.tree.body if isinstance(st, ast.Assign) and any(isinstance(t, ast.Name) and t.id == name for t in st.targets)]
    vals += [st.value for st in mod.tree.body if isinstance(st, ast.AnnAssign) and isinstance(st.target, ast.Name) and st.target.id == name and st.value is not None]
    if len(vals) != 1 or any(isinstance(n, ast.Global) and name in n.names for n in ast.walk(mod.tree)):
        return None
    return vals[0]


def _target_paths(target: ast.AST, path: tuple = ()) -> Iterator[tuple[str, tuple]]:
    """(name, position path) for the names a for / assignment target binds: `for a, (b, c) in T` -> a:(0,), b:(1,0), c:(1,1)."""
    if isinstance(target, ast.Name):
        yield target.id, path
    elif isinstance(target, (ast.Tuple, ast.List)) and not any(isinstance(e, ast.Starred) for e in target.elts):
        for i, e in enumerate(target.elts):
            yield from _target_paths(e, path + (i,))


def _element_at(row: ast.AST, path: tuple) -> Optional[ast.AST]:
    for i in path:
        if not (isinstance(row, (ast.Tuple, ast.List)) and i < len(row.elts)) or any(isinstance(e, ast.Starred) for e in row.elts):
            return None
        row = row.elts[i]
    return row


class Flow:
    """Def-use inside one function `fn` of module `mod`: every way a local name gets its value (assignments, annotated
    assignments, walrus, the target of a `for` over a constant table).  A name with a binding that is not understood (a
    parameter, a with/except target, an augmented assignment, a loop over something that is no constant table) is `opaque`."""

    def __init__(self, mod: Module, fn: ast.AST):
        self.mod, self.fn = mod, fn
        self.defs = local_defs(fn)
        self.params = set(params(fn)) | {a.arg for a in (fn.args.vararg, fn.args.kwarg) if a is not None}  # type: ignore[attr-defined]
        self.loops: dict[str, list[tuple[ast.For, tuple]]] = {}
        for n in own_nodes(fn, include_nested=True):
            if isinstance(n, (ast.For, ast.AsyncFor)):
                for name, path in _target_paths(n.target):
                    self.loops.setdefault(name, []).append((n, path))
        self._tuple_assign = {x.id for n in own_nodes(fn, include_nested=True) if isinstance(n, ast.Assign) for t in n.targets
                              if not isinstance(t, ast.Name) for x in ast.walk(t) if isinstance(x, ast.Name)}

    def is_local(self, name: str) -> bool:
        return name in self.params or bool(binding_stmts(self.fn, name))

    def rows(self, e: Optional[ast.AST], depth: int = 4) -> Optional[list[ast.AST]]:
        """The members an iteration over e yields, when e denotes a constant collection: a tuple / list / set display, a dict
        display (its keys; `.items()` -> (key, value) pairs, `.values()`, `.keys()`), tuple()/list()/reversed()/sorted()/iter() of
        one, or a local / module-level name bound once to one.  None when e is not such a thing."""
        if e is None or depth < 0:
            return None
        if isinstance(e, (ast.Tuple, ast.List, ast.Set)):
            return None if any(isinstance(x, ast.Starred) for x in e.elts) else list(e.elts)
        if isinstance(e, ast.Dict):
            return None if any(k is None for k in e.keys) else list(e.keys)  # type: ignore[arg-type]
        if isinstance(e, ast.Call) and isinstance(e.func, ast.Attribute) and e.func.attr in ("items", "values", "keys") and not e.args and not e.keywords:
            d = self.table(e.func.value, depth - 1)
            if isinstance(d, ast.Dict) and not any(k is None for k in d.keys):
                if e.func.attr == "items":
                    return [ast.Tuple(elts=[k, v], ctx=ast.Load()) for k, v in zip(d.keys, d.values)]  # type: ignore[list-item]
                return list(d.values) if e.func.attr == "values" else list(d.keys)  # type: ignore[arg-type]
            return None
        if isinstance(e, ast.Call) and isinstance(e.func, ast.Name) and e.func.id in _UNWRAP and len(e.args) == 1 and not self.is_local(e.func.id):
            return self.rows(e.args[0], depth - 1)
        if isinstance(e, ast.Name):
            t = self.table(e, depth)
            return self.rows(t, depth - 1) if t is not None and t is not e else None
        return None

    def table(self, e: Optional[ast.AST], depth: int = 4) -> Optional[ast.AST]:
        """The display (tuple / list / set / dict) e denotes: a display itself, or a name bound exactly once - locally or at module level - to one."""
        if e is None or depth < 0:
            return None
        if isinstance(e, (ast.Tuple, ast.List, ast.Set, ast.Dict)):
            return e
        if isinstance(e, ast.Name):
            if self.is_local(e.id):
                if e.id in self.params or e.id in self.loops or e.id in self._tuple_assign:
                    return None
                vals = self.defs.get(e.id, [])
                if len(vals) != 1 or len(binding_stmts(self.fn, e.id)) != 1:
                    return None
                return self.table(vals[0], depth - 1)
            return self.table(module_const(self.mod, e.id), depth - 1)
        return None

    def sources(self, name: str) -> Optional[list[ast.AST]]:
        """Every expression the local `name` can hold the value of; None when one of its bindings is not understood."""
        if name in self.params or name in self._tuple_assign:
            return None
        out: list[ast.AST] = list(self.defs.get(name, []))
        n_loops = 0
        for loop, path in self.loops.get(name, []):
            n_loops += 1
            rows = self.rows(loop.iter)
            if rows is None:
                return None
            for r in rows:
                x = _element_at(r, path)
                if x is None:
                    return None
                out.append(x)
        # (every binding statement is one of the understood kinds: plain / annotated assignment, walrus, for)
        for st in binding_stmts(self.fn, name):
            if isinstance(st, (ast.AugAssign, ast.With, ast.AsyncWith)):
                return None
        if any(isinstance(h, ast.ExceptHandler) and h.name == name for h in own_nodes(self.fn, include_nested=True)):
            return None
        return out if out else None

    def strings(self, e: Optional[ast.AST], depth: int = 5) -> Optional[set[str]]:
        """The set of strings e can evaluate to (a superset, by def-use and constant tables); None when that cannot be told."""
        if e is None or depth < 0:
            return None
        if isinstance(e, ast.Constant):
            return {e.value} if isinstance(e.value, str) else set()
        if isinstance(e, ast.IfExp):
            return _union([self.strings(e.body, depth - 1), self.strings(e.orelse, depth - 1)])
        if isinstance(e, ast.BoolOp):
            return _union([self.strings(v, depth - 1) for v in e.values])
        if isinstance(e, ast.NamedExpr):
            return self.strings(e.value, depth - 1)
        if isinstance(e, ast.Name):
            if self.is_local(e.id):
                src = self.sources(e.id)
                return None if src is None else _union([self.strings(s, depth - 1) for s in src])
            return self.strings(module_const(self.mod, e.id), depth - 1)
        vals = self.looked_up(e)
        return None if vals is None else _union([self.strings(v, depth - 1) for v in vals])

    def looked_up(self, e: ast.AST) -> Optional[list[ast.AST]]:
        """The members a lookup in a constant table can give: `T[k]` (see `selected`), `T.get(k)` (a member or None), `T.get(k, d)`
        (a member or d).  None when e is no lookup in a constant table."""
        if isinstance(e, ast.Subscript):
            return self.selected(e)
        if isinstance(e, ast.Call) and isinstance(e.func, ast.Attribute) and e.func.attr == "get" and 1 <= len(e.args) <= 2 and not e.keywords \
                and isinstance(self.table(e.func.value), ast.Dict):
            vals = self.selected(ast.Subscript(value=e.func.value, slice=e.args[0], ctx=ast.Load()))
            if vals is not None:
                return vals + [e.args[1] if len(e.args) == 2 else ast.Constant(value=None)]
        return None

    def selected(self, e: ast.Subscript) -> Optional[list[ast.AST]]:
        """The members `T[k]` can select when T denotes a constant table: the one member for a constant k, every member otherwise."""
        t = self.table(e.value)
        if t is None:
            return None
        if isinstance(t, ast.Dict):
            if any(k is None for k in t.keys):
                return None
            if isinstance(e.slice, ast.Constant):
                hit = [v for k, v in zip(t.keys, t.values) if isinstance(k, ast.Constant) and k.value == e.slice.value and type(k.value) is type(e.slice.value)]
                if hit and all(isinstance(k, ast.Constant) for k in t.keys):
                    return hit[-1:]
            return list(t.values)
        if isinstance(t, (ast.Tuple, ast.List)):
            if any(isinstance(x, ast.Starred) for x in t.elts) or isinstance(e.slice, ast.Slice):
                return None
            if isinstance(e.slice, ast.Constant) and isinstance(e.slice.value, int) and -len(t.elts) <= e.slice.value < len(t.elts):
                return [t.elts[e.slice.value]]
            return list(t.elts)
        return None

    def values(self, e: Optional[ast.AST], depth: int = 5, _seen: Optional[set] = None) -> list[ast.AST]:
        """The expressions e can evaluate to, opened up as far as def-use goes: a local name stands for every expression it
        can hold (all its definitions, whichever reaches), a conditional expression / `or` / `and` for its arms, a subscript of a
        constant table for the members it can select.  What cannot be opened (a parameter, an attribute, a call) is its own value."""
        _seen = set() if _seen is None else _seen
        if e is None:
            return []
        if depth < 0 or id(e) in _seen:
            return [e]
        _seen.add(id(e))
        if isinstance(e, ast.IfExp):
            return self.values(e.body, depth - 1, _seen) + self.values(e.orelse, depth - 1, _seen)
        if isinstance(e, ast.BoolOp):
            return [x for v in e.values for x in self.values(v, depth - 1, _seen)]
        if isinstance(e, ast.NamedExpr):
            return self.values(e.value, depth - 1, _seen)
        if isinstance(e, ast.Name):
            src = self.sources(e.id) if self.is_local(e.id) else None
            if src is None and not self.is_local(e.id):
                c = module_const(self.mod, e.id)
                src = [c] if c is not None else None
            if src is None:
                return [e]
            return [x for s in src for x in self.values(s, depth - 1, _seen)]
        vals = self.looked_up(e)
        if vals is not None:
            return [x for v in vals for x in self.values(v, depth - 1, _seen)]
        return [e]

    def bound_methods(self, func: Optional[ast.AST]) -> list[tuple[Optional[ast.AST], Optional[set[str]]]]:
        """(receiver, method names) for every bound method the callee expression `func` can evaluate to: `R.m` -> (R, {m});
        `getattr(R, n)` -> (R, strings(n)) - names None when they cannot be told; functools.partial(f, ...) -> those of f;
        operator.methodcaller(n, ...) -> (None, strings(n)): the receiver is the argument of the call.  Names, conditional
        expressions, table rows are opened with `values`.  A callee that is nothing of the kind contributes nothing."""
        out: list[tuple[Optional[ast.AST], Optional[set[str]]]] = []
        for v in self.values(func):
            if isinstance(v, ast.Attribute):
                out.append((v.value, {v.attr}))
            elif isinstance(v, ast.Call) and isinstance(v.func, ast.Name) and v.func.id == "getattr" and len(v.args) >= 2 and not self.is_local("getattr"):
                out.append((v.args[0], self.strings(v.args[1])))
            elif isinstance(v, ast.Call) and norm(v.func).split(".")[-1] == "partial" and v.args:
                out += self.bound_methods(v.args[0])
            elif isinstance(v, ast.Call) and norm(v.func).split(".")[-1] == "methodcaller" and v.args:
                out.append((None, self.strings(v.args[0])))
        return out


def _union(parts: list) -> Optional[set[str]]:
    out: set[str] = set()
    for p in parts:
        if p is None:
            return None
        out |= p
    return out


def method_calls(mod: Module, fn: ast.AST, flow: Optional[Flow] = None) -> Iterator[tuple[ast.Call, ast.AST, Optional[set[str]]]]:
    """(call, receiver, method names) for every call of fn whose callee can evaluate to a bound method, however it is spelled
    (see Flow.bound_methods); names is None when the method is chosen by a string that cannot be told statically."""
    flow = flow or Flow(mod, fn)
    for c in own_nodes(fn, include_nested=True):
        if not isinstance(c, ast.Call):
            continue
        for recv, names in flow.bound_methods(c.func):
            if recv is None:  # operator.methodcaller(...)(<receiver>)
                if len(c.args) != 1:
                    continue
                recv = c.args[0]
            yield c, recv, names


def returned_values(mod: Module, cls: Optional[str], call: ast.AST, depth: int = 2) -> Optional[list[tuple[ast.AST, Flow]]]:
    """What a call that can only go to code of this module (`self.m(...)`, `f(...)`) gives back: the values of the return
    statements of the callee (with the callee's Flow), calls it delegates to opened in turn.  None when the callee is not local."""
    tgt = local_callee(mod, cls, call)
    if tgt is None or depth < 0:
        return None
    callee = tgt[0]
    fl = Flow(mod, callee)
    out: list[tuple[ast.AST, Flow]] = []
    for r in own_nodes(callee):
        if isinstance(r, ast.Return) and r.value is not None:
            for v in fl.values(r.value):
                inner = returned_values(mod, cls, v, depth - 1) if isinstance(v, ast.Call) else None
                out += inner if inner is not None else [(v, fl)]
    return out
