"""Small def-use / control-dependence helpers for the later rules of checks/c06.py (pure ``ast``)."""
from __future__ import annotations

import ast
from typing import Iterator, Optional

from vlib.core import Module, norm, own_nodes

IRI_ILLEGAL = {chr(i) for i in range(0x21)} | set('<>"{}|\\^`')


def local_defs(fn: ast.AST, mutators: bool = False) -> dict[str, list[ast.expr]]:
    """name -> every expression assigned to it in fn (plain, annotated, walrus; tuple targets share the value); with
    mutators=True also the arguments of method-call statements on the name (`n.update(x)`, `n.add(x)`: x feeds n)."""
    out: dict[str, list[ast.expr]] = {}
    for n in own_nodes(fn, include_nested=True):
        if mutators and isinstance(n, ast.Expr) and isinstance(n.value, ast.Call) and isinstance(n.value.func, ast.Attribute) \
                and isinstance(n.value.func.value, ast.Name):
            out.setdefault(n.value.func.value.id, []).extend(n.value.args)
            continue
        if isinstance(n, ast.Assign):
            tgts, val = n.targets, n.value
        elif isinstance(n, (ast.AnnAssign, ast.NamedExpr)) and n.value is not None:
            tgts, val = [n.target], n.value
        else:
            continue
        for t in tgts:
            for x in ast.walk(t):
                if isinstance(x, ast.Name):
                    out.setdefault(x.id, []).append(val)
    return out


def expand(e: ast.AST, defs: dict[str, list[ast.expr]], depth: int = 3) -> Iterator[ast.AST]:
    """All nodes of e, and of the expressions its local names were assigned from (transitively, bounded)."""
    seen: set[str] = set()
    work = [(e, depth)]
    while work:
        x, d = work.pop()
        for n in ast.walk(x):
            yield n
            if d > 0 and isinstance(n, ast.Name) and n.id in defs and n.id not in seen:
                seen.add(n.id)
                work.extend((v, d - 1) for v in defs[n.id])


def governing_tests(mod: Module, node: ast.AST, fn: ast.AST) -> list[ast.expr]:
    """Tests of every if / elif / conditional expression / loop the node's execution depends on inside fn (for an elif or else
    branch the tests of the earlier branches of the chain are included: their negation governs it)."""
    out: list[ast.expr] = []
    child = node
    for p in mod.parents(node):
        if isinstance(p, (ast.If, ast.While)) and child is not p.test:
            out.append(p.test)
        elif isinstance(p, ast.IfExp) and child is not p.test:
            out.append(p.test)
        if p is fn:
            break
        child = p
    return out


def const_str(mod: Module, e: Optional[ast.AST]) -> Optional[str]:
    """The string an expression denotes when it is a literal or a module-level constant assigned once from a literal."""
    if isinstance(e, ast.Constant) and isinstance(e.value, str):
        return e.value
    if isinstance(e, ast.Name):
        vals = [st.value for st in mod.tree.body if isinstance(st, ast.Assign) and any(isinstance(t, ast.Name) and t.id == e.id for t in st.targets)]
        vals += [st.value for st in mod.tree.body if isinstance(st, ast.AnnAssign) and isinstance(st.target, ast.Name) and st.target.id == e.id and st.value is not None]
        if len(vals) == 1 and isinstance(vals[0], ast.Constant) and isinstance(vals[0].value, str):
            return vals[0].value
    return None


def stmt_of(mod: Module, node: ast.AST) -> ast.AST:
    if isinstance(node, ast.stmt):
        return node
    for p in mod.parents(node):
        if isinstance(p, ast.stmt):
            return p
    return node


def is_self_call(c: ast.AST, name: str) -> bool:
    return isinstance(c, ast.Call) and ((isinstance(c.func, ast.Attribute) and c.func.attr == name and norm(c.func.value) in ("self", "cls"))
                                        or (isinstance(c.func, ast.Name) and c.func.id == name))
