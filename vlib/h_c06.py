"""Small def-use / control-dependence helpers for the later rules of checks/c06.py (pure ``ast``)."""
from __future__ import annotations

import ast
from typing import Iterator, Optional

from vlib.core import Module, norm, own_nodes

IRI_ILLEGAL = {chr(i) for i in range(0x21)} | set('<>"{}|\\^`')


def local_defs(fn: ast.AST, mutators: bool = False) -> dict[str, list[ast.expr]]:
    """name -> every expression assigned to it in fn (plain, annotated, walrus; tuple targets share the value); with
    mutators=True also the arguments of method-call statements on the name (`n.update(x)`, `n.add(x)`: x feeds n)."""
    out: dict[str, list[ast.expr]] = {}
    for n in own_nodes(fn, include_nested=True):
        if mutators and isinstance(n, ast.Expr) and isinstance(n.value, ast.Call) and isinstance(n.value.func, ast.Attribute) \
                and isinstance(n.value.func.value, ast.Name):
            out.setdefault(n.value.func.value.id, []).extend(n.value.args)
            continue
        if isinstance(n, ast.Assign):
            tgts, val = n.targets, n.value
        elif isinstance(n, (ast.AnnAssign, ast.NamedExpr)) and n.value is not None:
            tgts, val = [n.target], n.value
        else:
            continue
        for t in tgts:
            for x in ast.walk(t):
                if isinstance(x, ast.Name):
                    out.setdefault(x.id, []).append(val)
    return out


def expand(e: ast.AST, defs: dict[str, list[ast.expr]], depth: int = 3) -> Iterator[ast.AST]:
    """All nodes of e, and of the expressions its local names were assigned from (transitively, bounded)."""
    seen: set[str] = set()
    work = [(e, depth)]
    while work:
        x, d = work.pop()
        for n in ast.walk(x):
            yield n
            if d > 0 and isinstance(n, ast.Name) and n.id in defs and n.id not in seen:
                seen.add(n.id)
                work.extend((v, d - 1) for v in defs[n.id])


def governing_tests(mod: Module, node: ast.AST, fn: ast.AST) -> list[ast.expr]:
    """Tests of every if / elif / conditional expression / loop the node's execution depends on inside fn (for an elif or else
    branch the tests of the earlier branches of the chain are included: their negation governs it)."""
    out: list[ast.expr] = []
    child = node
    for p in mod.parents(node):
        if isinstance(p, (ast.If, ast.While)) and child is not p.test:
            out.append(p.test)
        elif isinstance(p, ast.IfExp) and child is not p.test:
            out.append(p.test)
        if p is fn:
            break
        child = p
    return out


def const_str(mod: Module, e: Optional[ast.AST]) -> Optional[str]:
    """The string an expression denotes when it is a literal or a module-level constant assigned once from a literal."""
    if isinstance(e, ast.Constant) and isinstance(e.value, str):
        return e.value
    if isinstance(e, ast.Name):
        vals = [st.value for st in mod.tree.body if isinstance(st, ast.Assign) and any(isinstance(t, ast.Name) and t.id == e.id for t in st.targets)]
        vals += [st.value for st in mod.tree.body if isinstance(st, ast.AnnAssign) and isinstance(st.target, ast.Name) and st.target.id == e.id and st.value is not None]
        if len(vals) == 1 and isinstance(vals[0], ast.Constant) and isinstance(vals[0].value, str):
            return vals[0].value
    return None


def stmt_of(mod: Module, node: ast.AST) -> ast.AST:
    if isinstance(node, ast.stmt):
        return node
    for p in mod.parents(node):
        if isinstance(p, ast.stmt):
            return p
    return node


def is_self_call(c: ast.AST, name: str) -> bool:
    return isinstance(c, ast.Call) and ((isinstance(c.func, ast.Attribute) and c.func.attr == name and norm(c.func.value) in ("self", "cls"))
                                        or (isinstance(c.func, ast.Name) and c.func.id == name))


# --------------------------------------------------------------------------- helpers of the third layer (rules C06.q ...)

KEYS_MODULE = "rdflib.plugins.shared.jsonld.keys"


def key_value(repo, mod: Module, name: str) -> Optional[str]:
    """The JSON-LD keyword ("@id", ...) a module-level name stands for when the module imports it from the keys module
    (resolved by value, so that LANG and LANGUAGE are the same key)."""
    for st in mod.tree.body:
        if isinstance(st, ast.ImportFrom) and (st.module or "").split(".")[-1] == "keys":
            for a in st.names:
                if (a.asname or a.name) == name:
                    return const_str(repo.mod(KEYS_MODULE), ast.Name(id=a.name, ctx=ast.Load()))
    return None


def imported_from(mod: Module, module: str) -> set[str]:
    """Local names bound by `from <module> import ...` at module level."""
    out: set[str] = set()
    for st in mod.tree.body:
        if isinstance(st, ast.ImportFrom) and st.module == module:
            out |= {a.asname or a.name for a in st.names}
    return out


def params(fn: ast.AST) -> list[str]:
    a = fn.args  # type: ignore[attr-defined]
    return [x.arg for x in a.posonlyargs + a.args + a.kwonlyargs]


def arg_for(call: ast.Call, fn: ast.AST, param: str, method: bool = True) -> Optional[ast.expr]:
    """The expression a call passes for parameter `param` of fn (by position or keyword); None when it is left to the default."""
    for k in call.keywords:
        if k.arg == param:
            return k.value
    names = [x.arg for x in fn.args.posonlyargs + fn.args.args]  # type: ignore[attr-defined]
    if param in names:
        i = names.index(param) - (1 if method else 0)
        if 0 <= i < len(call.args) and not any(isinstance(a, ast.Starred) for a in call.args[: i + 1]):
            return call.args[i]
    return None


def default_of(fn: ast.AST, param: str) -> Optional[ast.expr]:
    a = fn.args  # type: ignore[attr-defined]
    pos = a.posonlyargs + a.args
    for p, d in zip(pos[len(pos) - len(a.defaults):], a.defaults):
        if p.arg == param:
            return d
    for p, d in zip(a.kwonlyargs, a.kw_defaults):
        if p.arg == param:
            return d
    return None


def body_tests(mod: Module, node: ast.AST) -> Iterator[ast.expr]:
    """Tests of the if-statements in whose *body* the node stands (innermost first); an if-statement in whose orelse it stands
    (the earlier branches of an elif chain) contributes nothing."""
    child = node
    for p in mod.parents(node):
        if isinstance(p, ast.If) and any(child is s for s in p.body):
            yield p.test
        if isinstance(p, (ast.FunctionDef, ast.AsyncFunctionDef, ast.ClassDef, ast.Lambda)):
            return
        child = p


def self_attr_reads(fn: ast.AST) -> set[str]:
    return {n.attr for n in own_nodes(fn, include_nested=True)
            if isinstance(n, ast.Attribute) and isinstance(n.ctx, ast.Load) and isinstance(n.value, ast.Name) and n.value.id == "self"}


def self_calls(fn: ast.AST) -> set[str]:
    return {n.func.attr for n in own_nodes(fn, include_nested=True)
            if isinstance(n, ast.Call) and isinstance(n.func, ast.Attribute) and isinstance(n.func.value, ast.Name) and n.func.value.id == "self"}


def setter_writes(mod: Module, cls: str, prop: str) -> set[str]:
    """self attributes the setter of property `prop` of class cls assigns (empty when prop is a plain attribute)."""
    out: set[str] = set()
    for st in mod.cls(cls).body:
        if isinstance(st, ast.FunctionDef) and st.name == prop and any(norm(d) == "%s.setter" % prop for d in st.decorator_list):
            for n in own_nodes(st):
                if isinstance(n, ast.Attribute) and isinstance(n.ctx, ast.Store) and isinstance(n.value, ast.Name) and n.value.id == "self":
                    out.add(n.attr)
    return out


def mentions(e: ast.AST, name: str) -> bool:
    return any(isinstance(x, ast.Name) and x.id == name for x in ast.walk(e))


def has_const(e: ast.AST, value) -> bool:
    return any(isinstance(x, ast.Constant) and type(x.value) is type(value) and x.value == value for x in ast.walk(e))


def is_const(e: Optional[ast.AST], value) -> bool:
    return isinstance(e, ast.Constant) and e.value is value


def stream_write_calls(fn: ast.AST, receiver_ok) -> Iterator[ast.Call]:
    """Calls `<r>.write(...)` with receiver_ok(r), and calls of local names bound to such a bound method (`w = <r>.write`)."""
    alias = set()
    for n in own_nodes(fn, include_nested=True):
        if isinstance(n, ast.Assign) and isinstance(n.value, ast.Attribute) and n.value.attr == "write" and receiver_ok(n.value.value):
            alias |= {x.id for t in n.targets for x in ast.walk(t) if isinstance(x, ast.Name)}
    for n in own_nodes(fn, include_nested=True):
        if isinstance(n, ast.Call):
            if isinstance(n.func, ast.Attribute) and n.func.attr == "write" and receiver_ok(n.func.value):
                yield n
            elif isinstance(n.func, ast.Name) and n.func.id in alias:
                yield n


# --------------------------------------------------------------------------- value flow helpers (equivalent spellings of one clause)

def denotes(e: Optional[ast.AST], pred, defs: dict[str, list[ast.expr]], depth: int = 3) -> bool:
    """Does the expression e evaluate to what `pred` recognises?  Either pred(e) holds, or e is a local name EVERY definition
    of which (in the function `defs` was taken from) denotes it in turn: `n = c.identifier ... x[n]` for `x[c.identifier]`.
    (That the definition is the one that reaches the use is a separate question: see `fresh_in_iteration`.)"""
    if e is None:
        return False
    if pred(e):
        return True
    if depth > 0 and isinstance(e, ast.Name) and defs.get(e.id):
        return all(denotes(v, pred, defs, depth - 1) for v in defs[e.id])
    return False


def binding_stmts(fn: ast.AST, name: str) -> list[ast.stmt]:
    """Statements of fn that (re)bind the local name (assignments, for targets, with-as, walrus inside a statement)."""
    out = []
    for n in own_nodes(fn, include_nested=True):
        if isinstance(n, ast.stmt) and not isinstance(n, (ast.FunctionDef, ast.AsyncFunctionDef, ast.ClassDef)):
            heads: list[ast.AST] = []
            if isinstance(n, ast.Assign):
                heads = list(n.targets)
            elif isinstance(n, (ast.AugAssign, ast.AnnAssign)):
                heads = [n.target] if not (isinstance(n, ast.AnnAssign) and n.value is None) else []
            elif isinstance(n, (ast.For, ast.AsyncFor)):
                heads = [n.target]
            elif isinstance(n, (ast.With, ast.AsyncWith)):
                heads = [i.optional_vars for i in n.items if i.optional_vars is not None]
            # (a walrus in the statement's own expressions - not in the statements nested in it - binds as well)
            heads += [w.target for c in ast.iter_child_nodes(n) if isinstance(c, ast.expr) for w in ast.walk(c) if isinstance(w, ast.NamedExpr)]
            if any(isinstance(x, ast.Name) and isinstance(x.ctx, ast.Store) and x.id == name for h in heads for x in ast.walk(h)):
                out.append(n)
    return out


def fresh_in_iteration(cfg, loop: ast.AST, fn: ast.AST, name: str, use: ast.stmt) -> bool:
    """Inside the body of `loop`, is the local `name` (re)bound in THIS iteration on every path from the loop head to the
    statement `use`?  (Every binding of the name stands inside the loop, and `use` cannot be reached from the head of the loop
    without passing one of them - so the name never carries the value of an earlier iteration.)"""
    binds = binding_stmts(fn, name)
    inside = {id(x) for s in loop.body for x in ast.walk(s)}  # type: ignore[attr-defined]
    if not binds or any(id(b) not in inside for b in binds):
        return False
    head = cfg.by_ast.get(id(loop))
    if head is None or id(use) not in cfg.by_ast:
        return False
    through = [cfg.by_ast[id(b)] for b in binds if id(b) in cfg.by_ast]
    if len(through) != len(binds):
        return False
    return cfg.by_ast[id(use)] not in cfg.reach(head, avoid=through)


def on_every_pass(cfg, loop: ast.AST, st: ast.stmt) -> bool:
    """Is the statement `st` of the body of `loop` executed on every complete pass through the body - every path from the head of
    the loop back to the head that does not leave the pass by `continue` (a skipped item) goes through it?  Guard clause or else
    branch, nesting and order of the other statements do not matter."""
    head = cfg.by_ast.get(id(loop))
    at = cfg.by_ast.get(id(st))
    if head is None or at is None:
        return False
    inside = {cfg.by_ast[id(x)] for s in loop.body for x in ast.walk(s) if id(x) in cfg.by_ast}  # type: ignore[attr-defined]
    if at not in inside:
        return False
    skip = {n for n in inside if isinstance(cfg.nodes[n].ast, ast.Continue)}
    seen: set[int] = set()
    stack = [n for n in cfg.succ[head] if n in inside]
    while stack:
        n = stack.pop()
        if n in seen or n == at or n in skip:
            continue
        seen.add(n)
        if head in cfg.succ[n]:
            return False  # a pass that ends without st
        stack.extend(m for m in cfg.succ[n] if m in inside)
    return True


def reach_methods(mod: Module, cls: str, entries, rounds: int = 6) -> dict[str, ast.FunctionDef]:
    """The methods of class cls that the public entry points `entries` reach through calls on self (transitively): the code
    that does the work of those entry points however it is split into private helpers."""
    meths = mod.methods(cls)
    out = {e: meths[e] for e in entries if e in meths}
    for _ in range(rounds):
        new = {m: meths[m] for f in list(out.values()) for m in self_calls(f) if m in meths and m not in out}
        if not new:
            break
        out.update(new)
    return out


def local_callee(mod: Module, cls: Optional[str], call: ast.AST) -> Optional[tuple[ast.FunctionDef, bool]]:
    """(definition, is_method) of a call that can only go to code of this module: `self.m(...)` with m a method of the class
    `cls`, or `f(...)` with f a module-level function."""
    if not isinstance(call, ast.Call):
        return None
    if isinstance(call.func, ast.Attribute) and isinstance(call.func.value, ast.Name) and call.func.value.id in ("self", "cls") and cls:
        d = mod.defs.get("%s.%s" % (cls, call.func.attr))
        if isinstance(d, ast.FunctionDef):
            return d, True
    if isinstance(call.func, ast.Name):
        d = mod.defs.get(call.func.id)
        if isinstance(d, ast.FunctionDef):
            return d, False
    return None


def delegated_returns(mod: Module, cls: Optional[str], fn: ast.AST, stmts: list[ast.stmt], depth: int = 2, _chain: tuple = ()) -> Iterator[tuple[ast.Return, tuple]]:
    """Every `return <value>` among the statements (of function fn), as (return statement, chain).  A return that hands the
    decision on to other code of the module - `return self.m(...)` / `return f(...)`, not a call of fn itself - stands for the
    returns of that callee: they are yielded in its place with chain = ((delegating return, call, callee, is_method), ...), outermost
    first.  So the value a function gives back on a branch is found wherever the branch was split off to."""
    for r in [x for s in stmts for x in ast.walk(s)]:
        if not (isinstance(r, ast.Return) and r.value is not None):
            continue
        tgt = local_callee(mod, cls, r.value) if depth > 0 else None
        if tgt is not None and tgt[0] is not fn and all(tgt[0] is not c[2] for c in _chain):
            yield from delegated_returns(mod, cls, tgt[0], tgt[0].body, depth - 1, _chain + ((r, r.value, tgt[0], tgt[1]),))
        else:
            yield r, _chain


def terminates(stmts: list[ast.stmt]) -> bool:
    """Does control never fall off the end of the statement list (return / raise / continue / break on every path)?"""
    if not stmts:
        return False
    last = stmts[-1]
    if isinstance(last, (ast.Return, ast.Raise, ast.Continue, ast.Break)):
        return True
    if isinstance(last, ast.If):
        return terminates(last.body) and terminates(last.orelse)
    return False


def control_tests(mod: Module, node: ast.AST, fn: ast.AST) -> list[ast.expr]:
    """The tests the execution of `node` is control dependent on inside fn, whatever their polarity: those of `governing_tests`
    (enclosing if / elif / while / conditional expression) and those of guard clauses - an earlier statement of an enclosing
    block that is an `if` one arm of which always leaves (return / raise / continue / break): `if c: return x` followed by S
    governs S exactly as `if c: return x / else: S` does.  Innermost first."""
    out: list[ast.expr] = []
    child = node
    for p in mod.parents(node):
        for field in ("body", "orelse", "finalbody"):
            block = getattr(p, field, None)
            if isinstance(block, list) and any(child is s for s in block):
                i = next(k for k, s in enumerate(block) if s is child)
                for prev in reversed(block[:i]):
                    if isinstance(prev, ast.If) and (terminates(prev.body) != terminates(prev.orelse)):
                        out.append(prev.test)
        if isinstance(p, (ast.If, ast.While, ast.IfExp)) and child is not p.test:
            out.append(p.test)
        if p is fn:
            break
        child = p
    return out


def governing_nodes(mod: Module, fn: ast.AST, ret: ast.AST, chain: tuple = (), stop: Optional[ast.AST] = None) -> Iterator[tuple[ast.AST, int]]:
    """(node, frame) for every node of every test the statement `ret` is control dependent on (control_tests: enclosing tests and
    guard clauses, either polarity) - in the function it stands in and, when it was
    reached by delegation (see delegated_returns), in the callers down to fn (frame 0), where the walk stops below the test `stop`.
    Local names are followed to the expressions they were assigned from; a parameter of a callee is followed to the argument
    the delegating call passes for it (a node of the caller's frame)."""
    frames = [fn] + [c[2] for c in chain]
    sites = [c[0] for c in chain] + [ret]
    defs = [local_defs(f) for f in frames]
    pars = [set(params(f)) for f in frames]

    def walk(e: ast.AST, i: int, budget: int) -> Iterator[tuple[ast.AST, int]]:
        for n in expand(e, defs[i]):
            yield n, i
            if i > 0 and budget > 0 and isinstance(n, ast.Name) and n.id in pars[i]:
                a = arg_for(chain[i - 1][1], frames[i], n.id, method=chain[i - 1][3])
                if a is not None:
                    yield from walk(a, i - 1, budget - 1)

    for i in range(len(frames) - 1, -1, -1):
        for t in control_tests(mod, sites[i], frames[i]):
            if i == 0 and stop is not None and t is stop:
                break
            yield from walk(t, i, 6)
