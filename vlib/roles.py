"""E2 - abstract interpretation of the in-memory stores' triple indexes.

The three nested-dict indexes are discovered by role from `add`: an index is a
dict attribute of the store that `add` writes through three nested keys that
are the unpacked components of the `triple` parameter.  The key order found in
`add` is the index's *declared order* (a permutation of S,P,O).  `triples` is
then interpreted once for each of the 8 bound/unbound pattern shapes and every
`yield` must be justified by membership facts of one index (see check C01).
"""
from __future__ import annotations

import ast
import itertools
from typing import Optional

from .core import AnalysisError, Module, norm, own_nodes

ROLES = ("S", "P", "O")


def self_attr(e: ast.AST) -> Optional[str]:
    if isinstance(e, ast.Attribute) and isinstance(e.value, ast.Name) and e.value.id == "self":
        return e.attr
    return None


# --------------------------------------------------------------------- add


def index_orders(mod: Module, cls: str) -> dict[str, tuple[str, str, str]]:
    """attr -> declared key order, from the write paths of <cls>.add"""
    fn = mod.func(cls + ".add")
    params = [a.arg for a in fn.args.args]
    tp = params[1]
    role_of: dict[str, str] = {}
    for n in own_nodes(fn):
        if isinstance(n, ast.Assign) and isinstance(n.value, ast.Name) and n.value.id == tp and isinstance(n.targets[0], ast.Tuple) and len(n.targets[0].elts) == 3:
            for r, e in zip(ROLES, n.targets[0].elts):
                role_of[norm(e)] = r
    if len(role_of) != 3:
        raise AnalysisError("%s.add: triple parameter is not unpacked into three components" % cls)
    # alias chains: var -> (attr, keys)
    alias: dict[str, tuple[str, tuple[str, ...]]] = {}

    def view_of(e: ast.AST) -> Optional[tuple[str, tuple[str, ...]]]:
        if isinstance(e, ast.Name) and e.id in alias:
            return alias[e.id]
        a = self_attr(e)
        if a is not None:
            return (a, ())
        if isinstance(e, ast.Subscript):
            b = view_of(e.value)
            k = norm(e.slice)
            if b is not None and k in role_of:
                return (b[0], b[1] + (role_of[k],))
        return None

    orders: dict[str, tuple[str, ...]] = {}
    # iterate to a fixpoint over the (few) assignments in source order
    stmts = [n for n in ast.walk(fn) if isinstance(n, ast.Assign)]
    stmts.sort(key=lambda n: (n.lineno, n.col_offset))
    for _ in range(3):
        for n in stmts:
            v = view_of(n.value)
            for t in n.targets:
                if isinstance(t, ast.Name) and v is not None:
                    alias[t.id] = v
                if isinstance(t, ast.Subscript):
                    tv = view_of(t)
                    if tv is not None and isinstance(n.value, ast.Dict) and not n.value.keys:
                        pass  # creating the next level
                    if tv is not None and len(tv[1]) == 3:
                        orders[tv[0]] = tv[1]
                    # chained: po = spo[subject] = {}
            if len(n.targets) == 2 and isinstance(n.targets[0], ast.Name) and isinstance(n.targets[1], ast.Subscript):
                tv = view_of(n.targets[1])
                if tv is not None:
                    alias[n.targets[0].id] = tv
    out = {}
    for a, o in orders.items():
        if sorted(o) != ["O", "P", "S"]:
            raise AnalysisError("%s.add: index %s is written with keys %s, not a permutation of S,P,O" % (cls, a, o))
        out[a] = tuple(o)  # type: ignore[assignment]
    return out  # type: ignore[return-value]


# ----------------------------------------------------------------- triples


class Yield:
    def __init__(self, node, shape, comps, problems, loops, facts_idx):
        self.node = node
        self.shape = shape
        self.comps = comps
        self.problems = problems
        self.loops = loops
        self.index = facts_idx


class TriplesInterp:
    def __init__(self, mod: Module, cls: str, orders: dict[str, tuple[str, str, str]], ctx_aware: bool):
        self.mod = mod
        self.cls = cls
        self.orders = orders
        self.ctx_aware = ctx_aware
        self.fn = mod.func(cls + ".triples")
        params = [a.arg for a in self.fn.args.args]
        self.tp = params[1]
        self.none_names = {"None"}
        for st in mod.tree.body:
            if isinstance(st, ast.Assign) and isinstance(st.targets[0], ast.Name) and isinstance(st.value, ast.Constant) and st.value.value is None:
                self.none_names.add(st.targets[0].id)
            if isinstance(st, ast.AnnAssign) and isinstance(st.target, ast.Name) and isinstance(st.value, ast.Constant) and st.value.value is None:
                self.none_names.add(st.target.id)
        self.yields: list[Yield] = []
        self.unmodelled: list[tuple[ast.AST, str]] = []
        self.truthy_tests: list[ast.AST] = []

    # -- helpers
    def view(self, e: ast.AST, env) -> Optional[tuple]:
        """(idx, keys) where keys = tuple of (role, var)"""
        if isinstance(e, ast.Name):
            v = env["vars"].get(e.id)
            if v and v[0] == "view":
                return v[1], v[2]
            return None
        a = self_attr(e)
        if a in self.orders:
            return a, ()
        if isinstance(e, ast.Subscript):
            b = self.view(e.value, env)
            if b is None:
                return None
            k = e.slice
            if isinstance(k, ast.Name):
                r = self.role(k.id, env)
                if r is None:
                    return None
                return b[0], b[1] + ((r, k.id),)
        if isinstance(e, ast.Call) and isinstance(e.func, ast.Attribute) and e.func.attr in ("keys", "copy") and not e.args:
            return self.view(e.func.value, env)
        return None

    def role(self, name: str, env) -> Optional[str]:
        v = env["vars"].get(name)
        if v and v[0] in ("pat", "loop"):
            return v[1]
        return None

    def is_none(self, e: ast.AST) -> bool:
        return (isinstance(e, ast.Constant) and e.value is None) or (isinstance(e, ast.Name) and e.id in self.none_names)

    def fold(self, t: ast.expr, env):
        """True/False for boundness tests, ('member', idx, keys) for `k in V`,
        ('ctx', ...) for context tests, None = unmodelled"""
        if isinstance(t, ast.BoolOp):
            vals = [self.fold(v, env) for v in t.values]
            if all(isinstance(v, bool) for v in vals):
                return all(vals) if isinstance(t.op, ast.And) else any(vals)
            return None
        if isinstance(t, ast.UnaryOp) and isinstance(t.op, ast.Not):
            v = self.fold(t.operand, env)
            if isinstance(v, bool):
                return not v
            if isinstance(v, tuple):
                return ("not",) + v
            return None
        if isinstance(t, ast.Compare) and len(t.ops) == 1:
            l, r, op = t.left, t.comparators[0], t.ops[0]
            if isinstance(op, (ast.Is, ast.IsNot, ast.Eq, ast.NotEq)) and isinstance(l, ast.Name) and self.is_none(r):
                v = env["vars"].get(l.id)
                if v and v[0] == "pat":
                    isnone = not env["bound"][v[1]]
                    return isnone if isinstance(op, (ast.Is, ast.Eq)) else (not isnone)
            if isinstance(op, (ast.In, ast.NotIn)) and isinstance(l, ast.Name):
                vw = self.view(r, env)
                role = self.role(l.id, env)
                if vw is not None and role is not None:
                    m = ("member", vw[0], vw[1] + ((role, l.id),))
                    return m if isinstance(op, ast.In) else ("not",) + m
                # req_ctx in self.__contextTriples
                if self_attr(r) is not None and l.id in env["ctxvars"]:
                    m = ("ctxknown",)
                    return m if isinstance(op, ast.In) else ("not",) + m
        if isinstance(t, ast.Call) and isinstance(t.func, ast.Attribute) and self_attr(t.func) is not None and "has_context" in t.func.attr:
            if t.args and isinstance(t.args[0], ast.Name):
                return ("ctxfilter", t.args[0].id)
        if isinstance(t, ast.Name):
            v = env["vars"].get(t.id)
            if v and v[0] == "pat":
                self.truthy_tests.append(t)
                return None
        return None

    # -- execution
    def run_shape(self, bound: dict[str, bool]) -> None:
        env = {"vars": {}, "bound": bound, "facts": set(), "loops": [], "ctx_ok": None, "ctxvars": set(), "try": 0, "shape": "".join(r if bound[r] else "-" for r in ROLES)}
        self.block(self.fn.body, env)

    def copy(self, env):
        return {"vars": dict(env["vars"]), "bound": env["bound"], "facts": set(env["facts"]), "loops": list(env["loops"]),
                "ctx_ok": env["ctx_ok"], "ctxvars": set(env["ctxvars"]), "try": env["try"], "shape": env["shape"]}

    def block(self, stmts, env) -> list:
        """returns the list of environments that fall through"""
        envs = [env]
        for s in stmts:
            nxt = []
            for e in envs:
                nxt += self.stmt(s, e)
            envs = nxt
            if not envs:
                break
        return envs

    def stmt(self, s, env) -> list:
        if isinstance(s, ast.Expr) and isinstance(s.value, ast.Constant):
            return [env]
        if isinstance(s, ast.Pass):
            return [env]
        if isinstance(s, ast.Return):
            return []
        if isinstance(s, ast.Assign) and len(s.targets) == 1:
            t, v = s.targets[0], s.value
            if isinstance(t, ast.Tuple) and isinstance(v, ast.Name) and v.id == self.tp and len(t.elts) == 3:
                for r, e in zip(ROLES, t.elts):
                    env["vars"][norm(e)] = ("pat", r)
                return [env]
            if isinstance(t, ast.Name):
                if isinstance(v, ast.Name) and v.id == self.tp:
                    pats = {vv[1]: k for k, vv in env["vars"].items() if vv[0] == "pat"}
                    env["vars"][t.id] = ("triple", tuple(pats[r] for r in ROLES))
                    return [env]
                if isinstance(v, ast.Tuple) and len(v.elts) == 3 and all(isinstance(e, ast.Name) for e in v.elts):
                    env["vars"][t.id] = ("triple", tuple(e.id for e in v.elts))
                    return [env]
                vw = self.view(v, env)
                if vw is not None:
                    self.note_subscript(v, vw, env, s)
                    env["vars"][t.id] = ("view", vw[0], vw[1])
                    return [env]
                if isinstance(v, ast.Call) and isinstance(v.func, ast.Attribute) and self_attr(v.func) is not None and "ctx" in v.func.attr:
                    env["ctxvars"].add(t.id)
                    return [env]
                if t.id == "_" :
                    vw = self.view(v, env)
                    if vw is not None:
                        self.note_subscript(v, vw, env, s)
                    return [env]
            self.unmodelled.append((s, "assignment form"))
            return [env]
        if isinstance(s, ast.Expr) and isinstance(s.value, ast.Yield):
            self.do_yield(s.value, env)
            return [env]
        if isinstance(s, ast.If):
            f = self.fold(s.test, env)
            if f is True:
                return self.block(s.body, env)
            if f is False:
                return self.block(s.orelse, env)
            neg = False
            if isinstance(f, tuple) and f[0] == "not":
                neg, f = True, f[1:]
            if isinstance(f, tuple):
                e_true, e_false = self.copy(env), self.copy(env)
                if f[0] == "member":
                    e_true["facts"].add((f[1], f[2]))
                elif f[0] == "ctxfilter":
                    e_true["ctx_ok"] = f[1]
                elif f[0] == "ctxknown":
                    pass
                a, b = (s.orelse, s.body) if neg else (s.body, s.orelse)
                return self.block(a, e_true) + self.block(b, e_false)
            # unmodelled test: a filter on the way to a yield
            has_yield = any(isinstance(x, ast.Yield) for st in s.body + s.orelse for x in ast.walk(st))
            if has_yield:
                self.unmodelled.append((s, "condition `%s` guards a yield" % norm(s.test)))
            return self.block(s.body, self.copy(env)) + self.block(s.orelse, self.copy(env))
        if isinstance(s, ast.For):
            it = s.iter
            snap = False
            inner = it
            if isinstance(it, ast.Call) and isinstance(it.func, ast.Name) and it.func.id in ("list", "tuple", "sorted", "set", "frozenset") and len(it.args) == 1:
                snap = True
                inner = it.args[0]
            if isinstance(inner, ast.Call) and isinstance(inner.func, ast.Attribute) and inner.func.attr == "copy":
                snap = True
            vw = self.view(inner, env)
            e2 = self.copy(env)
            if vw is not None and isinstance(s.target, ast.Name):
                idx, keys = vw
                if len(keys) >= 3:
                    self.unmodelled.append((s, "loop below the third index level"))
                    return [env]
                role = self.orders[idx][len(keys)]
                self.note_subscript(inner, vw, env, s)
                e2["vars"][s.target.id] = ("loop", role)
                e2["facts"].add((idx, keys + ((role, s.target.id),)))
                e2["loops"].append((s, snap))
                self.block(s.body, e2)
                return [env]
            # per-context triple set: self.__X[req_ctx](.copy())
            base = inner.func.value if (isinstance(inner, ast.Call) and isinstance(inner.func, ast.Attribute)) else inner
            if isinstance(base, ast.Subscript) and self_attr(base.value) is not None and isinstance(base.slice, ast.Name) and base.slice.id in env["ctxvars"] \
                    and isinstance(s.target, ast.Name):
                e2["vars"][s.target.id] = ("ctxtriple",)
                e2["loops"].append((s, snap))
                self.block(s.body, e2)
                return [env]
            self.unmodelled.append((s, "loop over %s" % norm(it)[:60]))
            return [env]
        if isinstance(s, ast.Try):
            e2 = self.copy(env)
            e2["try"] += 1 if any(h.type is None or "KeyError" in norm(h.type) or "LookupError" in norm(h.type) or "Exception" in norm(h.type) for h in s.handlers) else 0
            out = self.block(s.body, e2)
            for o in out:
                o["try"] = env["try"]
            for h in s.handlers:
                out += self.block(h.body, self.copy(env))
            return out
        self.unmodelled.append((s, "statement %s" % type(s).__name__))
        return [env]

    def note_subscript(self, e: ast.AST, vw, env, where) -> None:
        """every subscript level V[k] must be justified: a member fact, or inside try/except KeyError"""
        idx, keys = vw
        for i in range(1, len(keys) + 1):
            pre = keys[:i]
            if (idx, pre) in env["facts"] or env["try"]:
                if env["try"]:
                    env["facts"].add((idx, pre))
                continue
            self.unmodelled.append((where, "subscript %s without membership guard (may raise KeyError / read a missing key)" % norm(e)[:60]))

    def do_yield(self, y: ast.Yield, env) -> None:
        problems = []
        val = y.value
        first = val.elts[0] if isinstance(val, ast.Tuple) and val.elts else val
        comps = None
        ctxtriple = False
        if isinstance(first, ast.Name):
            v = env["vars"].get(first.id)
            if v and v[0] == "triple":
                comps = v[1]
            elif v and v[0] == "ctxtriple":
                ctxtriple = True
        elif isinstance(first, ast.Tuple) and len(first.elts) == 3 and all(isinstance(e, ast.Name) for e in first.elts):
            comps = tuple(e.id for e in first.elts)
        idx_used = None
        if ctxtriple:
            # dump of the per-context triple set: only valid for the all-unbound shape
            if any(env["bound"].values()):
                problems.append("per-context dump yields for a shape with bound positions")
            idx_used = "contextTriples"
        elif comps is None:
            problems.append("yielded value is not a tracked triple")
        else:
            roles = []
            for c in comps:
                roles.append(self.role(c, env))
            if tuple(roles) != ROLES:
                problems.append("components have roles %s, expected (S,P,O)" % (roles,))
            else:
                for r, c in zip(ROLES, comps):
                    v = env["vars"].get(c)
                    if env["bound"][r] and not (v and v[0] == "pat"):
                        problems.append("position %s is bound in the pattern but the yielded component %s is not the pattern term" % (r, c))
                    if not env["bound"][r] and not (v and v[0] == "loop"):
                        problems.append("position %s is unbound but component %s is not enumerated from an index" % (r, c))
                byrole = dict(zip(ROLES, comps))
                for idx, order in self.orders.items():
                    keys = tuple((r, byrole[r]) for r in order)
                    if all((idx, keys[:i]) in env["facts"] for i in (1, 2, 3)):
                        idx_used = idx
                        break
                if idx_used is None:
                    problems.append("no index holds a complete membership chain for (%s): facts %s" % (", ".join(comps), sorted((i, tuple(v for _, v in k)) for i, k in env["facts"])))
            if self.ctx_aware:
                ok = env["ctx_ok"] is not None and (
                    (isinstance(first, ast.Name) and env["ctx_ok"] == first.id)
                    or (env["vars"].get(env["ctx_ok"], (None,))[0] == "triple" and env["vars"][env["ctx_ok"]][1] == comps))
                if not ok:
                    problems.append("yield is not guarded by the per-triple context filter for this triple: triples of other graphs leak into the requested graph")
        self.yields.append(Yield(y, env["shape"], comps, problems, list(env["loops"]), idx_used))


def shapes():
    for bits in itertools.product((True, False), repeat=3):
        yield dict(zip(ROLES, bits))
