"""Helpers of the later C17 rules (checks/c17.py, rules k-s): small def-use closures, reachability of a CFG under a fixed
truth value of one parameter, resolution of constant names to the namespace they belong to."""
from __future__ import annotations

import ast
from typing import Iterable, Iterator, Optional

from .cfg import CFG, eval3
from .core import Module, Repo, norm, own_nodes


def self_attr(e: ast.AST) -> Optional[str]:
    if isinstance(e, ast.Attribute) and isinstance(e.value, ast.Name) and e.value.id == "self":
        return e.attr
    return None


def params_of(fn: ast.AST) -> list[str]:
    a = fn.args  # type: ignore[attr-defined]
    return [x.arg for x in a.posonlyargs + a.args + a.kwonlyargs]


def assignments(fn: ast.AST) -> Iterator[tuple[ast.expr, ast.expr]]:
    """(target, value) of every plain / annotated / walrus assignment of the function (tuple targets are not split)."""
    for n in own_nodes(fn):
        if isinstance(n, ast.Assign):
            for t in n.targets:
                yield t, n.value
        elif isinstance(n, ast.AnnAssign) and n.value is not None:
            yield n.target, n.value
        elif isinstance(n, ast.NamedExpr):
            yield n.target, n.value


def target_names(t: ast.expr) -> set[str]:
    return {x.id for x in ast.walk(t) if isinstance(x, ast.Name)}


def names_in(e: ast.AST) -> set[str]:
    return {x.id for x in ast.walk(e) if isinstance(x, ast.Name)}


def derived_names(fn: ast.AST, is_source) -> set[str]:
    """local names that (flow-insensitively) receive a value computed from a source expression: `n = <source>`,
    `a, b = <source>`, `m = f(n)` ...  is_source(expr) says whether an expression is a source itself."""
    out: set[str] = set()
    changed = True
    pairs = list(assignments(fn))
    while changed:
        changed = False
        for t, v in pairs:
            if any(is_source(x) for x in ast.walk(v)) or (names_in(v) & out):
                new = target_names(t) - out
                if isinstance(t, (ast.Name, ast.Tuple, ast.List)) and new:
                    out |= new
                    changed = True
    return out


def closure_names(fn: ast.AST, e: ast.AST) -> set[str]:
    """every name an expression depends on, through the assignments of the function (flow-insensitive)"""
    defs: dict[str, list[ast.expr]] = {}
    for t, v in assignments(fn):
        if isinstance(t, (ast.Name, ast.Tuple, ast.List)):
            for nm in target_names(t):
                defs.setdefault(nm, []).append(v)
    seen: set[str] = set()
    todo = list(names_in(e))
    while todo:
        nm = todo.pop()
        if nm in seen:
            continue
        seen.add(nm)
        for v in defs.get(nm, []):
            todo.extend(names_in(v) - seen)
    return seen


def reach_under(g: CFG, env: dict[str, bool], avoid: Iterable[int] = ()) -> set[int]:
    """nodes reachable from the entry when every if/while test that eval3 decides under `env` only takes the decided
    branch; `exc` edges are not followed (implicit exceptions are not paths on which a binding is written)"""
    av = set(avoid)
    seen: set[int] = set()
    stack = [g.entry]
    while stack:
        n = stack.pop()
        if n in seen or n in av:
            continue
        seen.add(n)
        node = g.nodes[n]
        verdict = None
        if node.kind == "test" and isinstance(node.ast, (ast.If, ast.While)):
            verdict = eval3(node.ast.test, env)  # type: ignore[arg-type]
        for s in g.succ[n]:
            lab = g.edge_label.get((n, s), "")
            if lab == "exc":
                continue
            if verdict is True and lab != "true":
                continue
            if verdict is False and lab == "true":
                continue
            stack.append(s)
    return seen


def undecided_tests(g: CFG, env: dict[str, bool]) -> list[int]:
    return [n.id for n in g.nodes if n.kind == "test" and isinstance(n.ast, (ast.If, ast.While)) and eval3(n.ast.test, env) is None]


def in_true_branch(mod: Module, node: ast.AST, stop: ast.AST) -> Iterator[ast.If]:
    """the enclosing `if` statements (up to `stop`) in whose body (not orelse) the node lies"""
    child = node
    for p in mod.parents(node):
        if isinstance(p, ast.If) and any(child is s for s in p.body):
            yield p
        if p is stop:
            break
        child = p


def conjuncts(test: ast.expr) -> list[ast.expr]:
    if isinstance(test, ast.BoolOp) and isinstance(test.op, ast.And):
        out: list[ast.expr] = []
        for v in test.values:
            out.extend(conjuncts(v))
        return out
    return [test]


def module_constants(mod: Module) -> dict[str, ast.expr]:
    out: dict[str, ast.expr] = {}
    for st in mod.tree.body:
        if isinstance(st, ast.Assign) and len(st.targets) == 1 and isinstance(st.targets[0], ast.Name):
            out[st.targets[0].id] = st.value
        elif isinstance(st, ast.AnnAssign) and st.value is not None and isinstance(st.target, ast.Name):
            out[st.target.id] = st.value
    return out


def imported_from(mod: Module) -> dict[str, tuple[str, str]]:
    """local name -> (module, original name) of every module-level `from m import n [as a]`"""
    out: dict[str, tuple[str, str]] = {}
    for st in ast.walk(mod.tree):
        if isinstance(st, ast.ImportFrom) and st.module and st.level == 0:
            for a in st.names:
                out[a.asname or a.name] = (st.module, a.name)
    return out


def const_string(repo: Repo, mod: Module, e: ast.expr, depth: int = 0) -> Optional[str]:
    """the string a constant expression denotes: a literal, Namespace("...") / URIRef("..."), or a module-level / imported
    name bound to one of those"""
    if depth > 4:
        return None
    if isinstance(e, ast.Constant) and isinstance(e.value, str):
        return e.value
    if isinstance(e, ast.Call) and isinstance(e.func, ast.Name) and e.func.id in ("Namespace", "URIRef", "str") and len(e.args) == 1:
        return const_string(repo, mod, e.args[0], depth + 1)
    if isinstance(e, ast.Name):
        consts = module_constants(mod)
        if e.id in consts:
            return const_string(repo, mod, consts[e.id], depth + 1)
        imp = imported_from(mod)
        if e.id in imp and imp[e.id][0] in repo.modules:
            m2 = repo.modules[imp[e.id][0]]
            return const_string(repo, m2, ast.Name(id=imp[e.id][1], ctx=ast.Load()), depth + 1)
    return None


def resolve_name(repo: Repo, mod: Module, name: str, depth: int = 0):
    """(module, node) a module-level name stands for: its ClassDef, or the value assigned to it; imports are followed"""
    if depth > 5:
        return None
    if name in mod.defs and isinstance(mod.defs[name], ast.ClassDef):
        return mod, mod.defs[name]
    consts = module_constants(mod)
    if name in consts:
        return mod, consts[name]
    imp = imported_from(mod)
    if name in imp and imp[name][0] in repo.modules:
        return resolve_name(repo, repo.modules[imp[name][0]], imp[name][1], depth + 1)
    return None


def namespace_of_container(repo: Repo, mod: Module, name: str, depth: int = 0) -> Optional[str]:
    """the namespace IRI of `name` when it is a Namespace("...") constant or a DefinedNamespace class (its `_NS`, inherited)"""
    r = resolve_name(repo, mod, name)
    if r is None or depth > 4:
        return None
    m2, node = r
    if isinstance(node, ast.ClassDef):
        for st in node.body:
            if isinstance(st, ast.Assign) and any(isinstance(t, ast.Name) and t.id == "_NS" for t in st.targets):
                return const_string(repo, m2, st.value)
        for b in node.bases:
            if isinstance(b, ast.Name):
                s = namespace_of_container(repo, m2, b.id, depth + 1)
                if s is not None:
                    return s
        return None
    return const_string(repo, m2, node)


def constant_iri_namespace(repo: Repo, mod: Module, e: ast.expr, known: Iterable[str]) -> Optional[str]:
    """the namespace a constant IRI expression belongs to: `NS.x` / `NS["x"]` -> namespace of NS; a string constant (or a name
    bound to one) -> the longest namespace of `known` it starts with; None when the expression is not a constant"""
    if isinstance(e, (ast.Attribute, ast.Subscript)) and isinstance(e.value, ast.Name):
        if isinstance(e, ast.Subscript) and not isinstance(e.slice, ast.Constant):
            return None
        return namespace_of_container(repo, mod, e.value.id)
    if isinstance(e, ast.Attribute) or isinstance(e, ast.Subscript):
        return None
    s = const_string(repo, mod, e)
    if s is None:
        return None
    best = None
    for k in known:
        if s.startswith(k) and (best is None or len(k) > len(best)):
            best = k
    return best if best is not None else s
