"""Helpers of the later C17 rules (checks/c17.py, rules k-s): small def-use closures, reachability of a CFG under a fixed
truth value of one parameter, resolution of constant names to the namespace they belong to."""
from __future__ import annotations

import ast
from typing import Iterable, Iterator, Optional

from .cfg import CFG, eval3
from .core import Module, Repo, norm, own_nodes


def self_attr(e: ast.AST) -> Optional[str]:
    if isinstance(e, ast.Attribute) and isinstance(e.value, ast.Name) and e.value.id == "self":
        return e.attr
    return None


def params_of(fn: ast.AST) -> list[str]:
    a = fn.args  # type: ignore[attr-defined]
    return [x.arg for x in a.posonlyargs + a.args + a.kwonlyargs]


def assignments(fn: ast.AST) -> Iterator[tuple[ast.expr, ast.expr]]:
    """(target, value) of every plain / annotated / walrus assignment of the function (tuple targets are not split)."""
    for n in own_nodes(fn):
        if isinstance(n, ast.Assign):
            for t in n.targets:
                yield t, n.value
        elif isinstance(n, ast.AnnAssign) and n.value is not None:
            yield n.target, n.value
        elif isinstance(n, ast.NamedExpr):
            yield n.target, n.value


def target_names(t: ast.expr) -> set[str]:
    return {x.id for x in ast.walk(t) if isinstance(x, ast.Name)}


def names_in(e: ast.AST) -> set[str]:
    return {x.id for x in ast.walk(e) if isinstance(x, ast.Name)}


def derived_names(fn: ast.AST, is_source) -> set[str]:
    """local names that (flow-insensitively) receive a value computed from a source expression: `n = <source>`,
    `a, b = <source>`, `m = f(n)` ...  is_source(expr) says whether an expression is a source itself."""
    out: set[str] = set()
    changed = True
    pairs = list(assignments(fn))
    while changed:
        changed = False
        for t, v in pairs:
            if any(is_source(x) for x in ast.walk(v)) or (names_in(v) & out):
                new = target_names(t) - out
                if isinstance(t, (ast.Name, ast.Tuple, ast.List)) and new:
                    out |= new
                    changed = True
    return out


def closure_names(fn: ast.AST, e: ast.AST) -> set[str]:
    """every name an expression depends on, through the assignments of the function (flow-insensitive)"""
    defs: dict[str, list[ast.expr]] = {}
    for t, v in assignments(fn):
        if isinstance(t, (ast.Name, ast.Tuple, ast.List)):
            for nm in target_names(t):
                defs.setdefault(nm, []).append(v)
    seen: set[str] = set()
    todo = list(names_in(e))
    while todo:
        nm = todo.pop()
        if nm in seen:
            continue
        seen.add(nm)
        for v in defs.get(nm, []):
            todo.extend(names_in(v) - seen)
    return seen


def reach_under(g: CFG, env: dict[str, bool], avoid: Iterable[int] = ()) -> set[int]:
    """nodes reachable from the entry when every if/while test that eval3 decides under `env` only takes the decided
    branch; `exc` edges are not followed (implicit exceptions are not paths on which a binding is written)"""
    av = set(avoid)
    seen: set[int] = set()
    stack = [g.entry]
    while stack:
        n = stack.pop()
        if n in seen or n in av:
            continue
        seen.add(n)
        node = g.nodes[n]
        verdict = None
        if node.kind == "test" and isinstance(node.ast, (ast.If, ast.While)):
            verdict = eval3(node.ast.test, env)  # type: ignore[arg-type]
        for s in g.succ[n]:
            lab = g.edge_label.get((n, s), "")
            if lab == "exc":
                continue
            if verdict is True and lab != "true":
                continue
            if verdict is False and lab == "true":
                continue
            stack.append(s)
    return seen


def undecided_tests(g: CFG, env: dict[str, bool]) -> list[int]:
    return [n.id for n in g.nodes if n.kind == "test" and isinstance(n.ast, (ast.If, ast.While)) and eval3(n.ast.test, env) is None]


def in_true_branch(mod: Module, node: ast.AST, stop: ast.AST) -> Iterator[ast.If]:
    """the enclosing `if` statements (up to `stop`) in whose body (not orelse) the node lies"""
    child = node
    for p in mod.parents(node):
        if isinstance(p, ast.If) and any(child is s for s in p.body):
            yield p
        if p is stop:
            break
        child = p


def conjuncts(test: ast.expr) -> list[ast.expr]:
    if isinstance(test, ast.BoolOp) and isinstance(test.op, ast.And):
        out: list[ast.expr] = []
        for v in test.values:
            out.extend(conjuncts(v))
        return out
    return [test]


def module_constants(mod: Module) -> dict[str, ast.expr]:
    out: dict[str, ast.expr] = {}
    for st in mod.tree.body:
        if isinstance(st, ast.Assign) and len(st.targets) == 1 and isinstance(st.targets[0], ast.Name):
            out[st.targets[0].id] = st.value
        elif isinstance(st, ast.AnnAssign) and st.value is not None and isinstance(st.target, ast.Name):
            out[st.target.id] = st.value
    return out


def imported_from(mod: Module) -> dict[str, tuple[str, str]]:
    """local name -> (module, original name) of every module-level `from m import n [as a]`"""
    out: dict[str, tuple[str, str]] = {}
    for st in ast.walk(mod.tree):
        if isinstance(st, ast.ImportFrom) and st.module and st.level == 0:
            for a in st.names:
                out[a.asname or a.name] = (st.module, a.name)
    return out


def const_string(repo: Repo, mod: Module, e: ast.expr, depth: int = 0) -> Optional[str]:
    """the string a constant expression denotes: a literal, Namespace("...") / URIRef("..."), or a module-level / imported
    name bound to one of those"""
    if depth > 4:
        return None
    if isinstance(e, ast.Constant) and isinstance(e.value, str):
        return e.value
    if isinstance(e, ast.Call) and isinstance(e.func, ast.Name) and e.func.id in ("Namespace", "URIRef", "str") and len(e.args) == 1:
        return const_string(repo, mod, e.args[0], depth + 1)
    if isinstance(e, ast.Name):
        consts = module_constants(mod)
        if e.id in consts:
            return const_string(repo, mod, consts[e.id], depth + 1)
        imp = imported_from(mod)
        if e.id in imp and imp[e.id][0] in repo.modules:
            m2 = repo.modules[imp[e.id][0]]
            return const_string(repo, m2, ast.Name(id=imp[e.id][1], ctx=ast.Load()), depth + 1)
    return None


def resolve_name(repo: Repo, mod: Module, name: str, depth: int = 0):
    """(module, node) a module-level name stands for: its ClassDef, or the value assigned to it; imports are followed"""
    if depth > 5:
        return None
    if name in mod.defs and isinstance(mod.defs[name], ast.ClassDef):
        return mod, mod.defs[name]
    consts = module_constants(mod)
    if name in consts:
        return mod, consts[name]
    imp = imported_from(mod)
    if name in imp and imp[name][0] in repo.modules:
        return resolve_name(repo, repo.modules[imp[name][0]], imp[name][1], depth + 1)
    return None


def namespace_of_container(repo: Repo, mod: Module, name: str, depth: int = 0) -> Optional[str]:
    """the namespace IRI of `name` when it is a Namespace("...") constant or a DefinedNamespace class (its `_NS`, inherited)"""
    r = resolve_name(repo, mod, name)
    if r is None or depth > 4:
        return None
    m2, node = r
    if isinstance(node, ast.ClassDef):
        for st in node.body:
            if isinstance(st, ast.Assign) and any(isinstance(t, ast.Name) and t.id == "_NS" for t in st.targets):
                return const_string(repo, m2, st.value)
        for b in node.bases:
            if isinstance(b, ast.Name):
                s = namespace_of_container(repo, m2, b.id, depth + 1)
                if s is not None:
                    return s
        return None
    return const_string(repo, m2, node)


def constant_iri_namespace(repo: Repo, mod: Module, e: ast.expr, known: Iterable[str]) -> Optional[str]:
    """the namespace a constant IRI expression belongs to: `NS.x` / `NS["x"]` -> namespace of NS; a string constant (or a name
    bound to one) -> the longest namespace of `known` it starts with; None when the expression is not a constant"""
    if isinstance(e, (ast.Attribute, ast.Subscript)) and isinstance(e.value, ast.Name):
        if isinstance(e, ast.Subscript) and not isinstance(e.slice, ast.Constant):
            return None
        return namespace_of_container(repo, mod, e.value.id)
    if isinstance(e, ast.Attribute) or isinstance(e, ast.Subscript):
        return None
    s = const_string(repo, mod, e)
    if s is None:
        return None
    best = None
    for k in known:
        if s.startswith(k) and (best is None or len(k) > len(best)):
            best = k
    return best if best is not None else s


# ======================================================================================================================
# round 2 (rules t - z): a partial evaluator of side-effect-free string / boolean expressions.  It is used to ask what a
# guard of the analysed code (a regular-expression test, startswith/endswith, a comparison with a constant ...) answers
# for a PROBE value - the patterns are the library's own constants, resolved from the source; nothing of the library is
# imported or run, only `re` / `str` of the standard library on the probe strings.
# ======================================================================================================================
import re as _re


class _Unknown:
    def __repr__(self) -> str:
        return "UNK"

    def __bool__(self) -> bool:  # never truth-test UNK by accident
        raise TypeError("UNK has no truth value")


UNK = _Unknown()

_STR_METHODS = {"startswith", "endswith", "replace", "lower", "upper", "strip", "lstrip", "rstrip", "isdigit", "isalpha", "isalnum",
                "join", "split", "rsplit", "find", "rfind", "count", "format", "encode", "decode", "partition", "rpartition", "title"}
_PAT_METHODS = {"search", "match", "fullmatch", "sub", "findall", "split"}
_RE_FUNCS = {"search", "match", "fullmatch", "sub", "compile", "escape", "findall", "split"}
_IDENT_CALLS = {"str", "URIRef", "Namespace"}  # wrappers that keep the text


def known(v) -> bool:
    return v is not UNK


def truth(v):
    """True / False / UNK"""
    if v is UNK:
        return UNK
    try:
        return bool(v)
    except Exception:
        return UNK


class StrEval:
    """value of an expression of module `mod` under `env` (local name -> concrete value); UNK when it is not decided.
    `call_hook(call)` may give the value of a call the evaluator does not know (a probe standing for a look-up)."""

    _cache: dict = {}

    def __init__(self, repo: Repo, mod: Module, env: Optional[dict] = None, call_hook=None):
        self.repo, self.mod, self.env, self.call_hook = repo, mod, dict(env or {}), call_hook

    # -- module-level constants (followed through imports)
    def _global(self, name: str, depth: int):
        key = (id(self.repo), self.mod.name, name)
        if key in StrEval._cache:
            return StrEval._cache[key]
        StrEval._cache[key] = UNK  # cycle guard
        r = resolve_name(self.repo, self.mod, name)
        v = UNK
        if r is not None and not isinstance(r[1], ast.ClassDef) and depth < 8:
            v = StrEval(self.repo, r[0]).ev(r[1], depth + 1)
        StrEval._cache[key] = v
        return v

    def ev(self, e: ast.AST, depth: int = 0):
        try:
            return self._ev(e, depth)
        except (IndexError, KeyError, TypeError, ValueError, AttributeError, _re.error, RecursionError, OverflowError):
            return UNK

    def _args(self, c: ast.Call, depth: int):
        if c.keywords and any(k.arg is None for k in c.keywords):
            return None, None
        a = [self._ev(x, depth) for x in c.args]
        k = {kw.arg: self._ev(kw.value, depth) for kw in c.keywords}
        if any(x is UNK for x in a) or any(x is UNK for x in k.values()):
            return None, None
        return a, k

    def _ev(self, e: ast.AST, depth: int):
        if isinstance(e, ast.Constant):
            return e.value
        if isinstance(e, ast.Name):
            if e.id in self.env:
                return self.env[e.id]
            if e.id in ("True", "False", "None"):
                return {"True": True, "False": False, "None": None}[e.id]
            return self._global(e.id, depth)
        if isinstance(e, ast.Attribute):
            sa = norm(e)
            if sa in self.env:  # self.<attr> bound by the caller
                return self.env[sa]
            if isinstance(e.value, ast.Name) and e.value.id == "re" and e.attr.isupper():
                return int(getattr(_re, e.attr))
            return UNK
        if isinstance(e, (ast.Tuple, ast.List)):
            vs = [self._ev(x, depth) for x in e.elts]
            if any(v is UNK for v in vs):
                return UNK
            return tuple(vs) if isinstance(e, ast.Tuple) else list(vs)
        if isinstance(e, ast.UnaryOp) and isinstance(e.op, ast.Not):
            t = truth(self._ev(e.operand, depth))
            return UNK if t is UNK else (not t)
        if isinstance(e, ast.UnaryOp) and isinstance(e.op, ast.USub):
            v = self._ev(e.operand, depth)
            return -v if isinstance(v, int) else UNK
        if isinstance(e, ast.BoolOp):
            is_and = isinstance(e.op, ast.And)
            unk = False
            last = UNK
            for x in e.values:
                v = self._ev(x, depth)
                t = truth(v)
                if t is UNK:
                    unk = True
                    continue
                if t is (not is_and):
                    return v if not unk else (not is_and)  # a decided short-circuit operand decides the truth value
                last = v
            return UNK if unk else last
        if isinstance(e, ast.IfExp):
            t = truth(self._ev(e.test, depth))
            if t is UNK:
                return UNK
            return self._ev(e.body if t else e.orelse, depth)
        if isinstance(e, ast.Compare):
            left = self._ev(e.left, depth)
            res = True
            for op, r in zip(e.ops, e.comparators):
                right = self._ev(r, depth)
                if left is UNK or right is UNK:
                    return UNK
                if isinstance(op, ast.Eq):
                    ok = left == right
                elif isinstance(op, ast.NotEq):
                    ok = left != right
                elif isinstance(op, ast.Lt):
                    ok = left < right
                elif isinstance(op, ast.LtE):
                    ok = left <= right
                elif isinstance(op, ast.Gt):
                    ok = left > right
                elif isinstance(op, ast.GtE):
                    ok = left >= right
                elif isinstance(op, ast.In):
                    ok = left in right
                elif isinstance(op, ast.NotIn):
                    ok = left not in right
                elif isinstance(op, ast.Is):
                    ok = left is right if (left is None or right is None) else UNK
                elif isinstance(op, ast.IsNot):
                    ok = left is not right if (left is None or right is None) else UNK
                else:
                    return UNK
                if ok is UNK:
                    return UNK
                res = res and bool(ok)
                left = right
            return res
        if isinstance(e, ast.BinOp):
            l, r = self._ev(e.left, depth), self._ev(e.right, depth)
            if l is UNK or r is UNK:
                return UNK
            if isinstance(e.op, ast.Add) and (isinstance(l, str) and isinstance(r, str) or isinstance(l, int) and isinstance(r, int)):
                return l + r
            if isinstance(e.op, ast.Mod) and isinstance(l, str):
                return l % r
            if isinstance(e.op, ast.BitOr) and isinstance(l, int) and isinstance(r, int):
                return l | r
            if isinstance(e.op, ast.Mult) and isinstance(l, (str, int)) and isinstance(r, int):
                return l * r
            return UNK
        if isinstance(e, ast.Subscript):
            v = self._ev(e.value, depth)
            if v is UNK or not isinstance(v, (str, tuple, list)):
                return UNK
            if isinstance(e.slice, ast.Slice):
                lo = None if e.slice.lower is None else self._ev(e.slice.lower, depth)
                hi = None if e.slice.upper is None else self._ev(e.slice.upper, depth)
                if lo is UNK or hi is UNK or e.slice.step is not None:
                    return UNK
                return v[lo:hi]
            i = self._ev(e.slice, depth)
            return v[i] if isinstance(i, int) else UNK
        if isinstance(e, ast.JoinedStr):
            out = []
            for p in e.values:
                if isinstance(p, ast.Constant):
                    out.append(str(p.value))
                elif isinstance(p, ast.FormattedValue) and p.format_spec is None and p.conversion == -1:
                    v = self._ev(p.value, depth)
                    if not isinstance(v, str):
                        return UNK
                    out.append(v)
                else:
                    return UNK
            return "".join(out)
        if isinstance(e, ast.Call):
            if self.call_hook is not None:
                hv = self.call_hook(e)
                if hv is not UNK:
                    return hv
            f = e.func
            if isinstance(f, ast.Name):
                if f.id in _IDENT_CALLS and len(e.args) == 1 and not e.keywords:
                    v = self._ev(e.args[0], depth)
                    return v if isinstance(v, str) else UNK
                if f.id == "len" and len(e.args) == 1:
                    v = self._ev(e.args[0], depth)
                    return len(v) if isinstance(v, (str, tuple, list)) else UNK
                if f.id == "bool" and len(e.args) == 1:
                    return truth(self._ev(e.args[0], depth))
                return UNK
            if isinstance(f, ast.Attribute):
                if isinstance(f.value, ast.Name) and f.value.id == "re" and "re" not in self.env and f.attr in _RE_FUNCS:
                    a, k = self._args(e, depth)
                    return UNK if a is None else getattr(_re, f.attr)(*a, **k)
                recv = self._ev(f.value, depth)
                if isinstance(recv, str) and f.attr in _STR_METHODS or isinstance(recv, _re.Pattern) and f.attr in _PAT_METHODS:
                    if f.attr == "join" and len(e.args) == 1 and isinstance(e.args[0], (ast.GeneratorExp, ast.ListComp)):
                        return UNK
                    a, k = self._args(e, depth)
                    return UNK if a is None else getattr(recv, f.attr)(*a, **k)
            return UNK
        return UNK


def ordered_assignments(fn: ast.AST) -> list[tuple[ast.expr, ast.expr]]:
    """assignments(fn) in source order"""
    return sorted(assignments(fn), key=lambda tv: (getattr(tv[1], "lineno", 0), getattr(tv[1], "col_offset", 0)))


def bind_target(env: dict, t: ast.expr, v) -> bool:
    """env[t] = v for a Name / `self.attr` / tuple-of-those target that has no value yet; True when something was bound"""
    if v is UNK or v is None:
        return False  # (a None initialisation says nothing about the value tested later)
    if isinstance(t, ast.Name):
        if t.id not in env:
            env[t.id] = v
            return True
        return False
    if isinstance(t, ast.Attribute) and self_attr(t):
        if norm(t) not in env:
            env[norm(t)] = v
            return True
        return False
    if isinstance(t, (ast.Tuple, ast.List)) and isinstance(v, (tuple, list)) and len(v) == len(t.elts):
        ch = False
        for x, xv in zip(t.elts, v):
            ch = bind_target(env, x, xv) or ch
        return ch
    return False


def probe_env(repo: Repo, mod: Module, fn: ast.AST, call_hook, seed: Optional[dict] = None) -> "StrEval":
    """evaluator for the function with every local bound (flow-insensitively, first decidable definition in source order) to
    the value it has when the look-ups named by call_hook answer their probe"""
    ev = StrEval(repo, mod, dict(seed or {}), call_hook)
    pairs = ordered_assignments(fn)
    changed = True
    while changed:
        changed = False
        for t, v in pairs:
            changed = bind_target(ev.env, t, ev.ev(v)) or changed
    return ev


def reach_decided(g: CFG, decide) -> set[int]:
    """nodes reachable from the entry when an `if` test that decide(node) -> True/False answers only takes that branch
    (None = both); exception edges are followed"""
    seen: set[int] = set()
    stack = [g.entry]
    while stack:
        n = stack.pop()
        if n in seen:
            continue
        seen.add(n)
        node = g.nodes[n]
        verdict = decide(node) if node.kind == "test" and isinstance(node.ast, ast.If) else None
        for s in g.succ[n]:
            lab = g.edge_label.get((n, s), "")
            if verdict is True and lab != "true":
                continue
            if verdict is False and lab == "true":
                continue
            stack.append(s)
    return seen


def _merge_parts(parts: list) -> list:
    out: list = []
    for p in parts:
        if isinstance(p, str):
            if p == "":
                continue
            if out and isinstance(out[-1], str):
                out[-1] += p
                continue
        out.append(p)
    return out


def _is_const_str(e: ast.AST) -> bool:
    return isinstance(e, ast.Constant) and isinstance(e.value, str)


def str_parts(e: ast.AST) -> Optional[list]:
    """what a string-building expression concatenates, in order: a list of `str` (the constant text) and ast expressions (the
    values interpolated with str()), whichever way it is spelt - an f-string, `"..%s.." % (a, b)`, `"..{}..".format(a, b)`,
    `sep.join([a, b])`, `a + ".." + b`, or a nesting of those.  Adjacent constants are merged.  None when the expression is
    not such a form (or uses a conversion / format spec other than plain str())."""
    if _is_const_str(e):
        return _merge_parts([e.value])  # type: ignore[attr-defined]
    if isinstance(e, ast.JoinedStr):
        out: list = []
        for p in e.values:
            if isinstance(p, ast.Constant):
                out.append(str(p.value))
            elif isinstance(p, ast.FormattedValue) and p.format_spec is None and p.conversion in (-1, 115):
                out.extend(str_parts(p.value) or [p.value])
            else:
                return None
        return _merge_parts(out)
    if isinstance(e, ast.BinOp) and isinstance(e.op, ast.Add):
        l, r = str_parts(e.left), str_parts(e.right)
        if l is None and r is None:
            return None  # (no sign that this `+` is one of strings)
        return _merge_parts((l or [e.left]) + (r or [e.right]))
    if isinstance(e, ast.BinOp) and isinstance(e.op, ast.Mod) and _is_const_str(e.left):
        tmpl = e.left.value  # type: ignore[attr-defined]
        pieces = _re.split(r"(%%|%s)", tmpl)
        if any("%" in x for x in pieces[0::2]):
            return None  # a conversion other than %s
        args = list(e.right.elts) if isinstance(e.right, ast.Tuple) else [e.right]
        if any(isinstance(a, ast.Starred) for a in args) or sum(1 for x in pieces[1::2] if x == "%s") != len(args):
            return None
        out = []
        it = iter(args)
        for i, x in enumerate(pieces):
            if i % 2 == 0:
                out.append(x)
            elif x == "%%":
                out.append("%")
            else:
                a = next(it)
                out.extend(str_parts(a) or [a])
        return _merge_parts(out)
    if isinstance(e, ast.Call) and isinstance(e.func, ast.Attribute) and _is_const_str(e.func.value) and not e.keywords \
            and not any(isinstance(a, ast.Starred) for a in e.args):
        recv = e.func.value.value  # type: ignore[attr-defined]
        if e.func.attr == "format":
            import string

            out = []
            auto = 0
            try:
                fields = list(string.Formatter().parse(recv))
            except ValueError:
                return None
            for lit, field, spec, conv in fields:
                out.append(lit)
                if field is None:
                    continue
                if spec or conv not in (None, "s"):
                    return None
                if field == "":
                    idx = auto
                    auto += 1
                elif field.isdigit():
                    idx = int(field)
                else:
                    return None
                if idx >= len(e.args):
                    return None
                out.extend(str_parts(e.args[idx]) or [e.args[idx]])
            return _merge_parts(out)
        if e.func.attr == "join" and len(e.args) == 1 and isinstance(e.args[0], (ast.List, ast.Tuple)) \
                and not any(isinstance(x, ast.Starred) for x in e.args[0].elts):
            out = []
            for i, x in enumerate(e.args[0].elts):
                if i:
                    out.append(recv)
                out.extend(str_parts(x) or [x])
            return _merge_parts(out)
    return None


def joined_by(e: ast.AST, sep: str) -> Optional[list[ast.expr]]:
    """the expressions e1 .. en (n >= 2) of a string-building expression that evaluates to str(e1) + sep + .. + sep + str(en)
    and nothing else, however it is spelt (see str_parts); None otherwise"""
    parts = str_parts(e)
    if parts is None or len(parts) < 3 or len(parts) % 2 == 0:
        return None
    if any(isinstance(x, str) for x in parts[0::2]) or any(x != sep for x in parts[1::2]):
        return None
    return list(parts[0::2])


def pname_parts(e: ast.AST) -> Optional[tuple[ast.expr, ast.expr]]:
    """(prefix expression, local expression) of an expression that builds `<prefix>:<local>`: `"%s:%s" % (p, l)` / `":".join([p, l])` /
    `p + ":" + l` / `f"{p}:{l}"` / `"{}:{}".format(p, l)` (any spelling str_parts reads)"""
    es = joined_by(e, ":")
    if es is None or len(es) != 2:
        return None
    return es[0], es[1]


def interpolations(e: ast.AST) -> Iterator[tuple[ast.expr, bool, str, str]]:
    """(value, plain, text after, template as shown) of every value a string template interpolates: `plain` says that the value
    goes in through str() alone (%s, {}, {!s}), `text after` is the constant text between this slot and the next one.  Templates:
    `"..%s.." % args` (any conversion specs), f-strings, `"..{}..".format(..)`, and `x + "text"` chains."""
    if isinstance(e, ast.BinOp) and isinstance(e.op, ast.Mod) and _is_const_str(e.left):
        tmpl = e.left.value  # type: ignore[attr-defined]
        specs = [m for m in _re.finditer(r"%(?:%|[-#0 +]*\d*(?:\.\d+)?[sdrif])", tmpl) if m.group(0) != "%%"]
        args = e.right.elts if isinstance(e.right, ast.Tuple) else [e.right]
        for i, m in enumerate(specs):
            if i < len(args):
                end = specs[i + 1].start() if i + 1 < len(specs) else len(tmpl)
                yield args[i], m.group(0) == "%s", tmpl[m.end():end], norm(e.left)
    elif isinstance(e, ast.JoinedStr):
        vs = e.values
        for i, p in enumerate(vs):
            if isinstance(p, ast.FormattedValue):
                after = str(vs[i + 1].value) if i + 1 < len(vs) and isinstance(vs[i + 1], ast.Constant) else ""
                yield p.value, p.format_spec is None and p.conversion in (-1, 115), after, norm(e)
    elif isinstance(e, ast.Call) and isinstance(e.func, ast.Attribute) and e.func.attr == "format" and _is_const_str(e.func.value) \
            and not any(isinstance(a, ast.Starred) for a in e.args) and not any(k.arg is None for k in e.keywords):
        import string

        try:
            fields = list(string.Formatter().parse(e.func.value.value))  # type: ignore[attr-defined]
        except ValueError:
            return
        auto = 0
        kw = {k.arg: k.value for k in e.keywords}
        for i, (lit, field, spec, conv) in enumerate(fields):
            if field is None:
                continue
            head = _re.match(r"[^.\[]*", field).group(0)  # type: ignore[union-attr]
            val = None
            if head == "":
                val = e.args[auto] if auto < len(e.args) else None
                auto += 1
            elif head.isdigit():
                val = e.args[int(head)] if int(head) < len(e.args) else None
            else:
                val = kw.get(head)
            if val is not None:
                after = fields[i + 1][0] if i + 1 < len(fields) else ""
                yield val, head == field and not spec and conv in (None, "s"), after, norm(e.func.value)
    elif isinstance(e, ast.BinOp) and isinstance(e.op, ast.Add):
        ops: list[ast.expr] = []

        def flat(x: ast.expr) -> None:
            if isinstance(x, ast.BinOp) and isinstance(x.op, ast.Add):
                flat(x.left)
                flat(x.right)
            else:
                ops.append(x)

        flat(e)
        for i, x in enumerate(ops[:-1]):
            if not _is_const_str(x) and _is_const_str(ops[i + 1]):
                yield x, True, ops[i + 1].value, norm(e)  # type: ignore[attr-defined]


def cfg_node_exprs(nd) -> Iterator[ast.AST]:
    """the AST nodes evaluated AT a CFG node (vlib.cfg.Node): the whole simple statement, but of a compound statement only its head"""
    st = nd.ast
    if st is None:
        return
    if nd.kind == "stmt":
        yield from ast.walk(st)
    elif nd.kind == "test":
        yield from ast.walk(st.test)
    elif nd.kind == "iter":
        yield from ast.walk(st.target)
        yield from ast.walk(st.iter)
    elif nd.kind == "with":
        for it in st.items:
            yield from ast.walk(it)
    elif nd.kind == "match":
        yield from ast.walk(st.subject)
    elif nd.kind == "handler" and getattr(st, "type", None) is not None:
        yield from ast.walk(st.type)


def outcome_implies(test: ast.expr, outcome: bool, atom) -> bool:
    """does `test` evaluating to `outcome` imply the fact F, where atom(e) says True / False when the sub-expression e being true
    is equivalent to F / to not F (None: says nothing)?  Follows not / and / or."""
    a = atom(test)
    if a is not None:
        return a is outcome
    if isinstance(test, ast.UnaryOp) and isinstance(test.op, ast.Not):
        return outcome_implies(test.operand, not outcome, atom)
    if isinstance(test, ast.BoolOp):
        conj = isinstance(test.op, ast.And)
        # (A and B) true: both true - one of them implying F is enough; (A and B) false: either may be the false one - all must imply F
        if conj is outcome:
            return any(outcome_implies(v, outcome, atom) for v in test.values)
        return all(outcome_implies(v, outcome, atom) for v in test.values)
    return False


def fact_edges(g: CFG, atom) -> set[tuple[int, int]]:
    """the branch edges (test node, successor) of the CFG whose being taken implies the fact F of `atom` (see outcome_implies)"""
    out: set[tuple[int, int]] = set()
    for nd in g.nodes:
        if nd.kind != "test" or not isinstance(nd.ast, (ast.If, ast.While)):
            continue
        for outcome in (True, False):
            if outcome_implies(nd.ast.test, outcome, atom):
                for s in g.succ[nd.id]:
                    lab = g.edge_label.get((nd.id, s), "")
                    if lab == "exc":
                        continue
                    # (every other edge out of a test node that is not labelled "true" is its false outcome: "false", the
                    # fall-through of an `if` without else, which is a "back" edge when that `if` ends a loop body)
                    if (lab == "true") is outcome:
                        out.add((nd.id, s))
    return out


def reach_edges(g: CFG, srcs: Iterable[int], cut: Iterable[tuple[int, int]] = ()) -> set[int]:
    """nodes reachable from `srcs` (included) without taking an edge of `cut`"""
    cut = set(cut)
    seen: set[int] = set()
    stack = list(srcs)
    while stack:
        n = stack.pop()
        if n in seen:
            continue
        seen.add(n)
        stack.extend(s for s in g.succ[n] if (n, s) not in cut and s not in seen)
    return seen


def module_qual(repo: Repo, full: str) -> Optional[tuple[Module, str]]:
    """'pkg.mod.Class.meth' -> (Module, 'Class.meth')"""
    parts = full.split(".")
    for i in range(len(parts) - 1, 0, -1):
        m = ".".join(parts[:i])
        if m in repo.modules:
            return repo.modules[m], ".".join(parts[i:])
    return None


# ======================================================================================================================
# round 3 (preserving refactorings, second set): functions found where they live now, callables an expression can evaluate to,
# "the value answered was asked about" as a path property
# ======================================================================================================================
def imports_of(repo: Repo, mod: Module) -> dict[str, tuple[str, str]]:
    """local name -> (module of the package, original name) of every module-level `from m import n [as a]`, relative forms
    (`from ._x import n`, `from . import n`) resolved against the module's own place in the package"""
    out: dict[str, tuple[str, str]] = {}
    is_pkg = mod.rel.endswith("__init__.py")
    for st in mod.tree.body:
        if not isinstance(st, ast.ImportFrom):
            continue
        if st.level == 0:
            base = st.module or ""
        else:
            parts = mod.name.split(".")
            if not is_pkg:
                parts = parts[:-1]
            up = st.level - 1
            if up > len(parts):
                continue
            parts = parts[: len(parts) - up] if up else parts
            base = ".".join(parts + ([st.module] if st.module else []))
        for a in st.names:
            out[a.asname or a.name] = (base, a.name)
    return out


def resolve_function(repo: Repo, mod: Module, name: str, depth: int = 0) -> Optional[tuple[Module, ast.FunctionDef]]:
    """(module, def) of the module-level function a global name of `mod` stands for: defined there, or imported (followed through
    re-exports) from another module of the package - a function that was moved is found where it lives now"""
    if depth > 6:
        return None
    d = mod.defs.get(name)
    if isinstance(d, (ast.FunctionDef, ast.AsyncFunctionDef)):
        return mod, d  # type: ignore[return-value]
    imp = imports_of(repo, mod)
    if name in imp:
        m2name, orig = imp[name]
        if m2name in repo.modules:
            return resolve_function(repo, repo.modules[m2name], orig, depth + 1)
        sub = m2name + "." + orig  # `from pkg import module`
        if sub in repo.modules:
            return None
    return None


def callable_bodies(repo: Repo, mod: Module, cls_methods: dict, fn: ast.AST, e: ast.AST, depth: int = 0) -> Optional[list[ast.AST]]:
    """the bodies (a Lambda's expression / a def) of every callable the expression can evaluate to: a lambda, a module-level function
    (found where it lives), a method of the class taken from self, a def nested in the function, a local name bound to one of those, a
    conditional expression of those, functools.partial(f, ..) of one.  None when some value of it is not resolved."""
    if depth > 4:
        return None
    if isinstance(e, ast.Lambda):
        return [e.body]
    if isinstance(e, ast.IfExp):
        a, b = callable_bodies(repo, mod, cls_methods, fn, e.body, depth + 1), callable_bodies(repo, mod, cls_methods, fn, e.orelse, depth + 1)
        return None if a is None or b is None else a + b
    if isinstance(e, ast.Call) and norm(e.func) in ("partial", "functools.partial") and e.args:
        return callable_bodies(repo, mod, cls_methods, fn, e.args[0], depth + 1)
    if self_attr(e) is not None:
        m = cls_methods.get(self_attr(e))
        return [m] if m is not None else None
    if isinstance(e, ast.Name):
        nested = [n for n in own_nodes(fn) if isinstance(n, (ast.FunctionDef, ast.AsyncFunctionDef)) and n.name == e.id]
        defs = [v for t, v in assignments(fn) if isinstance(t, ast.Name) and t.id == e.id]
        if nested or defs:
            out: list[ast.AST] = list(nested)
            for v in defs:
                b = callable_bodies(repo, mod, cls_methods, fn, v, depth + 1)
                if b is None:
                    return None
                out += b
            return out
        r = resolve_function(repo, mod, e.id)
        return [r[1]] if r is not None else None
    return None


def bound_arguments(fn: ast.AST, call: ast.Call) -> Optional[dict[str, ast.expr]]:
    """parameter name -> argument expression of a call of the plain function `fn` (None with * / ** arguments)"""
    a = fn.args  # type: ignore[attr-defined]
    pos = [x.arg for x in a.posonlyargs + a.args]
    if any(isinstance(x, ast.Starred) for x in call.args) or any(k.arg is None for k in call.keywords) or len(call.args) > len(pos):
        return None
    out = {p: v for p, v in zip(pos, call.args)}
    for k in call.keywords:
        out[k.arg] = k.value  # type: ignore[index]
    return out


def definition_nodes(g: CFG, name: str) -> set[int]:
    """the CFG nodes that bind the local name: an assignment (plain / annotated / augmented / walrus anywhere in the node), a `for`
    head whose target has it, a `with .. as`, an `except .. as`"""
    out: set[int] = set()
    for nd in g.nodes:
        st = nd.ast
        if st is None:
            continue
        if nd.kind == "iter":
            if name in target_names(st.target):
                out.add(nd.id)
            continue
        if nd.kind == "handler":
            if getattr(st, "name", None) == name:
                out.add(nd.id)
            continue
        for x in cfg_node_exprs(nd):
            if isinstance(x, ast.Assign) and any(name in target_names(t) for t in x.targets if isinstance(t, (ast.Name, ast.Tuple, ast.List, ast.Starred))):
                out.add(nd.id)
            elif isinstance(x, (ast.AnnAssign, ast.AugAssign, ast.NamedExpr)) and isinstance(x.target, ast.Name) and x.target.id == name and getattr(x, "value", None) is not None:
                out.add(nd.id)
            elif isinstance(x, ast.withitem) and x.optional_vars is not None and name in target_names(x.optional_vars):
                out.add(nd.id)
            elif isinstance(x, ast.comprehension):
                pass  # (a comprehension has a scope of its own)
    return out


def fact_since_definition(g: CFG, target: int, name: str, atom, defs: Optional[set[int]] = None) -> bool:
    """on every path to the CFG node `target`, a branch edge that implies the fact of `atom` (see outcome_implies) is taken AFTER the last
    binding of the local `name` on that path: the fact is about the value the name has at `target`.  (From every node that binds the
    name, `target` is not reached without crossing such an edge.)"""
    edges = fact_edges(g, atom)
    ds = definition_nodes(g, name) if defs is None else defs
    if not ds:
        ds = {g.entry}
    return target not in _reach_from_after(g, ds, edges)


def _reach_from_after(g: CFG, srcs: set[int], cut: set[tuple[int, int]]) -> set[int]:
    """nodes reachable from the successors of `srcs` (the sources themselves only if a path leads back to them) without an edge of `cut`"""
    seen: set[int] = set()
    stack = [s for n in srcs for s in g.succ[n] if (n, s) not in cut]
    while stack:
        n = stack.pop()
        if n in seen:
            continue
        seen.add(n)
        stack.extend(s for s in g.succ[n] if (n, s) not in cut and s not in seen)
    return seen
