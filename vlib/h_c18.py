"""Helpers of check C18 (rules n, o): pure ast / CFG, nothing of the analysed library is executed."""
from __future__ import annotations

import ast
from typing import Callable, Optional

from .cfg import CFG
from .core import own_nodes


def self_attr(n: ast.AST, attr: Optional[str] = None) -> bool:
    return isinstance(n, ast.Attribute) and isinstance(n.value, ast.Name) and n.value.id == "self" and (attr is None or n.attr == attr)


# ------------------------------------------------------------------------------------------------ a flag known to hold
def implied(test: ast.AST, outcome: bool, is_flag: Callable[[ast.AST], bool], want: bool = True) -> bool:
    """does `test` evaluating to `outcome` imply that the flag expression has the truth value `want`?  (and / or / not only; anything else: no)"""
    if is_flag(test):
        return outcome == want
    if isinstance(test, ast.UnaryOp) and isinstance(test.op, ast.Not):
        return implied(test.operand, not outcome, is_flag, want)
    if isinstance(test, ast.BoolOp):
        conj = isinstance(test.op, ast.And)
        # (a and b) true: both true; (a or b) false: both false -> one operand that implies it suffices.
        # (a and b) false / (a or b) true: only one of them is known to be so -> every operand has to imply it
        if conj == outcome:
            return any(implied(v, outcome, is_flag, want) for v in test.values)
        return all(implied(v, outcome, is_flag, want) for v in test.values)
    return False


def holds_at(mod, fn: ast.AST, g: CFG, at: ast.AST, is_flag: Optional[Callable[[ast.AST], bool]], want: bool = True,
             implies: Optional[Callable[[ast.AST, bool], bool]] = None) -> bool:
    """is the flag known to be true (to have the truth value `want`) wherever the expression `at` of fn is evaluated?

    (1) expression level: `at` sits in the arm of a conditional expression / in the right operand of and/or that is only evaluated under the flag;
    (2) statement level: every CFG path from the entry to the statement that evaluates `at` crosses an edge of an `if`/`while`/`assert` on which the flag is implied."""
    imp = implies if implies is not None else (lambda t, o: implied(t, o, is_flag, want))  # type: ignore[arg-type]
    child = at
    for p in mod.parents(at):
        if isinstance(p, ast.IfExp):
            if child is p.body and imp(p.test, True):
                return True
            if child is p.orelse and imp(p.test, False):
                return True
        if isinstance(p, ast.BoolOp):
            i = next((k for k, v in enumerate(p.values) if v is child), 0)
            before = p.values[:i]
            if before and any(imp(v, isinstance(p.op, ast.And)) for v in before):
                return True
        if isinstance(p, ast.comprehension) and any(child is c for c in p.ifs):
            pass
        if isinstance(p, ast.stmt):
            break
        child = p
    target = g.node_of(at, mod)
    # edges on which the flag is established are cut; is the target still reachable?
    cut: set[tuple[int, int]] = set()
    asserted: set[int] = set()
    for nd in g.nodes:
        st = nd.ast
        if isinstance(st, (ast.If, ast.While)) and nd.kind == "test":
            t_true = imp(st.test, True)
            t_false = imp(st.test, False)
            for s in g.succ[nd.id]:
                lab = g.edge_label.get((nd.id, s), "")
                if lab == "exc":
                    continue
                if lab == "true" and t_true:
                    cut.add((nd.id, s))
                if lab != "true" and t_false:
                    cut.add((nd.id, s))
        elif isinstance(st, ast.Assert) and imp(st.test, True):
            asserted.add(nd.id)
    if target in asserted:
        return False
    seen = {g.entry}
    stack = [g.entry]
    while stack:
        n = stack.pop()
        if n == target:
            return False
        if n in asserted:
            continue
        for s in g.succ[n]:
            if (n, s) in cut or s in seen:
                continue
            seen.add(s)
            stack.append(s)
    return True


# ------------------------------------------------------------------------------------------------ classes with a construction precondition
def classes_asserting(mod, attr: str) -> list[str]:
    """classes of `mod` whose __init__ asserts (or raises unless) an attribute `attr` of the store they are given."""
    out = []
    for q, node in mod.defs.items():
        if not isinstance(node, ast.ClassDef):
            continue
        init = next((s for s in node.body if isinstance(s, ast.FunctionDef) and s.name == "__init__"), None)
        if init is None:
            continue
        for n in own_nodes(init):
            reads = lambda e: any(isinstance(x, ast.Attribute) and x.attr == attr for x in ast.walk(e))  # noqa: E731
            if isinstance(n, ast.Assert) and reads(n.test):
                out.append(q)
                break
            if isinstance(n, ast.If) and reads(n.test) and any(isinstance(s, ast.Raise) for s in n.body + n.orelse):
                out.append(q)
                break
    return out


# ------------------------------------------------------------------------------------------------ provenance of names
def pattern_tainted(fn: ast.AST, param: str) -> set[str]:
    """local names that (transitively, by plain / tuple assignment) carry a component of the parameter `param`."""
    tainted = {param}
    changed = True
    while changed:
        changed = False
        for n in own_nodes(fn):
            if isinstance(n, ast.Assign):
                tg, v = n.targets, n.value
            elif isinstance(n, (ast.AnnAssign, ast.NamedExpr)) and n.value is not None:
                tg, v = [n.target], n.value
            else:
                continue
            # only value-preserving forms: a name, a tuple/list of names, a subscript / starred of one (a call result is something else)
            src = v
            while isinstance(src, (ast.Subscript, ast.Starred)):
                src = src.value
            parts = src.elts if isinstance(src, (ast.Tuple, ast.List)) else [src]
            if not any(isinstance(x, ast.Name) and x.id in tainted for x in parts):
                continue
            for t in tg:
                for x in ast.walk(t):
                    if isinstance(x, ast.Name) and x.id not in tainted:
                        tainted.add(x.id)
                        changed = True
    return tainted


def enclosing_binding_loop(mod, fn: ast.AST, at: ast.AST, name: str):
    """the innermost enclosing for-loop / comprehension generator of `at` whose target binds `name` (None: not loop bound)."""
    for p in mod.parents(at):
        if isinstance(p, (ast.For, ast.AsyncFor)) and any(isinstance(x, ast.Name) and x.id == name for x in ast.walk(p.target)):
            return p
        if isinstance(p, (ast.ListComp, ast.SetComp, ast.GeneratorExp, ast.DictComp)):
            for gen in p.generators:
                if any(isinstance(x, ast.Name) and x.id == name for x in ast.walk(gen.target)):
                    return gen
        if p is fn:
            break
    return None


# ------------------------------------------------------------------------------------------------ value flow of locals (rules c, h, k)
_PARENTS: dict[int, tuple[ast.AST, dict[int, ast.AST]]] = {}


def fn_parents(fn: ast.AST) -> dict[int, ast.AST]:
    """child -> parent links inside fn (the module's own links do not cover nodes of an equivalent view that were copied in)."""
    hit = _PARENTS.get(id(fn))
    if hit is not None and hit[0] is fn:
        return hit[1]
    par: dict[int, ast.AST] = {}
    for p in ast.walk(fn):
        for ch in ast.iter_child_nodes(p):
            par[id(ch)] = p
    _PARENTS[id(fn)] = (fn, par)
    return par


def scope_binder(fn: ast.AST, e: ast.Name):
    """the comprehension generator / lambda inside fn in whose own scope the name `e` is bound (None: `e` is a local of fn itself)."""
    par = fn_parents(fn)
    child: ast.AST = e
    p = par.get(id(e))
    while p is not None and p is not fn:
        if isinstance(p, (ast.ListComp, ast.SetComp, ast.GeneratorExp, ast.DictComp)):
            for i, gen in enumerate(p.generators):
                if any(isinstance(x, ast.Name) and x.id == e.id for x in ast.walk(gen.target)):
                    # the iterable of the first generator is evaluated outside the comprehension's scope
                    if not (i == 0 and child is gen and any(x is e for x in ast.walk(gen.iter))):
                        return gen
        if isinstance(p, ast.Lambda) and any(a.arg == e.id for a in p.args.posonlyargs + p.args.args + p.args.kwonlyargs):
            return p
        child, p = p, par.get(id(p))
    return None


def _arm_value(stmts: list[ast.stmt], name: str) -> Optional[ast.expr]:
    """the value an arm of an if statement leaves in the local `name`: its one plain assignment to it (the arm binds the name in no other way), or the merged value of a nested
    if statement that is the arm's only binder of it."""
    binders = [s for s in stmts if any(isinstance(x, ast.Name) and x.id == name and isinstance(x.ctx, (ast.Store, ast.Del)) for x in ast.walk(s))]
    if len(binders) != 1:
        return None
    b = binders[0]
    if isinstance(b, ast.Assign) and len(b.targets) == 1 and isinstance(b.targets[0], ast.Name) and b.targets[0].id == name:
        return b.value
    if isinstance(b, ast.AnnAssign) and isinstance(b.target, ast.Name) and b.target.id == name and b.value is not None:
        return b.value
    if isinstance(b, ast.If):
        return merged_if_value(b, name)
    return None


def merged_if_value(st: ast.If, name: str) -> Optional[ast.expr]:
    """`if T: name = A` / `else: name = B` read as the value `A if T else B` (a synthetic conditional expression over the original sub-expressions): the statement form and the
    expression form of one definition.  None when an arm does not leave exactly one value in `name`."""
    a = _arm_value(st.body, name)
    b = _arm_value(st.orelse, name) if st.orelse else None
    if a is None or b is None:
        return None
    e = ast.IfExp(test=st.test, body=a, orelse=b)
    ast.copy_location(e, st)
    e._merged_from = st  # type: ignore[attr-defined]
    return e


def _comprehension_rows(fn: ast.AST, it: ast.expr, arity: int, _depth: int, _seen: set[str]) -> Optional[list[ast.Tuple]]:
    """the element tuples of the comprehensions the iterable `it` can stand for (every definition has to be a comprehension over rows of this arity); None otherwise."""
    rows: list[ast.Tuple] = []
    todo = list(leaf_definitions(fn, it, _depth + 1, _seen))
    while todo:
        lf = todo.pop(0)
        if isinstance(lf, ast.IfExp):  # either arm
            todo = leaf_definitions(fn, lf.body, _depth + 1, _seen) + leaf_definitions(fn, lf.orelse, _depth + 1, _seen) + todo
            continue
        while isinstance(lf, ast.Call) and isinstance(lf.func, ast.Name) and lf.func.id in ("list", "tuple", "iter", "sorted", "reversed") and len(lf.args) == 1 and not lf.keywords:
            lf = lf.args[0]  # a re-packing of the same rows
        if not isinstance(lf, (ast.GeneratorExp, ast.ListComp, ast.SetComp)):
            return None
        el = lf.elt
        if not (isinstance(el, ast.Tuple) and len(el.elts) == arity and not any(isinstance(x, ast.Starred) for x in el.elts)):
            return None
        rows.append(el)
    return rows or None


def bindings(fn: ast.AST, name: str, _depth: int = 0, _seen: Optional[set[str]] = None) -> tuple[list[ast.expr], bool]:
    """(values the local `name` of fn can hold, opaque?).

    Values: what is plainly assigned to it; `if T: name = A else: name = B` counts as the one value `A if T else B`; a component of the target of a loop over rows that a
    comprehension of fn builds (`rows = ((a, f(b)) for ..)`, `for x, y in rows`) holds the corresponding component of the row expression.
    `opaque` is true when `name` is (also) bound in a way whose value is not an expression of fn: a parameter, any other loop / with / except / import target, a component of an
    unpacking, an augmented assignment, a nested def.  A name that is opaque cannot be replaced by `its definitions`."""
    vals: list[ast.expr] = []
    args = getattr(fn, "args", None)
    opaque = False
    if args is not None:
        for a in args.posonlyargs + args.args + args.kwonlyargs + ([args.vararg] if args.vararg else []) + ([args.kwarg] if args.kwarg else []):
            if a.arg == name:
                opaque = True
    direct: set[int] = set()
    consumed: set[int] = set()  # assignments that are arms of a merged if statement
    par = fn_parents(fn)
    for n in own_nodes(fn):
        if isinstance(n, ast.If) and not (isinstance(par.get(id(n)), ast.If) and any(n is x for x in par[id(n)].orelse) and len(par[id(n)].orelse) == 1):
            mv = merged_if_value(n, name)
            if mv is not None:
                vals.append(mv)
                for x in ast.walk(n):
                    if isinstance(x, (ast.Assign, ast.AnnAssign)):
                        consumed.add(id(x))
                    if isinstance(x, ast.Name) and x.id == name and isinstance(x.ctx, ast.Store):
                        direct.add(id(x))
    for n in own_nodes(fn):
        if id(n) in consumed:
            continue
        if isinstance(n, ast.Assign):
            for t in n.targets:
                if isinstance(t, ast.Name) and t.id == name:
                    vals.append(n.value)
                    direct.add(id(t))
                elif isinstance(t, (ast.Tuple, ast.List)) and isinstance(n.value, (ast.Tuple, ast.List)) and len(t.elts) == len(n.value.elts) \
                        and not any(isinstance(x, ast.Starred) for x in t.elts + n.value.elts):
                    for tt, vv in zip(t.elts, n.value.elts):
                        if isinstance(tt, ast.Name) and tt.id == name:
                            vals.append(vv)
                            direct.add(id(tt))
        elif isinstance(n, (ast.AnnAssign, ast.NamedExpr)) and isinstance(n.target, ast.Name) and n.target.id == name:
            direct.add(id(n.target))
            if n.value is not None:
                vals.append(n.value)
        elif isinstance(n, (ast.For, ast.AsyncFor)) and isinstance(n.target, ast.Tuple) and not n.orelse and _depth < 6:
            idx = [i for i, t in enumerate(n.target.elts) if isinstance(t, ast.Name) and t.id == name]
            if len(idx) == 1 and all(isinstance(t, ast.Name) for t in n.target.elts):
                rows = _comprehension_rows(fn, n.iter, len(n.target.elts), _depth, (_seen or set()) | {name})
                if rows is not None:
                    vals += [r.elts[idx[0]] for r in rows]
                    direct.add(id(n.target.elts[idx[0]]))
        elif isinstance(n, (ast.FunctionDef, ast.AsyncFunctionDef, ast.ClassDef)) and n.name == name:
            opaque = True
        elif isinstance(n, ast.alias) and (n.asname or n.name.split(".")[0]) == name:
            opaque = True
        elif isinstance(n, ast.ExceptHandler) and n.name == name:
            opaque = True
    for n in own_nodes(fn):
        if isinstance(n, ast.Name) and n.id == name and isinstance(n.ctx, (ast.Store, ast.Del)) and id(n) not in direct and scope_binder(fn, n) is None \
                and not isinstance(par.get(id(n)), ast.comprehension) and not _in_comprehension_target(par, n, fn):
            opaque = True  # loop / with / unpacking / augmented target
    return vals, opaque


def _in_comprehension_target(par: dict[int, ast.AST], n: ast.AST, fn: ast.AST) -> bool:
    """n is (part of) the target of a comprehension generator: a variable of the comprehension's scope, not a binding of the local of fn."""
    child, p = n, par.get(id(n))
    while p is not None and p is not fn and not isinstance(p, ast.stmt):
        if isinstance(p, ast.comprehension):
            return any(child is x or any(child is y for y in ast.walk(x)) for x in [p.target])
        child, p = p, par.get(id(p))
    return False


def leaf_definitions(fn: ast.AST, e: ast.expr, _depth: int = 0, _seen: Optional[set[str]] = None) -> list[ast.expr]:
    """the expressions a use of `e` in fn can stand for: a local name that is only ever bound to values that are expressions of fn (see `bindings`) is replaced by those values
    (every one of them: the replacement is flow-insensitive, which asks more of the code than reaching definitions would, never less), transitively; a variable of a
    comprehension / lambda inside fn, and anything else, stands for itself."""
    seen = _seen if _seen is not None else set()
    if isinstance(e, ast.Name) and _depth < 6 and e.id not in seen and scope_binder(fn, e) is None:
        vals, opaque = bindings(fn, e.id, _depth, seen)
        if vals and not opaque:
            out: list[ast.expr] = []
            for v in vals:
                out += leaf_definitions(fn, v, _depth + 1, seen | {e.id})
            return out
    return [e]


def chain_base(e: ast.AST) -> Optional[str]:
    """x of x.a.b"""
    while isinstance(e, ast.Attribute):
        e = e.value
    return e.id if isinstance(e, ast.Name) else None


def not_none_implied(test: ast.AST, outcome: bool, want: str) -> bool:
    """does `test` evaluating to `outcome` imply that the expression with the normalised text `want` is not None?  (identity tests, and / or / not)"""
    from .core import norm

    if isinstance(test, ast.Compare) and len(test.ops) == 1 and isinstance(test.comparators[0], ast.Constant) and test.comparators[0].value is None \
            and isinstance(test.ops[0], (ast.Is, ast.IsNot)) and norm(test.left) == want:
        return outcome == isinstance(test.ops[0], ast.IsNot)
    if isinstance(test, ast.UnaryOp) and isinstance(test.op, ast.Not):
        return not_none_implied(test.operand, not outcome, want)
    if isinstance(test, ast.BoolOp):
        if isinstance(test.op, ast.And) == outcome:
            return any(not_none_implied(v, outcome, want) for v in test.values)
        return all(not_none_implied(v, outcome, want) for v in test.values)
    return False


def guarded_identifier_reads(e: ast.expr, attr: str = "identifier") -> tuple[int, int]:
    """(reads of <x>.<attr> inside the expression e that sit in an arm of a conditional expression of e on which x is known not to be None, all reads of <x>.<attr> in e)"""
    from .core import norm

    parent: dict[int, ast.AST] = {}
    for p in ast.walk(e):
        for ch in ast.iter_child_nodes(p):
            parent[id(ch)] = p
    good = total = 0
    for a in ast.walk(e):
        if not (isinstance(a, ast.Attribute) and a.attr == attr):
            continue
        total += 1
        want = norm(a.value)
        child: ast.AST = a
        p = parent.get(id(a))
        ok = False
        while p is not None:
            if isinstance(p, ast.IfExp):
                if child is p.body and not_none_implied(p.test, True, want):
                    ok = True
                if child is p.orelse and not_none_implied(p.test, False, want):
                    ok = True
            if isinstance(p, ast.BoolOp):
                i = next((k for k, v in enumerate(p.values) if v is child), 0)
                if any(not_none_implied(v, isinstance(p.op, ast.And), want) for v in p.values[:i]):
                    ok = True
            child, p = p, parent.get(id(p))
        good += ok
    return good, total


# ------------------------------------------------------------------------------------------------ the callable an expression evaluates to, for a given tag
def decide(test: ast.AST, var: str, value: object) -> Optional[bool]:
    """the outcome of `test` when the local `var` holds the constant `value`; None: the test does not (only) depend on that."""
    if isinstance(test, ast.UnaryOp) and isinstance(test.op, ast.Not):
        d = decide(test.operand, var, value)
        return None if d is None else not d
    if isinstance(test, ast.BoolOp):
        ds = [decide(v, var, value) for v in test.values]
        if isinstance(test.op, ast.And):
            if any(d is False for d in ds):
                return False
            return True if all(d is True for d in ds) else None
        if any(d is True for d in ds):
            return True
        return False if all(d is False for d in ds) else None
    if isinstance(test, ast.Compare) and len(test.ops) == 1:
        l, op, r = test.left, test.ops[0], test.comparators[0]
        if isinstance(l, ast.Constant) and isinstance(r, ast.Name) and isinstance(op, (ast.Eq, ast.NotEq)):
            l, r = r, l
        if isinstance(l, ast.Name) and l.id == var:
            if isinstance(op, (ast.Eq, ast.NotEq)) and isinstance(r, ast.Constant):
                return (r.value == value) == isinstance(op, ast.Eq)
            if isinstance(op, (ast.In, ast.NotIn)) and isinstance(r, (ast.Tuple, ast.List, ast.Set)) and all(isinstance(x, ast.Constant) for x in r.elts):
                return (value in [x.value for x in r.elts]) == isinstance(op, ast.In)
    return None


def excluded_by_path(mod, fn: ast.AST, at: ast.AST, var: str, value: object) -> bool:
    """`at` sits in an arm of an if statement / conditional expression of fn that is not taken when var == value."""
    child = at
    for p in mod.parents(at):
        if isinstance(p, (ast.If, ast.IfExp)):
            d = decide(p.test, var, value)
            body = p.body if isinstance(p.body, list) else [p.body]
            orelse = p.orelse if isinstance(p.orelse, list) else [p.orelse]
            if d is False and any(child is s for s in body):
                return True
            if d is True and any(child is s for s in orelse):
                return True
        if p is fn:
            break
        child = p
    return False


def module_constant_table(mod, name: str) -> Optional[ast.Dict]:
    """the dict display a module-level name denotes everywhere in the module: bound exactly once (a plain / annotated assignment at module level), never rebound, deleted,
    declared global, written through or handed on - every other occurrence is a read `name[..]`, `name.get(..)` or `.. in name`."""
    defs = []
    binders: set[int] = set()
    for st in mod.tree.body:
        if isinstance(st, (ast.Assign, ast.AnnAssign)) and st.value is not None:
            for t in (st.targets if isinstance(st, ast.Assign) else [st.target]):
                if isinstance(t, ast.Name) and t.id == name:
                    defs.append(st.value)
                    binders.add(id(t))
    if len(defs) != 1 or not (isinstance(defs[0], ast.Dict) and all(isinstance(k, ast.Constant) for k in defs[0].keys)):
        return None
    par: dict[int, ast.AST] = {}
    for p in ast.walk(mod.tree):
        for ch in ast.iter_child_nodes(p):
            par[id(ch)] = p
    for x in ast.walk(mod.tree):
        if isinstance(x, (ast.Global, ast.Nonlocal)) and name in x.names:
            return None
        if isinstance(x, ast.arg) and x.arg == name:
            return None
        if isinstance(x, ast.Name) and x.id == name and id(x) not in binders:
            if not isinstance(x.ctx, ast.Load):
                return None
            p = par.get(id(x))
            if isinstance(p, ast.Subscript) and p.value is x and isinstance(p.ctx, ast.Load):
                continue
            if isinstance(p, ast.Attribute) and p.value is x and p.attr == "get" and isinstance(par.get(id(p)), ast.Call) and par[id(p)].func is p:
                continue
            if isinstance(p, ast.Compare) and any(x is c for c in p.comparators) and all(isinstance(o, (ast.In, ast.NotIn)) for o in p.ops):
                continue
            return None
    return defs[0]


class Callees:
    """Which method of the wrapped store can a called expression be, given that the local `var` holds the tag `value`?

    * <wrapped>.<m> where <wrapped> is self.<attr> or a local that only ever holds it (the attribute is bound once, in __init__);
    * a conditional expression: the arm the tag selects (both arms when the test is about something else);
    * a local name: each value plainly assigned to it that is not on a path the tag excludes;
    * a literal table {tag: callable, ...}[var] / .get(var): the row of the tag;
    * getattr(<wrapped>, var): the method named by the tag.
    Anything else is not a method of the wrapped store as far as this analysis can tell (None)."""

    def __init__(self, mod, fn: ast.AST, wrapped: str, var: str, stable: bool):
        self.mod, self.fn, self.wrapped, self.var, self.stable = mod, fn, wrapped, var, stable

    def is_wrapped(self, e: ast.AST, _depth: int = 0) -> bool:
        if self_attr(e, self.wrapped):
            return True
        if isinstance(e, ast.Name) and self.stable and _depth < 4:
            vals, opaque = bindings(self.fn, e.id)
            return bool(vals) and not opaque and all(self.is_wrapped(v, _depth + 1) for v in vals)
        return False

    def is_var(self, e: ast.AST) -> bool:
        return isinstance(e, ast.Name) and e.id == self.var

    def of(self, e: ast.AST, value: object, _depth: int = 0) -> list[Optional[str]]:
        if _depth > 6:
            return [None]
        if isinstance(e, ast.Attribute) and self.is_wrapped(e.value):
            return [e.attr]
        if isinstance(e, ast.IfExp):
            d = decide(e.test, self.var, value)
            arms = [e.body] if d is True else [e.orelse] if d is False else [e.body, e.orelse]
            return [x for a in arms for x in self.of(a, value, _depth + 1)]
        if isinstance(e, ast.Name):
            vals, opaque = bindings(self.fn, e.id)
            if opaque or not vals:
                return [None]
            live = [v for v in vals if not excluded_by_path(self.mod, self.fn, v, self.var, value)]
            return [x for v in live for x in self.of(v, value, _depth + 1)] or [None]
        if isinstance(e, ast.Subscript) and self.is_var(e.slice):
            return self._row(e.value, value, _depth)
        if isinstance(e, ast.Call) and isinstance(e.func, ast.Attribute) and e.func.attr == "get" and len(e.args) == 1 and not e.keywords and self.is_var(e.args[0]):
            # a missing row gives None, which is not callable: the call raises, it does not reach the wrapped store
            return self._row(e.func.value, value, _depth)
        if isinstance(e, ast.Call) and isinstance(e.func, ast.Name) and e.func.id == "getattr" and len(e.args) == 2 and not e.keywords \
                and self.is_wrapped(e.args[0]) and isinstance(value, str):
            # the method named by whatever the second argument evaluates to for this tag: the tag itself, a constant, the row of a constant name table
            return list(self.text_of(e.args[1], value, _depth + 1))
        return [None]

    def text_of(self, e: ast.AST, value: object, _depth: int = 0) -> list[Optional[str]]:
        """the strings the expression can evaluate to when the tag variable holds `value` (None: not a string this analysis can tell): a constant, the tag variable, the arm of
        a conditional expression the tag selects, a local (every live definition), `T[k]` / `T.get(k)` / `T.get(k, d)` on a constant table (literal, local, or a module-level
        name that is bound once and only ever read) with `k` such an expression - the row of the key; the default (or nothing: None is not a name) when there is no row."""
        if _depth > 8:
            return [None]
        if isinstance(e, ast.Constant):
            return [e.value if isinstance(e.value, str) else None]
        if self.is_var(e):
            return [value if isinstance(value, str) else None]
        if isinstance(e, ast.IfExp):
            d = decide(e.test, self.var, value)
            arms = [e.body] if d is True else [e.orelse] if d is False else [e.body, e.orelse]
            return [x for a in arms for x in self.text_of(a, value, _depth + 1)]
        if isinstance(e, ast.Name):
            vals, opaque = bindings(self.fn, e.id)
            if opaque or not vals:
                return [None]
            live = [v for v in vals if not excluded_by_path(self.mod, self.fn, v, self.var, value)]
            return [x for v in live for x in self.text_of(v, value, _depth + 1)] or [None]
        tab = key = default = None
        has_default = False
        if isinstance(e, ast.Subscript):
            tab, key = e.value, e.slice
        elif isinstance(e, ast.Call) and isinstance(e.func, ast.Attribute) and e.func.attr == "get" and len(e.args) in (1, 2) and not e.keywords:
            tab, key = e.func.value, e.args[0]
            if len(e.args) == 2:
                default, has_default = e.args[1], True
        if tab is None:
            return [None]
        tabs = self.tables(tab)
        if tabs is None:
            return [None]
        out: list[Optional[str]] = []
        for k in self.text_of(key, value, _depth + 1):
            if k is None:
                return [None]
            for t in tabs:
                rows = [v for kk, v in zip(t.keys, t.values) if kk.value == k]
                if rows:
                    out += self.text_of(rows[-1], value, _depth + 1)
                elif has_default:
                    out += self.text_of(default, value, _depth + 1)
                else:
                    out.append(None)
        return out or [None]

    def tables(self, table: ast.AST) -> Optional[list[ast.Dict]]:
        """the dict displays with constant keys that `table` can denote: written out, a local of the function only ever bound to such displays, or a module-level name
        bound exactly once to one and never written through, handed on or rebound anywhere in the module (only `T[..]` reads, `T.get(..)`, `.. in T`)."""
        tabs: list[ast.AST] = [table]
        if isinstance(table, ast.Name):
            vals, opaque = bindings(self.fn, table.id)
            if vals and not opaque:
                tabs = list(vals)
            elif not vals and not opaque:
                t = module_constant_table(self.mod, table.id)
                if t is None:
                    return None
                tabs = [t]
            else:
                return None
        if not tabs or not all(isinstance(t, ast.Dict) and all(isinstance(k, ast.Constant) for k in t.keys) for t in tabs):
            return None
        return tabs  # type: ignore[return-value]

    def _row(self, table: ast.AST, value: object, _depth: int) -> list[Optional[str]]:
        tabs = [table]
        if isinstance(table, ast.Name):
            vals, opaque = bindings(self.fn, table.id)
            if opaque:
                return [None]
            if not vals:
                t = module_constant_table(self.mod, table.id)
                if t is None:
                    return [None]
                vals = [t]
            tabs = vals
        out: list[Optional[str]] = []
        for t in tabs:
            if not (isinstance(t, ast.Dict) and all(isinstance(k, ast.Constant) for k in t.keys)):
                return [None]
            rows = [v for k, v in zip(t.keys, t.values) if k.value == value]
            if not rows:
                return [None]
            out += self.of(rows[-1], value, _depth + 1)
        return out


# ------------------------------------------------------------------------------------------------ what a log entry is made of (rules a, b, c, e, h, j, k, o)
class Entry:
    """An undo-log entry as the sequence of the expressions its components hold, however the sequence is spelt: a tuple display, a local holding one, a construction of a
    NamedTuple class (fields by position or keyword), `<entry>._replace(field=..)`, or a call of a method / private function whose body is one `return` of such a form
    (evaluated with the entry for its parameter: `self.op` is the component, a comparison of constants and a conditional expression on it are decided, a row of a constant
    table is looked up)."""

    def __init__(self, elts: list[ast.expr], fields: Optional[list[str]] = None, cls: Optional[ast.ClassDef] = None):
        self.elts, self.fields, self.cls = elts, fields, cls

    def text(self) -> list[str]:
        from .core import norm

        return [norm(e) for e in self.elts]


def _const(v: object, like: ast.AST) -> ast.Constant:
    c = ast.Constant(value=v)
    return ast.copy_location(c, like)


class Entries:
    def __init__(self, mod, fn: ast.AST, class_of: Optional[Callable[[ast.AST], Optional[tuple[object, ast.ClassDef]]]] = None):
        self.mod, self.fn = mod, fn
        self._class_of = class_of
        self._g: Optional[CFG] = None

    def _reaching(self, use: ast.Name, vals: list[ast.expr]) -> list[ast.expr]:
        """of the values assigned to a local, those of the assignments that can be the last one executed before the use (one local re-used for the entries of two loops
        holds, in each loop, the entry built there); all of them when the assignments cannot be placed in the control-flow graph."""
        if len(vals) < 2:
            return vals
        from .cfg import reaching_defs

        try:
            if self._g is None:
                self._g = CFG(self.fn)
            g = self._g
            defs = reaching_defs(g, g.node_of(use, self.mod), use.id, skip_exc=False)
            par = fn_parents(self.fn)
            keep = []
            for v in vals:
                st: Optional[ast.AST] = getattr(v, "_merged_from", None) or v
                while st is not None and not isinstance(st, ast.stmt):
                    st = par.get(id(st))
                if st is None or id(st) not in g.by_ast:
                    return vals
                if g.by_ast[id(st)] in defs:
                    keep.append(v)
            return keep or vals
        except Exception:
            return vals

    # -- classes of rows
    def row_class(self, e: ast.AST):
        """(module, class, field names, defaults) when the expression `e` denotes a NamedTuple class."""
        hit = None
        if isinstance(e, ast.Name) and self.mod.has(e.id) and isinstance(self.mod.defs[e.id], ast.ClassDef):
            hit = (self.mod, self.mod.defs[e.id])
        elif self._class_of is not None:
            hit = self._class_of(e)
        if hit is None:
            return None
        m, c = hit
        if not any((isinstance(b, ast.Name) and b.id == "NamedTuple") or (isinstance(b, ast.Attribute) and b.attr == "NamedTuple") for b in c.bases):
            return None
        fields, defaults = [], {}
        for st in c.body:
            if isinstance(st, ast.AnnAssign) and isinstance(st.target, ast.Name):
                fields.append(st.target.id)
                if st.value is not None:
                    defaults[st.target.id] = st.value
        return m, c, fields, defaults

    def _construct(self, call: ast.Call, rc, env) -> Optional[Entry]:
        m, c, fields, defaults = rc
        if any(isinstance(a, ast.Starred) for a in call.args) or any(k.arg is None for k in call.keywords) or len(call.args) > len(fields):
            return None
        got: dict[str, ast.expr] = dict(defaults)
        for f, a in zip(fields, call.args):
            got[f] = a
        for k in call.keywords:
            if k.arg not in fields:
                return None
            got[k.arg] = k.value
        if any(f not in got for f in fields):
            return None
        elts = []
        for f in fields:
            v = self.simplify(got[f], env)
            if v is None:
                return None
            elts.append(v)
        return Entry(elts, fields, c)

    # -- evaluation
    def resolve(self, e: ast.AST, env: Optional[dict] = None, _depth: int = 0) -> Optional[Entry]:
        env = env or {}
        if _depth > 8:
            return None
        if isinstance(e, ast.Name) and e.id in env:
            v = env[e.id]
            return v if isinstance(v, Entry) else self.resolve(v, {}, _depth + 1)
        if isinstance(e, ast.Tuple):
            if any(isinstance(x, ast.Starred) for x in e.elts):
                return None
            elts = [self.simplify(x, env) for x in e.elts]
            return None if any(x is None for x in elts) else Entry(elts)  # type: ignore[arg-type]
        if isinstance(e, ast.BinOp) and isinstance(e.op, ast.Add):
            # concatenation of two sequences of components
            l, r = self.resolve(e.left, env, _depth + 1), self.resolve(e.right, env, _depth + 1)
            return None if l is None or r is None else Entry(l.elts + r.elts)
        if isinstance(e, ast.Subscript) and isinstance(e.slice, ast.Slice):
            # a slice with constant bounds of a sequence of components
            base = self.resolve(e.value, env, _depth + 1)
            if base is None:
                return None
            bounds = []
            for b in (e.slice.lower, e.slice.upper, e.slice.step):
                if b is None:
                    bounds.append(None)
                elif isinstance(b, ast.Constant) and type(b.value) is int:
                    bounds.append(b.value)
                elif isinstance(b, ast.UnaryOp) and isinstance(b.op, ast.USub) and isinstance(b.operand, ast.Constant) and type(b.operand.value) is int:
                    bounds.append(-b.operand.value)
                else:
                    return None
            if bounds[2] == 0:
                return None
            return Entry(base.elts[slice(*bounds)])
        if isinstance(e, ast.Name) and not env:
            if scope_binder(self.fn, e) is not None:
                return None
            vals, opaque = bindings(self.fn, e.id)
            if opaque or not vals:
                return None
            vals = self._reaching(e, vals)
            rs = [self.resolve(v, {}, _depth + 1) for v in vals]
            if any(r is None for r in rs) or len({tuple(r.text()) for r in rs}) != 1:  # type: ignore[union-attr]
                return None
            return rs[0]
        if isinstance(e, ast.Call):
            f = e.func
            # type(x)(..) / x.__class__(..) of an entry: the entry's own class
            if (isinstance(f, ast.Call) and isinstance(f.func, ast.Name) and f.func.id == "type" and len(f.args) == 1) or (isinstance(f, ast.Attribute) and f.attr == "__class__"):
                base = self.resolve(f.args[0] if isinstance(f, ast.Call) else f.value, env, _depth + 1)
                if base is not None and base.cls is not None:
                    rc = self.row_class(ast.Name(id=base.cls.name, ctx=ast.Load()))
                    return self._construct(e, rc, env) if rc else None
                return None
            rc = self.row_class(f)
            if rc is not None:
                return self._construct(e, rc, env)
            if isinstance(f, ast.Attribute):
                base = self.resolve(f.value, env, _depth + 1)
                if base is not None:
                    if f.attr == "_replace" and base.fields is not None and not e.args and all(k.arg in base.fields for k in e.keywords):
                        elts = list(base.elts)
                        for k in e.keywords:
                            v = self.simplify(k.value, env)
                            if v is None:
                                return None
                            elts[base.fields.index(k.arg)] = v
                        return Entry(elts, base.fields, base.cls)
                    if base.cls is not None:
                        meth = next((s for s in base.cls.body if isinstance(s, ast.FunctionDef) and s.name == f.attr), None)
                        if meth is not None and not meth.decorator_list:
                            return self._through(meth, [base] + list(e.args), e.keywords, env, _depth)
                    return None
            if isinstance(f, ast.Name) and f.id.startswith("_") and self.mod.has(f.id) and isinstance(self.mod.defs[f.id], ast.FunctionDef) and not self.mod.defs[f.id].decorator_list:
                return self._through(self.mod.defs[f.id], list(e.args), e.keywords, env, _depth)
        return None

    def _through(self, fn: ast.FunctionDef, args: list, keywords: list[ast.keyword], env: dict, _depth: int) -> Optional[Entry]:
        """the entry a call of fn returns, when fn is one `return <entry form>`."""
        body = [s for s in fn.body if not (isinstance(s, ast.Expr) and isinstance(s.value, ast.Constant) and isinstance(s.value.value, str))]
        a = fn.args
        if len(body) != 1 or not isinstance(body[0], ast.Return) or body[0].value is None or a.vararg or a.kwarg or a.kwonlyargs or keywords or len(args) != len(a.posonlyargs + a.args):
            return None
        inner: dict = {}
        for prm, v in zip(a.posonlyargs + a.args, args):
            if isinstance(v, Entry):
                inner[prm.arg] = v
            else:
                r = self.resolve(v, env, _depth + 1)
                sv = r if r is not None else self.simplify(v, env)
                if sv is None:
                    return None
                inner[prm.arg] = sv
        return self.resolve(body[0].value, inner, _depth + 1)

    def _table(self, e: ast.AST) -> Optional[ast.Dict]:
        """a dict display with constant keys: written out, or the one value a module-level name is bound to."""
        if isinstance(e, ast.Name):
            defs = [st.value for st in self.mod.tree.body if isinstance(st, (ast.Assign, ast.AnnAssign)) and st.value is not None
                    and any(isinstance(t, ast.Name) and t.id == e.id for t in (st.targets if isinstance(st, ast.Assign) else [st.target]))]
            rebound = any(isinstance(x, ast.Name) and x.id == e.id and isinstance(x.ctx, (ast.Store, ast.Del)) for x in ast.walk(self.mod.tree)) and len(defs) != 1
            if len(defs) != 1 or rebound:
                return None
            e = defs[0]
        if isinstance(e, ast.Dict) and all(isinstance(k, ast.Constant) for k in e.keys):
            return e
        return None

    def simplify(self, v: ast.expr, env: dict) -> Optional[ast.expr]:
        """`v` with the parameters of `env` replaced by what they hold and constant sub-expressions decided; None when a parameter is left in a place that cannot be replaced."""
        if not env:
            return v
        if isinstance(v, ast.Constant):
            return v
        if isinstance(v, ast.Name):
            if v.id in env:
                x = env[v.id]
                return None if isinstance(x, Entry) else x
            return v if not isinstance(self.mod.defs.get(v.id), ast.FunctionDef) else v
        if isinstance(v, ast.Attribute) and isinstance(v.value, ast.Name) and isinstance(env.get(v.value.id), Entry):
            en = env[v.value.id]
            return en.elts[en.fields.index(v.attr)] if en.fields and v.attr in en.fields else None
        if isinstance(v, ast.Subscript) and isinstance(v.value, ast.Name) and isinstance(env.get(v.value.id), Entry) and isinstance(v.slice, ast.Constant) and isinstance(v.slice.value, int):
            en = env[v.value.id]
            return en.elts[v.slice.value] if -len(en.elts) <= v.slice.value < len(en.elts) else None
        if isinstance(v, ast.IfExp):
            t = self.simplify(v.test, env)
            if isinstance(t, ast.Constant):
                return self.simplify(v.body if t.value else v.orelse, env)
            return None
        if isinstance(v, ast.UnaryOp) and isinstance(v.op, ast.Not):
            t = self.simplify(v.operand, env)
            return _const(not t.value, v) if isinstance(t, ast.Constant) else None
        if isinstance(v, ast.Compare) and len(v.ops) == 1:
            l, r = self.simplify(v.left, env), self.simplify(v.comparators[0], env)
            if isinstance(l, ast.Constant) and isinstance(r, ast.Constant):
                op = v.ops[0]
                if isinstance(op, (ast.Eq, ast.Is)):
                    return _const(l.value == r.value, v)
                if isinstance(op, (ast.NotEq, ast.IsNot)):
                    return _const(l.value != r.value, v)
            if isinstance(l, ast.Constant) and isinstance(v.ops[0], (ast.In, ast.NotIn)) and isinstance(r, (ast.Tuple, ast.List, ast.Set)) and all(isinstance(x, ast.Constant) for x in r.elts):
                return _const((l.value in [x.value for x in r.elts]) == isinstance(v.ops[0], ast.In), v)
            return None
        if isinstance(v, (ast.Tuple, ast.List, ast.Set)):
            return v if not any(isinstance(x, ast.Name) and x.id in env for x in ast.walk(v)) else None
        key = tab = None
        if isinstance(v, ast.Subscript):
            tab, key = self._table(v.value), self.simplify(v.slice, env)
        elif isinstance(v, ast.Call) and isinstance(v.func, ast.Attribute) and v.func.attr == "get" and len(v.args) == 1 and not v.keywords:
            tab, key = self._table(v.func.value), self.simplify(v.args[0], env)
        if tab is not None and isinstance(key, ast.Constant):
            rows = [val for k, val in zip(tab.keys, tab.values) if k.value == key.value]
            return self.simplify(rows[-1], {}) if rows else None
        return None if any(isinstance(x, ast.Name) and x.id in env for x in ast.walk(v)) else v


class LogSite:
    """one update of the undo log (`self.<log>.append/remove(<entry>)`): the entry as written (`entry`, None when it is not a recognisable sequence of components) and the
    alternatives it stands for when its components come out of a loop over rows that comprehensions of the function build (`alts`: one list of component expressions per
    comprehension, the row's expressions in place of the loop variables; the entry itself when no such loop is involved)."""

    def __init__(self, call: ast.Call, kind: str, entry: Optional[Entry], alts: list[list[ast.expr]]):
        self.call, self.kind, self.entry, self.alts = call, kind, entry, alts

    @property
    def tag(self) -> Optional[str]:
        if self.entry is None or not self.entry.elts:
            return None
        t = self.entry.elts[-1]
        return t.value if isinstance(t, ast.Constant) and isinstance(t.value, str) else None


def row_alternatives(fn: ast.AST, elts: list[ast.expr]) -> list[list[ast.expr]]:
    par = fn_parents(fn)
    for n in own_nodes(fn):
        if not (isinstance(n, (ast.For, ast.AsyncFor)) and isinstance(n.target, ast.Tuple) and all(isinstance(t, ast.Name) for t in n.target.elts) and not n.orelse):
            continue
        names = [t.id for t in n.target.elts]  # type: ignore[attr-defined]
        used = [e for e in elts if isinstance(e, ast.Name) and e.id in names and scope_binder(fn, e) is None and _inside(par, e, n, fn)]
        if not used:
            continue
        rows = _comprehension_rows(fn, n.iter, len(names), 0, set())
        if rows is None:
            continue
        out = []
        for r in rows:
            out.append([r.elts[names.index(e.id)] if any(e is u for u in used) else e for e in elts])
        return out
    return [list(elts)]


def _inside(par: dict[int, ast.AST], e: ast.AST, loop: ast.AST, fn: ast.AST) -> bool:
    p = par.get(id(e))
    while p is not None and p is not fn:
        if p is loop:
            return True
        p = par.get(id(p))
    return False


def log_sites(mod, fn: ast.AST, log: str, entries: Entries) -> list[LogSite]:
    out = []
    for c in own_nodes(fn):
        if isinstance(c, ast.Call) and isinstance(c.func, ast.Attribute) and c.func.attr in ("append", "remove", "insert", "extend") and self_attr(c.func.value, log):
            en = entries.resolve(c.args[0]) if len(c.args) == 1 and not c.keywords else None
            out.append(LogSite(c, c.func.attr, en, row_alternatives(fn, en.elts) if en is not None else []))
    out.sort(key=lambda s: (s.call.lineno, s.call.col_offset))
    return out


def binder_of(mod, fn: ast.AST, x: ast.Name):
    """the for statement / comprehension generator whose target binds the name at the place where `x` is read (None: not a loop variable)."""
    par = fn_parents(fn)
    child: ast.AST = x
    p = par.get(id(x))
    while p is not None:
        if isinstance(p, (ast.For, ast.AsyncFor)) and any(isinstance(t, ast.Name) and t.id == x.id for t in ast.walk(p.target)) and any(child is s for s in p.body):
            return p
        if isinstance(p, (ast.ListComp, ast.SetComp, ast.GeneratorExp, ast.DictComp)):
            for gen in p.generators:
                if any(isinstance(t, ast.Name) and t.id == x.id for t in ast.walk(gen.target)):
                    return gen
        if p is fn:
            break
        child, p = p, par.get(id(p))
    return None


def _path_in(target: ast.AST, name: str) -> Optional[tuple[int, ...]]:
    """the positions that lead to the name inside an unpacking target ((): the target is the name); None: not in it, or behind a starred element."""
    if isinstance(target, ast.Name):
        return () if target.id == name else None
    if isinstance(target, (ast.Tuple, ast.List)):
        if any(isinstance(t, ast.Starred) for t in target.elts):
            return None
        for i, t in enumerate(target.elts):
            sub = _path_in(t, name)
            if sub is not None:
                return (i,) + sub
    return None


def row_source(mod, fn: ast.AST, e: ast.AST, _depth: int = 0):
    """(loop statement / comprehension generator, path) when the expression `e`, where it stands, holds the part of the row of that loop's current iteration that the integer
    positions `path` lead to - however the part is taken out of the row: a name of the loop target (`for (s, p, o), cg in ..`: s is row[0][0]), a constant index of such a
    part (`row[0]`, `quad[3]`), or a local bound exactly once in the function, before the use, by an unpacking / plain assignment from such a part (`s, p, o = found[0]`).
    None: `e` is not (known to be) a part of a loop row."""
    if _depth > 6:
        return None
    if isinstance(e, ast.Subscript) and isinstance(e.slice, ast.Constant) and type(e.slice.value) is int and e.slice.value >= 0:
        src = row_source(mod, fn, e.value, _depth + 1)
        return None if src is None else (src[0], src[1] + (e.slice.value,))
    if not isinstance(e, ast.Name):
        return None
    b = binder_of(mod, fn, e)
    if b is not None:
        path = _path_in(b.target, e.id)
        return None if path is None else (b, path)
    if scope_binder(fn, e) is not None:
        return None
    args = getattr(fn, "args", None)
    if args is not None and any(a.arg == e.id for a in args.posonlyargs + args.args + args.kwonlyargs + ([args.vararg] if args.vararg else []) + ([args.kwarg] if args.kwarg else [])):
        return None
    stores = [x for x in ast.walk(fn) if isinstance(x, ast.Name) and x.id == e.id and isinstance(x.ctx, (ast.Store, ast.Del))]
    if len(stores) != 1:
        return None
    par = fn_parents(fn)
    st: Optional[ast.AST] = stores[0]
    while st is not None and not isinstance(st, ast.stmt):
        st = par.get(id(st))
    if not (isinstance(st, ast.Assign) and len(st.targets) == 1) or (st.lineno, st.col_offset) >= (getattr(e, "lineno", 0), getattr(e, "col_offset", 0)):
        return None
    path = _path_in(st.targets[0], e.id)
    src = row_source(mod, fn, st.value, _depth + 1)
    if path is None or src is None:
        return None
    # the assignment is executed in the iteration whose row it reads, and the use sits in the same iteration
    if not (isinstance(src[0], (ast.For, ast.AsyncFor)) and _inside(par, st, src[0], fn) and _inside(par, e, src[0], fn)):
        return None
    return src[0], src[1] + path


def enumerated_triple(mod, fn: ast.AST, comps: list[ast.expr]):
    """the loop whose row gives the three expressions as its subject, predicate and object, in this order: positions 0, 1, 2 of the row itself (rows of a graph: (s, p, o[, c]))
    or of its first component (rows of the store interface: ((s, p, o), contexts)); None otherwise."""
    srcs = [row_source(mod, fn, x) for x in comps[:3]]
    if len(srcs) != 3 or any(s is None for s in srcs):
        return None
    loop = srcs[0][0]
    prefix = srcs[0][1][:-1]
    if prefix not in ((), (0,)):
        return None
    for i, (lp, path) in enumerate(srcs):
        if lp is not loop or path != prefix + (i,):
            return None
    return loop


def target_triple(loop) -> list[str]:
    """the names a loop over triples()/quads() gives the subject, predicate and object of a row: ((s, p, o), contexts) of the store interface, (s, p, o[, c]) of a graph."""
    from .core import norm

    t = loop.target
    if isinstance(t, ast.Tuple) and t.elts and isinstance(t.elts[0], ast.Tuple):
        t = t.elts[0]
    return [norm(e) for e in t.elts[:3]] if isinstance(t, ast.Tuple) else []


def enumeration_calls(it: ast.AST) -> list[ast.Call]:
    return [c for c in ast.walk(it) if isinstance(c, ast.Call) and isinstance(c.func, ast.Attribute) and c.func.attr in ("triples", "quads")]


def denotes_triple(fn: ast.AST, e: Optional[ast.AST], comps: list[str], param: str) -> bool:
    """every value `e` can stand for is the triple parameter itself or the tuple of the three names it was unpacked into."""
    from .core import norm

    if e is None:
        return False
    for lf in leaf_definitions(fn, e):  # type: ignore[arg-type]
        if isinstance(lf, ast.Name) and lf.id == param:
            continue
        if isinstance(lf, ast.Tuple) and [norm(x) for x in lf.elts] == comps:
            continue
        return False
    return True


# ------------------------------------------------------------------------------------------------ the replay loop of rollback (rule c, d)
def replay_loop(mod, fn: ast.AST, log: str, aliases: set[str]):
    """The loop of `fn` that takes the undo log apart, one entry per iteration: (loop statement, names the five components are unpacked into ([] when the entry is not unpacked
    into a tuple of names), statements of an iteration, does it visit every entry in log order?, what is iterated (for messages), text of the unpack target).

    * `for <target> in <log>` (the log, a copy / reversal of it, or a local alias of it);
    * a loop over the positions of the log: `while i < len(<log>)` where the local `i` is bound exactly twice in the function - `i = 0` before the loop and `i += 1` as a statement
      of the loop body itself - and `<target> = <log>[i]` is a statement of the body before the step; nothing before the step can leave the iteration (continue / break / return)
      and nothing in the loop breaks out of it: the same entries in the same order, with the same re-reading of the length, as the list iterator of the `for` form.
    None when rollback has no such loop."""
    from .core import norm

    def is_log(e: ast.AST) -> bool:
        return self_attr(e, log) or (isinstance(e, ast.Name) and e.id in aliases)

    loop = None
    for n in own_nodes(fn):
        if isinstance(n, ast.For) and (("self." + log) in norm(n.iter) or norm(n.iter) in aliases):
            loop = n
    if loop is not None:
        it = norm(loop.iter)
        order_ok = it == "self." + log or it in ("reversed(self.%s)" % log, "self.%s[::-1]" % log, "list(self.%s)" % log) or it in aliases
        tg = [norm(e) for e in loop.target.elts] if isinstance(loop.target, ast.Tuple) else []
        return loop, tg, loop.body, order_ok, loop.iter, norm(loop.target)
    for n in own_nodes(fn):
        if not isinstance(n, ast.While):
            continue
        t = n.test
        idx = None
        if isinstance(t, ast.Compare) and len(t.ops) == 1:
            l, op, r = t.left, t.ops[0], t.comparators[0]
            if isinstance(op, ast.Gt):
                l, r, op = r, l, ast.Lt()
            if isinstance(op, ast.Lt) and isinstance(l, ast.Name) and isinstance(r, ast.Call) and isinstance(r.func, ast.Name) and r.func.id == "len" \
                    and len(r.args) == 1 and not r.keywords and is_log(r.args[0]):
                idx = l.id
        if idx is None:
            continue
        unpack = step = None
        for k, st in enumerate(n.body):
            if unpack is None and isinstance(st, ast.Assign) and len(st.targets) == 1 and isinstance(st.value, ast.Subscript) and is_log(st.value.value) \
                    and isinstance(st.value.slice, ast.Name) and st.value.slice.id == idx:
                unpack = (k, st)
            elif step is None and isinstance(st, ast.AugAssign) and isinstance(st.target, ast.Name) and st.target.id == idx and isinstance(st.op, ast.Add) \
                    and isinstance(st.value, ast.Constant) and st.value.value == 1 and type(st.value.value) is int:
                step = (k, st)
        if unpack is None:
            continue
        stores = [x for x in ast.walk(fn) if isinstance(x, ast.Name) and x.id == idx and isinstance(x.ctx, (ast.Store, ast.Del))]
        inits = [a for a in own_nodes(fn) if isinstance(a, ast.Assign) and len(a.targets) == 1 and isinstance(a.targets[0], ast.Name) and a.targets[0].id == idx
                 and isinstance(a.value, ast.Constant) and a.value.value == 0 and type(a.value.value) is int]
        par = fn_parents(fn)
        init_ok = len(inits) == 1 and not _inside(par, inits[0], n, fn) and (inits[0].lineno, inits[0].col_offset) < (n.lineno, n.col_offset)
        # the initialisation is not itself inside another loop (it would be the start of every outer iteration, which is fine) - but it must be executed before this loop
        # on every path: a statement of a block that encloses the loop
        if init_ok:
            blk = par.get(id(inits[0]))
            init_ok = blk is not None and (blk is fn or _inside(par, n, blk, fn)) and not isinstance(blk, (ast.If, ast.Try)) 
        order_ok = (
            step is not None and init_ok and len(stores) == 2 and unpack[0] < step[0] and not n.orelse
            and not any(isinstance(x, (ast.Continue, ast.Break, ast.Return)) for st in n.body[: step[0]] for x in ast.walk(st))
            and not any(isinstance(x, (ast.Break, ast.Return)) for st in n.body for x in ast.walk(st))
        )
        tgt = unpack[1].targets[0]
        tg = [norm(e) for e in tgt.elts] if isinstance(tgt, ast.Tuple) else []
        return n, tg, n.body, order_ok, "%s[%s] while %s" % (norm(unpack[1].value.value), idx, norm(t)), norm(tgt)
    return None


# ------------------------------------------------------------------------------------------------ presence tests (rules a, e, j)
def presence_polarity(fn: ast.AST, e: ast.AST, _depth: int = 0) -> Optional[tuple[bool, list[ast.Call]]]:
    """(p, calls) when the truth of the expression `e` tells whether an enumeration (`<x>.triples(..)`, the calls) reports anything: p is True when `e` true means `something is
    reported`, False when it means `nothing is`.  Forms: list/tuple/set/sorted/any/bool/len of the enumeration, `len(..) > 0`, `len(..) == 0`, `next(.., None) is [not] None`,
    a local that only ever holds such a value.  None: the expression is not (known to be) such a test."""
    if isinstance(e, ast.Name) and _depth < 3 and scope_binder(fn, e) is None:
        vals, opaque = bindings(fn, e.id)
        if opaque or len(vals) != 1:
            return None
        return presence_polarity(fn, vals[0], _depth + 1)
    if isinstance(e, ast.Call) and isinstance(e.func, ast.Name) and e.func.id in ("list", "tuple", "set", "sorted", "any", "bool", "len") and len(e.args) == 1 and not e.keywords:
        calls = [c for c in enumeration_calls(e.args[0]) if c.func.attr == "triples"]  # type: ignore[attr-defined]
        return (True, calls) if calls else None
    if isinstance(e, ast.Compare) and len(e.ops) == 1:
        l, op, r = e.left, e.ops[0], e.comparators[0]
        if isinstance(l, ast.Call) and isinstance(l.func, ast.Name) and l.func.id == "len" and isinstance(r, ast.Constant) and r.value in (0, 1):
            inner = presence_polarity(fn, l, _depth)
            if inner is not None:
                if (isinstance(op, (ast.Gt, ast.NotEq)) and r.value == 0) or (isinstance(op, ast.GtE) and r.value == 1):
                    return True, inner[1]
                if (isinstance(op, ast.Eq) and r.value == 0) or (isinstance(op, ast.Lt) and r.value == 1):
                    return False, inner[1]
        if isinstance(l, ast.Call) and isinstance(l.func, ast.Name) and l.func.id == "next" and len(l.args) == 2 and isinstance(l.args[1], ast.Constant) and l.args[1].value is None \
                and isinstance(r, ast.Constant) and r.value is None and isinstance(op, (ast.Is, ast.IsNot)):
            calls = [c for c in enumeration_calls(l.args[0]) if c.func.attr == "triples"]  # type: ignore[attr-defined]
            if calls:
                return isinstance(op, ast.IsNot), calls
    return None


def absence_implied(fn: ast.AST, test: ast.AST, outcome: bool, accept: Callable[[list[ast.Call]], bool]) -> bool:
    """does `test` evaluating to `outcome` imply that an enumeration `accept` approves of reported nothing?"""
    pp = presence_polarity(fn, test)
    if pp is not None:
        return accept(pp[1]) and outcome != pp[0]
    if isinstance(test, ast.UnaryOp) and isinstance(test.op, ast.Not):
        return absence_implied(fn, test.operand, not outcome, accept)
    if isinstance(test, ast.BoolOp):
        if isinstance(test.op, ast.And) == outcome:
            return any(absence_implied(fn, v, outcome, accept) for v in test.values)
        return all(absence_implied(fn, v, outcome, accept) for v in test.values)
    return False


def presence_tests(fn: ast.AST) -> list[tuple[ast.AST, ast.AST, bool, list[ast.Call]]]:
    """(if statement / conditional expression / while, atom, polarity, enumeration calls) for every presence test that a test of fn contains."""
    out = []
    for n in own_nodes(fn):
        if isinstance(n, (ast.If, ast.IfExp, ast.While)):
            stack = [n.test]
            while stack:
                t = stack.pop()
                pp = presence_polarity(fn, t)
                if pp is not None:
                    out.append((n, t, pp[0], pp[1]))
                elif isinstance(t, ast.BoolOp):
                    stack += t.values
                elif isinstance(t, ast.UnaryOp) and isinstance(t.op, ast.Not):
                    stack.append(t.operand)
    return out
