"""Helpers of check C18 (rules n, o): pure ast / CFG, nothing of the analysed library is executed."""
from __future__ import annotations

import ast
from typing import Callable, Optional

from .cfg import CFG
from .core import own_nodes


def self_attr(n: ast.AST, attr: Optional[str] = None) -> bool:
    return isinstance(n, ast.Attribute) and isinstance(n.value, ast.Name) and n.value.id == "self" and (attr is None or n.attr == attr)


# ------------------------------------------------------------------------------------------------ a flag known to hold
def implied(test: ast.AST, outcome: bool, is_flag: Callable[[ast.AST], bool]) -> bool:
    """does `test` evaluating to `outcome` imply that the flag expression is true?  (and / or / not only; anything else: no)"""
    if is_flag(test):
        return outcome
    if isinstance(test, ast.UnaryOp) and isinstance(test.op, ast.Not):
        return implied(test.operand, not outcome, is_flag)
    if isinstance(test, ast.BoolOp):
        conj = isinstance(test.op, ast.And)
        # (a and b) true: both true; (a or b) false: both false -> one operand that implies the flag suffices.
        # (a and b) false / (a or b) true: only one of them is known to be so -> every operand has to imply it
        if conj == outcome:
            return any(implied(v, outcome, is_flag) for v in test.values)
        return all(implied(v, outcome, is_flag) for v in test.values)
    return False


def holds_at(mod, fn: ast.AST, g: CFG, at: ast.AST, is_flag: Callable[[ast.AST], bool]) -> bool:
    """is the flag known to be true wherever the expression `at` of fn is evaluated?

    (1) expression level: `at` sits in the arm of a conditional expression / in the right operand of and/or that is only evaluated under the flag;
    (2) statement level: every CFG path from the entry to the statement that evaluates `at` crosses an edge of an `if`/`while`/`assert` on which the flag is implied."""
    child = at
    for p in mod.parents(at):
        if isinstance(p, ast.IfExp):
            if child is p.body and implied(p.test, True, is_flag):
                return True
            if child is p.orelse and implied(p.test, False, is_flag):
                return True
        if isinstance(p, ast.BoolOp):
            i = next((k for k, v in enumerate(p.values) if v is child), 0)
            before = p.values[:i]
            if before and any(implied(v, isinstance(p.op, ast.And), is_flag) for v in before):
                return True
        if isinstance(p, ast.comprehension) and any(child is c for c in p.ifs):
            pass
        if isinstance(p, ast.stmt):
            break
        child = p
    target = g.node_of(at, mod)
    # edges on which the flag is established are cut; is the target still reachable?
    cut: set[tuple[int, int]] = set()
    asserted: set[int] = set()
    for nd in g.nodes:
        st = nd.ast
        if isinstance(st, (ast.If, ast.While)) and nd.kind == "test":
            t_true = implied(st.test, True, is_flag)
            t_false = implied(st.test, False, is_flag)
            for s in g.succ[nd.id]:
                lab = g.edge_label.get((nd.id, s), "")
                if lab == "exc":
                    continue
                if lab == "true" and t_true:
                    cut.add((nd.id, s))
                if lab != "true" and t_false:
                    cut.add((nd.id, s))
        elif isinstance(st, ast.Assert) and implied(st.test, True, is_flag):
            asserted.add(nd.id)
    if target in asserted:
        return False
    seen = {g.entry}
    stack = [g.entry]
    while stack:
        n = stack.pop()
        if n == target:
            return False
        if n in asserted:
            continue
        for s in g.succ[n]:
            if (n, s) in cut or s in seen:
                continue
            seen.add(s)
            stack.append(s)
    return True


# ------------------------------------------------------------------------------------------------ classes with a construction precondition
def classes_asserting(mod, attr: str) -> list[str]:
    """classes of `mod` whose __init__ asserts (or raises unless) an attribute `attr` of the store they are given."""
    out = []
    for q, node in mod.defs.items():
        if not isinstance(node, ast.ClassDef):
            continue
        init = next((s for s in node.body if isinstance(s, ast.FunctionDef) and s.name == "__init__"), None)
        if init is None:
            continue
        for n in own_nodes(init):
            reads = lambda e: any(isinstance(x, ast.Attribute) and x.attr == attr for x in ast.walk(e))  # noqa: E731
            if isinstance(n, ast.Assert) and reads(n.test):
                out.append(q)
                break
            if isinstance(n, ast.If) and reads(n.test) and any(isinstance(s, ast.Raise) for s in n.body + n.orelse):
                out.append(q)
                break
    return out


# ------------------------------------------------------------------------------------------------ provenance of names
def pattern_tainted(fn: ast.AST, param: str) -> set[str]:
    """local names that (transitively, by plain / tuple assignment) carry a component of the parameter `param`."""
    tainted = {param}
    changed = True
    while changed:
        changed = False
        for n in own_nodes(fn):
            if isinstance(n, ast.Assign):
                tg, v = n.targets, n.value
            elif isinstance(n, (ast.AnnAssign, ast.NamedExpr)) and n.value is not None:
                tg, v = [n.target], n.value
            else:
                continue
            # only value-preserving forms: a name, a tuple/list of names, a subscript / starred of one (a call result is something else)
            src = v
            while isinstance(src, (ast.Subscript, ast.Starred)):
                src = src.value
            parts = src.elts if isinstance(src, (ast.Tuple, ast.List)) else [src]
            if not any(isinstance(x, ast.Name) and x.id in tainted for x in parts):
                continue
            for t in tg:
                for x in ast.walk(t):
                    if isinstance(x, ast.Name) and x.id not in tainted:
                        tainted.add(x.id)
                        changed = True
    return tainted


def enclosing_binding_loop(mod, fn: ast.AST, at: ast.AST, name: str):
    """the innermost enclosing for-loop / comprehension generator of `at` whose target binds `name` (None: not loop bound)."""
    for p in mod.parents(at):
        if isinstance(p, (ast.For, ast.AsyncFor)) and any(isinstance(x, ast.Name) and x.id == name for x in ast.walk(p.target)):
            return p
        if isinstance(p, (ast.ListComp, ast.SetComp, ast.GeneratorExp, ast.DictComp)):
            for gen in p.generators:
                if any(isinstance(x, ast.Name) and x.id == name for x in ast.walk(gen.target)):
                    return gen
        if p is fn:
            break
    return None


# ------------------------------------------------------------------------------------------------ value flow of locals (rules c, h, k)
def bindings(fn: ast.AST, name: str) -> tuple[list[ast.expr], bool]:
    """(values plainly assigned to the local `name` anywhere in fn, opaque?).

    `opaque` is true when `name` is (also) bound in a way whose value is not an expression of fn: a parameter, a loop / with / except / import target, a component of an
    unpacking, an augmented assignment, a nested def.  A name that is opaque cannot be replaced by `its definitions`."""
    vals: list[ast.expr] = []
    args = getattr(fn, "args", None)
    opaque = False
    if args is not None:
        for a in args.posonlyargs + args.args + args.kwonlyargs + ([args.vararg] if args.vararg else []) + ([args.kwarg] if args.kwarg else []):
            if a.arg == name:
                opaque = True
    direct: set[int] = set()
    for n in own_nodes(fn):
        if isinstance(n, ast.Assign):
            for t in n.targets:
                if isinstance(t, ast.Name) and t.id == name:
                    vals.append(n.value)
                    direct.add(id(t))
                elif isinstance(t, (ast.Tuple, ast.List)) and isinstance(n.value, (ast.Tuple, ast.List)) and len(t.elts) == len(n.value.elts) \
                        and not any(isinstance(x, ast.Starred) for x in t.elts + n.value.elts):
                    for tt, vv in zip(t.elts, n.value.elts):
                        if isinstance(tt, ast.Name) and tt.id == name:
                            vals.append(vv)
                            direct.add(id(tt))
        elif isinstance(n, (ast.AnnAssign, ast.NamedExpr)) and isinstance(n.target, ast.Name) and n.target.id == name:
            direct.add(id(n.target))
            if n.value is not None:
                vals.append(n.value)
        elif isinstance(n, (ast.FunctionDef, ast.AsyncFunctionDef, ast.ClassDef)) and n.name == name:
            opaque = True
        elif isinstance(n, ast.alias) and (n.asname or n.name.split(".")[0]) == name:
            opaque = True
        elif isinstance(n, ast.ExceptHandler) and n.name == name:
            opaque = True
    for n in own_nodes(fn):
        if isinstance(n, ast.Name) and n.id == name and isinstance(n.ctx, (ast.Store, ast.Del)) and id(n) not in direct:
            opaque = True  # loop / with / unpacking / augmented target
    return vals, opaque


def leaf_definitions(fn: ast.AST, e: ast.expr, _depth: int = 0, _seen: Optional[set[str]] = None) -> list[ast.expr]:
    """the expressions a use of `e` in fn can stand for: a local name that is only ever plainly assigned is replaced by the values assigned to it (every one of them: the
    replacement is flow-insensitive, which asks more of the code than reaching definitions would, never less), transitively; anything else stands for itself."""
    seen = _seen if _seen is not None else set()
    if isinstance(e, ast.Name) and _depth < 6 and e.id not in seen:
        vals, opaque = bindings(fn, e.id)
        if vals and not opaque:
            out: list[ast.expr] = []
            for v in vals:
                out += leaf_definitions(fn, v, _depth + 1, seen | {e.id})
            return out
    return [e]


def chain_base(e: ast.AST) -> Optional[str]:
    """x of x.a.b"""
    while isinstance(e, ast.Attribute):
        e = e.value
    return e.id if isinstance(e, ast.Name) else None


def not_none_implied(test: ast.AST, outcome: bool, want: str) -> bool:
    """does `test` evaluating to `outcome` imply that the expression with the normalised text `want` is not None?  (identity tests, and / or / not)"""
    from .core import norm

    if isinstance(test, ast.Compare) and len(test.ops) == 1 and isinstance(test.comparators[0], ast.Constant) and test.comparators[0].value is None \
            and isinstance(test.ops[0], (ast.Is, ast.IsNot)) and norm(test.left) == want:
        return outcome == isinstance(test.ops[0], ast.IsNot)
    if isinstance(test, ast.UnaryOp) and isinstance(test.op, ast.Not):
        return not_none_implied(test.operand, not outcome, want)
    if isinstance(test, ast.BoolOp):
        if isinstance(test.op, ast.And) == outcome:
            return any(not_none_implied(v, outcome, want) for v in test.values)
        return all(not_none_implied(v, outcome, want) for v in test.values)
    return False


def guarded_identifier_reads(e: ast.expr, attr: str = "identifier") -> tuple[int, int]:
    """(reads of <x>.<attr> inside the expression e that sit in an arm of a conditional expression of e on which x is known not to be None, all reads of <x>.<attr> in e)"""
    from .core import norm

    parent: dict[int, ast.AST] = {}
    for p in ast.walk(e):
        for ch in ast.iter_child_nodes(p):
            parent[id(ch)] = p
    good = total = 0
    for a in ast.walk(e):
        if not (isinstance(a, ast.Attribute) and a.attr == attr):
            continue
        total += 1
        want = norm(a.value)
        child: ast.AST = a
        p = parent.get(id(a))
        ok = False
        while p is not None:
            if isinstance(p, ast.IfExp):
                if child is p.body and not_none_implied(p.test, True, want):
                    ok = True
                if child is p.orelse and not_none_implied(p.test, False, want):
                    ok = True
            if isinstance(p, ast.BoolOp):
                i = next((k for k, v in enumerate(p.values) if v is child), 0)
                if any(not_none_implied(v, isinstance(p.op, ast.And), want) for v in p.values[:i]):
                    ok = True
            child, p = p, parent.get(id(p))
        good += ok
    return good, total


# ------------------------------------------------------------------------------------------------ the callable an expression evaluates to, for a given tag
def decide(test: ast.AST, var: str, value: object) -> Optional[bool]:
    """the outcome of `test` when the local `var` holds the constant `value`; None: the test does not (only) depend on that."""
    if isinstance(test, ast.UnaryOp) and isinstance(test.op, ast.Not):
        d = decide(test.operand, var, value)
        return None if d is None else not d
    if isinstance(test, ast.BoolOp):
        ds = [decide(v, var, value) for v in test.values]
        if isinstance(test.op, ast.And):
            if any(d is False for d in ds):
                return False
            return True if all(d is True for d in ds) else None
        if any(d is True for d in ds):
            return True
        return False if all(d is False for d in ds) else None
    if isinstance(test, ast.Compare) and len(test.ops) == 1:
        l, op, r = test.left, test.ops[0], test.comparators[0]
        if isinstance(l, ast.Constant) and isinstance(r, ast.Name) and isinstance(op, (ast.Eq, ast.NotEq)):
            l, r = r, l
        if isinstance(l, ast.Name) and l.id == var:
            if isinstance(op, (ast.Eq, ast.NotEq)) and isinstance(r, ast.Constant):
                return (r.value == value) == isinstance(op, ast.Eq)
            if isinstance(op, (ast.In, ast.NotIn)) and isinstance(r, (ast.Tuple, ast.List, ast.Set)) and all(isinstance(x, ast.Constant) for x in r.elts):
                return (value in [x.value for x in r.elts]) == isinstance(op, ast.In)
    return None


def excluded_by_path(mod, fn: ast.AST, at: ast.AST, var: str, value: object) -> bool:
    """`at` sits in an arm of an if statement / conditional expression of fn that is not taken when var == value."""
    child = at
    for p in mod.parents(at):
        if isinstance(p, (ast.If, ast.IfExp)):
            d = decide(p.test, var, value)
            body = p.body if isinstance(p.body, list) else [p.body]
            orelse = p.orelse if isinstance(p.orelse, list) else [p.orelse]
            if d is False and any(child is s for s in body):
                return True
            if d is True and any(child is s for s in orelse):
                return True
        if p is fn:
            break
        child = p
    return False


class Callees:
    """Which method of the wrapped store can a called expression be, given that the local `var` holds the tag `value`?

    * <wrapped>.<m> where <wrapped> is self.<attr> or a local that only ever holds it (the attribute is bound once, in __init__);
    * a conditional expression: the arm the tag selects (both arms when the test is about something else);
    * a local name: each value plainly assigned to it that is not on a path the tag excludes;
    * a literal table {tag: callable, ...}[var] / .get(var): the row of the tag;
    * getattr(<wrapped>, var): the method named by the tag.
    Anything else is not a method of the wrapped store as far as this analysis can tell (None)."""

    def __init__(self, mod, fn: ast.AST, wrapped: str, var: str, stable: bool):
        self.mod, self.fn, self.wrapped, self.var, self.stable = mod, fn, wrapped, var, stable

    def is_wrapped(self, e: ast.AST, _depth: int = 0) -> bool:
        if self_attr(e, self.wrapped):
            return True
        if isinstance(e, ast.Name) and self.stable and _depth < 4:
            vals, opaque = bindings(self.fn, e.id)
            return bool(vals) and not opaque and all(self.is_wrapped(v, _depth + 1) for v in vals)
        return False

    def is_var(self, e: ast.AST) -> bool:
        return isinstance(e, ast.Name) and e.id == self.var

    def of(self, e: ast.AST, value: object, _depth: int = 0) -> list[Optional[str]]:
        if _depth > 6:
            return [None]
        if isinstance(e, ast.Attribute) and self.is_wrapped(e.value):
            return [e.attr]
        if isinstance(e, ast.IfExp):
            d = decide(e.test, self.var, value)
            arms = [e.body] if d is True else [e.orelse] if d is False else [e.body, e.orelse]
            return [x for a in arms for x in self.of(a, value, _depth + 1)]
        if isinstance(e, ast.Name):
            vals, opaque = bindings(self.fn, e.id)
            if opaque or not vals:
                return [None]
            live = [v for v in vals if not excluded_by_path(self.mod, self.fn, v, self.var, value)]
            return [x for v in live for x in self.of(v, value, _depth + 1)] or [None]
        if isinstance(e, ast.Subscript) and self.is_var(e.slice):
            return self._row(e.value, value, _depth)
        if isinstance(e, ast.Call) and isinstance(e.func, ast.Attribute) and e.func.attr == "get" and len(e.args) == 1 and not e.keywords and self.is_var(e.args[0]):
            # a missing row gives None, which is not callable: the call raises, it does not reach the wrapped store
            return self._row(e.func.value, value, _depth)
        if isinstance(e, ast.Call) and isinstance(e.func, ast.Name) and e.func.id == "getattr" and len(e.args) == 2 and not e.keywords \
                and self.is_wrapped(e.args[0]) and self.is_var(e.args[1]) and isinstance(value, str):
            return [value]
        return [None]

    def _row(self, table: ast.AST, value: object, _depth: int) -> list[Optional[str]]:
        tabs = [table]
        if isinstance(table, ast.Name):
            vals, opaque = bindings(self.fn, table.id)
            if opaque or not vals:
                return [None]
            tabs = vals
        out: list[Optional[str]] = []
        for t in tabs:
            if not (isinstance(t, ast.Dict) and all(isinstance(k, ast.Constant) for k in t.keys)):
                return [None]
            rows = [v for k, v in zip(t.keys, t.values) if k.value == value]
            if not rows:
                return [None]
            out += self.of(rows[-1], value, _depth + 1)
        return out
