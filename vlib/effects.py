"""E4 - whole-package effect analysis: which parameters' graphs/stores may a
function mutate (directly or through callees)?

Abstract domain: an *origin* is a set of parameter-rooted access paths of depth
<= 2 ("graph", "self", "self.store", "ctx.graph"); the empty set means FRESH
(an object created by this function, or derived only from fresh objects).
The per-function interpreter is flow-sensitive over the structured statement
list (strong updates for names and `x.attr` paths, join at branch merges, two
passes over loop bodies) and refines on store-identity tests
(`a.store is [not] b.store`, `a is [not] b`).

A *mutation event* is a call to a primitive mutator (Graph/Store API methods
that change triples or the set of graphs) or `x += y` / `x -= y` on a
Graph-typed x; its receiver's origin is added to the function's summary.
Calls propagate callee summaries (callees resolved by mypy, closed under
overrides; `Expr.eval`'s function pointer is resolved through the setEvalFn
registrations).  Summaries are solved to a fixpoint over the call graph.
"""
from __future__ import annotations

import ast
from typing import Iterable, Optional

from .core import AnalysisError, Module, Repo, norm, own_nodes

GRAPH = "rdflib.graph.Graph"
STORE = "rdflib.store.Store"

# API methods that change the triples / the set of graphs of their receiver.
PRIM_GRAPH = {"add", "addN", "remove", "set", "__iadd__", "__isub__", "parse", "update", "remove_context",
              "remove_graph", "add_graph", "graph", "destroy", "load", "commit_parse", "absolutize_never"}
PRIM_GRAPH -= {"absolutize_never", "commit_parse"}
PRIM_STORE = {"add", "addN", "remove", "add_graph", "remove_graph", "destroy", "update", "create"}
# methods of QueryContext that load data into the context's graphs
PRIM_OTHER = {}

# on a receiver mypy knows nothing about (Any), these method names are taken to be the graph API
UNTYPED_MUTATOR_NAMES = {"addN", "add_graph", "remove_graph", "remove_context", "__iadd__", "__isub__", "parse", "add", "remove", "set", "destroy"}

Origin = frozenset  # of path strings


def _path(e: ast.AST) -> Optional[str]:
    """access path of depth <= 2 for Name / Name.attr"""
    if isinstance(e, ast.Name):
        return e.id
    if isinstance(e, ast.Attribute) and isinstance(e.value, ast.Name):
        return "%s.%s" % (e.value.id, e.attr)
    return None


class FuncInfo:
    def __init__(self, full: str, mod: Module, node: ast.FunctionDef, cls: Optional[str], outer: Optional["FuncInfo"] = None):
        self.full = full
        self.mod = mod
        self.node = node
        self.cls = cls  # class fullname for methods
        self.outer = outer
        a = node.args
        self.params = [x.arg for x in a.posonlyargs + a.args] + [x.arg for x in a.kwonlyargs]
        self.vararg = a.vararg.arg if a.vararg else None
        self.kwarg = a.kwarg.arg if a.kwarg else None
        self.is_method = cls is not None and not any(
            (isinstance(d, ast.Name) and d.id == "staticmethod") for d in node.decorator_list)
        self.events: list[tuple] = []  # filled by interpret()
        self.summary: set[str] = set()
        self.witness: dict[str, tuple] = {}  # path -> (kind, site, detail)
        self.consts: dict[str, bool] = {}  # known constant flag parameters of this variant
        # flag parameters: bool-constant defaults that are tested directly (if p: / x if p else y / not p)
        self.flag_defaults: dict[str, bool] = {}
        pos = a.posonlyargs + a.args
        defaults = [None] * (len(pos) - len(a.defaults)) + list(a.defaults)
        cand = {}
        for x, d in list(zip(pos, defaults)) + list(zip(a.kwonlyargs, a.kw_defaults)):
            if d is not None and isinstance(d, ast.Constant) and isinstance(d.value, bool):
                cand[x.arg] = d.value
        if cand:
            tested = set()
            for n in ast.walk(node):
                t = None
                if isinstance(n, (ast.If, ast.IfExp)):
                    t = n.test
                    if isinstance(t, ast.UnaryOp) and isinstance(t.op, ast.Not):
                        t = t.operand
                    if isinstance(t, ast.Name) and t.id in cand:
                        tested.add(t.id)
            # a flag that is reassigned in the body is not a constant
            for n in ast.walk(node):
                if isinstance(n, ast.Name) and isinstance(n.ctx, ast.Store) and n.id in tested:
                    tested.discard(n.id)
            self.flag_defaults = {k: cand[k] for k in tested}

    def variant(self, consts: dict[str, bool]) -> "FuncInfo":
        v = FuncInfo.__new__(FuncInfo)
        v.__dict__.update(self.__dict__)
        v.events = []
        v.summary = set()
        v.witness = {}
        v.consts = dict(consts)
        return v


class Effects:
    def __init__(self, repo: Repo):
        self.repo = repo
        self.typed = repo.typed
        self.funcs: dict[str, FuncInfo] = {}
        self.props: dict[str, str] = {}  # "Class.prop" simple alias: property returning self.<attr>
        self._index()
        self.evalfns = self._evalfn_table()
        self.fresh_fields: dict[str, set[str]] = {}
        self._interpreted = False

    # ----------------------------------------------------------------- index
    def _index(self) -> None:
        for mname, mod in self.repo.modules.items():
            for q, fn in mod.functions():
                parts = q.split(".")
                # nested function?  parent is a function
                parent_q = ".".join(parts[:-1])
                parent = mod.defs.get(parent_q) if parent_q else None
                cls = None
                if isinstance(parent, ast.ClassDef):
                    cls = "%s.%s" % (mname, parent_q)
                full = "%s.%s" % (mname, q)
                self.funcs[full] = FuncInfo(full, mod, fn, cls)
        for full, fi in self.funcs.items():
            mod = fi.mod
            q = full[len(mod.name) + 1:]
            parent_q = ".".join(q.split(".")[:-1])
            parent = mod.defs.get(parent_q) if parent_q else None
            if isinstance(parent, (ast.FunctionDef, ast.AsyncFunctionDef)):
                fi.outer = self.funcs.get("%s.%s" % (mod.name, parent_q))
            # property aliases
            if fi.cls and any(isinstance(d, ast.Name) and d.id == "property" for d in fi.node.decorator_list):
                rets = [n for n in own_nodes(fi.node) if isinstance(n, ast.Return) and n.value is not None]
                if rets and all(isinstance(r.value, ast.Attribute) and isinstance(r.value.value, ast.Name) and r.value.value.id == "self" for r in rets):
                    attrs = {r.value.attr for r in rets}
                    if len(attrs) == 1:
                        self.props["%s.%s" % (fi.cls, fi.node.name)] = next(iter(attrs))

    def _evalfn_table(self) -> list[str]:
        out = []
        for mname, mod in self.repo.modules.items():
            if not mname.startswith("rdflib.plugins.sparql"):
                continue
            for n in ast.walk(mod.tree):
                if isinstance(n, ast.Call) and isinstance(n.func, ast.Attribute) and n.func.attr == "setEvalFn" and n.args:
                    a = n.args[0]
                    ref = self.typed.ref(mname, a)
                    if ref and ref in self.funcs:
                        out.append(ref)
                    elif isinstance(a, ast.Attribute):
                        # op.Builtin_X
                        cand = "rdflib.plugins.sparql.operators." + a.attr
                        if cand in self.funcs:
                            out.append(cand)
                    elif isinstance(a, ast.Name):
                        cand = "%s.%s" % (mname, a.id)
                        if cand in self.funcs:
                            out.append(cand)
        return sorted(set(out))

    # ------------------------------------------------------------ type tests
    def is_graphish(self, modname: str, e: ast.AST) -> bool:
        tf = self.typed.type_of(modname, e)
        if tf is None:
            return False
        return any(self.typed.is_subclass(i, GRAPH) or self.typed.is_subclass(i, STORE) for i in tf.items)

    def is_prim(self, callee: str) -> bool:
        cls, _, name = callee.rpartition(".")
        if self.typed.is_subclass(cls, GRAPH) and name in PRIM_GRAPH:
            return True
        if self.typed.is_subclass(cls, STORE) and name in PRIM_STORE:
            return True
        return False

    # -------------------------------------------------------------- interpret
    def vkey(self, full: str, consts: dict[str, bool]) -> str:
        if not consts:
            return full
        return full + "@" + ",".join("%s=%s" % (k, consts[k]) for k in sorted(consts))

    def get_variant(self, full: str, consts: dict[str, bool]) -> Optional[str]:
        base = self.funcs.get(full)
        if base is None:
            return None
        consts = {k: v for k, v in consts.items() if k in base.flag_defaults}
        key = self.vkey(full, consts)
        if key not in self.funcs:
            v = base.variant(consts)
            v.full = key
            self.funcs[key] = v
            self._pending.append(key)
        return key

    def interpret_all(self) -> None:
        if self._interpreted:
            return
        self._pending: list[str] = list(self.funcs.keys())
        while self._pending:
            k = self._pending.pop()
            _Interp(self, self.funcs[k]).run()
        self._interpreted = True

    def solve(self) -> None:
        self.interpret_all()
        # seed with direct mutation events
        for fi in self.funcs.values():
            for ev in fi.events:
                if ev[0] == "mut":
                    _, site, origin, what = ev
                    for p in origin:
                        if p not in fi.summary:
                            fi.summary.add(p)
                            fi.witness[p] = ("mut", site, what)
        changed = True
        rounds = 0
        while changed:
            changed = False
            rounds += 1
            if rounds > 60:
                raise AnalysisError("effect summaries did not converge")
            for fi in self.funcs.values():
                for ev in fi.events:
                    if ev[0] != "call":
                        continue
                    _, site, targets, amap = ev
                    for t in targets:
                        callee = self.funcs.get(t)
                        if callee is None:
                            continue
                        for path in list(callee.summary):
                            root, _, rest = path.partition(".")
                            key_exact = (root, rest)
                            origin = amap.get(key_exact)
                            if origin is None and rest and (root, "@name") in amap:
                                origin = frozenset("%s.%s" % (n, rest) for n in amap[(root, "@name")])
                            if origin is None:
                                origin = amap.get((root, ""))
                            if origin is None:
                                continue
                            for p in origin:
                                if p not in fi.summary:
                                    fi.summary.add(p)
                                    fi.witness[p] = ("call", site, "%s mutates %s" % (t, path))
                                    changed = True

    def resolve_targets(self, modname: str, call: ast.Call, fi: FuncInfo) -> list[str]:
        cal = list(self.typed.callees(modname, call))
        out: list[str] = []
        for c in cal:
            if c.endswith(".__init__"):
                cls = c[: -len(".__init__")]
                m = self.typed.resolve_method(cls, "__init__")
                if m:
                    out.append(m)
                continue
            out += self.typed.overrides(c) if c.rpartition(".")[0] in self.typed.classes else [c]
        if not cal:
            f = call.func
            if isinstance(f, ast.Name):
                # nested function of an enclosing function?
                cur: Optional[FuncInfo] = fi
                while cur is not None:
                    cand = "%s.%s" % (cur.full, f.id)
                    if cand in self.funcs:
                        out.append(cand)
                        break
                    cur = cur.outer
            elif isinstance(f, ast.Attribute) and f.attr == "_evalfn":
                out += self.evalfns
        return sorted(set(out))

    def witness_chain(self, full: str, path: str, depth: int = 0) -> list[str]:
        fi = self.funcs.get(full)
        if fi is None or path not in fi.witness or depth > 12:
            return []
        kind, site, what = fi.witness[path]
        here = "%s:%s %s  [%s] %s" % (fi.mod.rel, getattr(site, "lineno", "?"), full, path, norm(site)[:90])
        if kind == "mut":
            return [here + "   <= MUTATION: " + what]
        # follow into callee
        t, _, rest = what.partition(" mutates ")
        return [here] + self.witness_chain(t, rest, depth + 1)


class _Interp:
    def __init__(self, eff: Effects, fi: FuncInfo):
        self.eff = eff
        self.fi = fi
        self.mod = fi.mod
        self.typed = eff.typed
        self.params = set(fi.params)
        if fi.vararg:
            self.params.add(fi.vararg)
        if fi.kwarg:
            self.params.add(fi.kwarg)
        # free variables of nested functions behave as implicit parameters
        self.nested_names: set[str] = set()

    # origins ---------------------------------------------------------------
    _SCALARS = {"builtins.str", "builtins.int", "builtins.bool", "builtins.float", "builtins.bytes", "builtins.complex",
                "builtins.NoneType", "decimal.Decimal"}

    def pure_data(self, e: ast.AST) -> bool:
        """static type proves the value cannot be or contain a graph/store: RDF terms and scalars"""
        tf = self.typed.type_of(self.mod.name, e)
        if tf is None or tf.any or not tf.items:
            return False
        for i in tf.items:
            if self.typed.is_subclass(i, GRAPH) or self.typed.is_subclass(i, STORE):
                return False  # Graph is itself a Node subclass
            if i in self._SCALARS or self.typed.is_subclass(i, "rdflib.term.Identifier") or self.typed.is_subclass(i, "rdflib.paths.Path"):
                continue
            return False
        return True

    def origin(self, e: ast.AST, st: dict) -> frozenset:
        if e is None:
            return frozenset()
        if isinstance(e, (ast.Name, ast.Attribute, ast.Call, ast.Subscript)) and self.pure_data(e):
            return frozenset()
        if isinstance(e, ast.Name):
            if e.id in st:
                return st[e.id]
            if e.id in self.params:
                return frozenset([e.id])
            # free variable of an enclosing function -> implicit parameter
            if self.fi.outer is not None and self._is_outer_local(e.id):
                return frozenset([e.id])
            return frozenset()  # module-level names, builtins, classes
        if isinstance(e, ast.Attribute):
            p = _path(e)
            if p is not None:
                # property alias: self.dataset -> self._dataset
                if isinstance(e.value, ast.Name) and e.value.id == "self" and self.fi.cls:
                    for c in self.typed.mro(self.fi.cls):
                        al = self.eff.props.get("%s.%s" % (c, e.attr))
                        if al:
                            p2 = "self." + al
                            if p2 in st:
                                return st[p2]
                            break
                if p in st:
                    return st[p]
                base = e.value.id  # type: ignore[union-attr]
                if base in st:
                    bo = st[base]
                    return bo  # attribute of a tracked local: same origin (fresh stays fresh)
                if base in self.params or (self.fi.outer is not None and self._is_outer_local(base)):
                    return frozenset([p])
                return frozenset()
            return self.origin(e.value, st)
        if isinstance(e, ast.Call):
            return self.call_origin(e, st)
        if isinstance(e, (ast.Constant, ast.Lambda, ast.JoinedStr, ast.Compare)):
            return frozenset()
        if isinstance(e, ast.IfExp):
            cv = self.const_test(e.test)
            if cv is not None:
                return self.origin(e.body if cv else e.orelse, st)
            return self.origin(e.body, st) | self.origin(e.orelse, st)
        if isinstance(e, ast.BoolOp):
            r = frozenset()
            for v in e.values:
                r |= self.origin(v, st)
            return r
        if isinstance(e, ast.NamedExpr):
            o = self.origin(e.value, st)
            if isinstance(e.target, ast.Name):
                st[e.target.id] = o
            return o
        if isinstance(e, (ast.ListComp, ast.SetComp, ast.GeneratorExp, ast.DictComp)):
            st2 = dict(st)
            for g in e.generators:
                self.bind(g.target, self.origin(g.iter, st2), st2)
            if isinstance(e, ast.DictComp):
                return self.origin(e.key, st2) | self.origin(e.value, st2)
            return self.origin(e.elt, st2)
        r = frozenset()
        for ch in ast.iter_child_nodes(e):
            if isinstance(ch, ast.expr):
                r |= self.origin(ch, st)
        return r

    def _is_outer_local(self, name: str) -> bool:
        cur = self.fi.outer
        while cur is not None:
            if name in cur.params:
                return True
            for n in own_nodes(cur.node):
                if isinstance(n, ast.Name) and n.id == name and isinstance(n.ctx, ast.Store):
                    return True
            cur = cur.outer
        return False

    def call_origin(self, c: ast.Call, st: dict) -> frozenset:
        cal = self.typed.callees(self.mod.name, c)
        f = c.func
        # constructor of a Graph/Store class: fresh unless it is a view on a given store
        ctor = [x for x in cal if x.endswith(".__init__")]
        is_type_self = isinstance(f, ast.Call) and isinstance(f.func, ast.Name) and f.func.id == "type"
        if ctor or is_type_self:
            cls = ctor[0][: -len(".__init__")] if ctor else ""
            if is_type_self or self.typed.is_subclass(cls, GRAPH) or self.typed.is_subclass(cls, STORE):
                r = frozenset()
                for i, a in enumerate(c.args):
                    if i == 0 or self.eff.is_graphish(self.mod.name, a):
                        r |= self.origin(a, st)
                for k in c.keywords:
                    if k.arg in ("store", "graph", "namespace_manager") or self.eff.is_graphish(self.mod.name, k.value):
                        if k.arg != "namespace_manager":
                            r |= self.origin(k.value, st)
                return r
            # other classes: the new object may keep references to its arguments
            r = frozenset()
            for a in c.args:
                r |= self.origin(a, st)
            for k in c.keywords:
                r |= self.origin(k.value, st)
            return r
        r = frozenset()
        if isinstance(f, ast.Attribute):
            r |= self.origin(f.value, st)
        elif isinstance(f, ast.Name) and f.id in ("list", "tuple", "set", "sorted", "iter", "next", "reversed", "enumerate", "zip", "cast", "first", "filter", "map", "chain"):
            pass
        for a in c.args:
            r |= self.origin(a, st)
        for k in c.keywords:
            r |= self.origin(k.value, st)
        return r

    def bind(self, target: ast.AST, o: frozenset, st: dict) -> None:
        if isinstance(target, ast.Name):
            st[target.id] = o
        elif isinstance(target, (ast.Tuple, ast.List)):
            for t in target.elts:
                self.bind(t, o, st)
        elif isinstance(target, ast.Starred):
            self.bind(target.value, o, st)
        elif isinstance(target, ast.Attribute):
            p = _path(target)
            if p is not None:
                st[p] = o
                # property alias on assignment: self._dataset = X also read as self.dataset (handled in origin())
        elif isinstance(target, ast.Subscript):
            # container[x] = v : the container may now hold v
            p = _path(target.value)
            if p is not None:
                st[p] = st.get(p, self.origin(target.value, st)) | o

    def untyped_maybe_graph(self, target: ast.AST, value: ast.AST) -> bool:
        """`x += y` where mypy knows nothing about x (Any, e.g. after a `# type: ignore`):
        counted as a graph mutation unless y is evidently a number/string/list."""
        tf = self.typed.type_of(self.mod.name, target)
        if tf is not None and not tf.any:
            return False
        if tf is not None and tf.items:
            return False
        if not isinstance(target, ast.Name):
            return False
        # evidence that the name holds a graph: some assignment gives it a Graph-typed value,
        # a Graph constructor, or an (untyped) .default_context / .get_context(...) / .graph(...)
        evidence = False
        for n in own_nodes(self.fi.node, include_nested=True):
            vals = []
            if isinstance(n, ast.Assign) and any(isinstance(t, ast.Name) and t.id == target.id for t in n.targets):
                vals.append(n.value)
            if isinstance(n, ast.AnnAssign) and isinstance(n.target, ast.Name) and n.target.id == target.id and n.value is not None:
                vals.append(n.value)
            for v in vals:
                if self.eff.is_graphish(self.mod.name, v):
                    evidence = True
                if isinstance(v, ast.Attribute) and v.attr in ("default_context", "default_graph", "graph", "store"):
                    evidence = True
                if isinstance(v, ast.Call) and isinstance(v.func, ast.Attribute) and v.func.attr in ("get_context", "graph", "get_graph"):
                    evidence = True
        if not evidence:
            return False
        vt = self.typed.type_of(self.mod.name, value)
        if isinstance(value, (ast.Constant, ast.List, ast.Tuple, ast.JoinedStr, ast.ListComp, ast.Dict)):
            return False
        if vt is not None and vt.items and not vt.any and not any(
                self.typed.is_subclass(i, GRAPH) or i in ("typing.Generator", "typing.Iterator", "typing.Iterable", "builtins.list") for i in vt.items):
            return False
        return True

    def const_test(self, t: ast.expr) -> Optional[bool]:
        if isinstance(t, ast.UnaryOp) and isinstance(t.op, ast.Not):
            r = self.const_test(t.operand)
            return None if r is None else (not r)
        if isinstance(t, ast.Name) and t.id in self.fi.consts:
            return self.fi.consts[t.id]
        return None

    # events ----------------------------------------------------------------
    def scan_expr(self, e: ast.AST, st: dict) -> None:
        """record mutation/call events of every call inside expression e; arms of a
        conditional expression on a known constant flag that are not taken are skipped."""
        if e is None:
            return
        stack = [e]
        while stack:
            n = stack.pop()
            if isinstance(n, ast.Lambda):
                continue
            if isinstance(n, ast.IfExp):
                cv = self.const_test(n.test)
                if cv is not None:
                    stack.append(n.body if cv else n.orelse)
                    continue
            if isinstance(n, ast.Call):
                self.call_event(n, st)
            stack.extend(ast.iter_child_nodes(n))

    def call_event(self, c: ast.Call, st: dict) -> None:
        mn = self.mod.name
        targets = self.eff.resolve_targets(mn, c, self.fi)
        f = c.func
        # primitive mutators
        prim = [t for t in self.typed.callees(mn, c) if self.eff.is_prim(t)]
        if prim and isinstance(f, ast.Attribute):
            # Class.method(self, ...) form?
            recv = f.value
            ref = self.typed.ref(mn, recv) if isinstance(recv, (ast.Name, ast.Attribute)) else None
            if ref and ref in self.typed.classes and c.args:
                recv = c.args[0]
            o = self.recv_origin(recv, st)
            self.fi.events.append(("mut", c, o, "%s on %s" % (prim[0], norm(recv))))
        if not prim and not targets and isinstance(f, ast.Attribute) and f.attr in UNTYPED_MUTATOR_NAMES:
            tf = self.typed.type_of(mn, f.value)
            shape_ok = True
            if f.attr in ("add", "remove", "set"):
                a0 = c.args[0] if c.args else None
                shape_ok = isinstance(a0, ast.Tuple) and len(a0.elts) in (3, 4)
            if f.attr == "parse":
                shape_ok = any(k.arg in ("format", "publicID", "data") for k in c.keywords)
            if (tf is None or (tf.any and not tf.items)) and shape_ok:
                o = self.recv_origin(f.value, st)
                if o:
                    self.fi.events.append(("mut", c, o, "untyped receiver: .%s() on %s" % (f.attr, norm(f.value))))
        if not targets:
            return
        amap: dict[tuple[str, str], frozenset] = {}
        for t in targets:
            callee = self.eff.funcs.get(t)
            if callee is None:
                continue
            params = list(callee.params)
            args = list(c.args)
            recv_expr = None
            if callee.is_method and isinstance(f, ast.Attribute):
                ref = self.typed.ref(mn, f.value) if isinstance(f.value, (ast.Name, ast.Attribute)) else None
                if ref and ref in self.typed.classes:
                    pass  # Class.method(self_arg, ...) : positional mapping from params[0]
                elif isinstance(f.value, ast.Call) and isinstance(f.value.func, ast.Name) and f.value.func.id == "super":
                    recv_expr = ast.Name(id="self", ctx=ast.Load())
                else:
                    recv_expr = f.value
            elif callee.is_method and t.endswith(".__init__"):
                recv_expr = None
                params = params[1:]  # self is the new object
            if recv_expr is not None and params:
                self._map(amap, params[0], recv_expr, st)
                params = params[1:]
            for p, a in zip(params, args):
                if isinstance(a, ast.Starred):
                    continue
                self._map(amap, p, a, st)
            for k in c.keywords:
                if k.arg and k.arg in callee.params:
                    self._map(amap, k.arg, k.value, st)
            # implicit parameters of nested callees: free variables
            if callee.outer is not None:
                for n in ast.walk(callee.node):
                    if isinstance(n, ast.Name) and n.id not in callee.params and (n.id in st or n.id in self.params):
                        amap.setdefault((n.id, ""), self.origin(ast.Name(id=n.id, ctx=ast.Load()), st))
        # specialise callees on constant boolean flags passed (or defaulted) at this site
        vtargets = []
        for t in targets:
            callee = self.eff.funcs.get(t)
            if callee is None:
                continue
            consts = {}
            if callee.flag_defaults:
                params = list(callee.params)
                if callee.is_method and (t.endswith(".__init__") or (isinstance(f, ast.Attribute) and not (
                        (self.typed.ref(mn, f.value) if isinstance(f.value, (ast.Name, ast.Attribute)) else None) in self.typed.classes))):
                    params = params[1:]
                given = {}
                for pn, a in zip(params, c.args):
                    given[pn] = a
                for k in c.keywords:
                    if k.arg:
                        given[k.arg] = k.value
                star = any(isinstance(a, ast.Starred) for a in c.args) or any(k.arg is None for k in c.keywords)
                for fp, dv in callee.flag_defaults.items():
                    if fp in given:
                        a = given[fp]
                        if isinstance(a, ast.Constant) and isinstance(a.value, bool):
                            consts[fp] = a.value
                        elif isinstance(a, ast.Name) and a.id in self.fi.consts:
                            consts[fp] = self.fi.consts[a.id]
                    elif not star:
                        consts[fp] = dv
            vk = self.eff.get_variant(t, consts)
            if vk:
                vtargets.append(vk)
        self.fi.events.append(("call", c, vtargets, amap))

    def _map(self, amap: dict, param: str, arg: ast.AST, st: dict) -> None:
        o = self.recv_origin(arg, st)
        key = (param, "")
        amap[key] = amap.get(key, frozenset()) | o
        # field-granular entries for p.attr paths in callee summaries
        p = _path(arg)
        if p is not None and "." not in p:
            for k, v in st.items():
                if k.startswith(p + "."):
                    kk = (param, k[len(p) + 1:])
                    amap[kk] = amap.get(kk, frozenset()) | v
            # an untracked parameter passed on as is: its fields keep their identity (p.attr -> p.attr)
            if p not in st and (p in self.params):
                amap[(param, "@name")] = frozenset([p])

    def recv_origin(self, e: ast.AST, st: dict) -> frozenset:
        return self.origin(e, st)

    # statements --------------------------------------------------------------
    def run(self) -> None:
        st: dict[str, frozenset] = {}
        self.block(self.fi.node.body, st)

    def join(self, a: dict, b: dict) -> dict:
        out = {}
        for k in set(a) | set(b):
            va = a.get(k)
            vb = b.get(k)
            if va is None:
                va = self._default(k)
            if vb is None:
                vb = self._default(k)
            out[k] = va | vb
        return out

    def _default(self, key: str) -> frozenset:
        root = key.split(".")[0]
        if root in self.params:
            return frozenset([key])
        return frozenset()

    def refine(self, test: ast.expr, st: dict, truth: bool) -> dict:
        """store-identity tests: on the branch where `a.store is b.store` is False
        (or `a is b` is False) a does not alias b's objects."""
        st = dict(st)
        t = test
        if isinstance(t, ast.UnaryOp) and isinstance(t.op, ast.Not):
            return self.refine(t.operand, st, not truth)
        if isinstance(t, ast.Compare) and len(t.ops) == 1 and isinstance(t.ops[0], (ast.Is, ast.IsNot)):
            same = isinstance(t.ops[0], ast.Is) == truth
            l, r = t.left, t.comparators[0]

            def strip(e):
                if isinstance(e, ast.Attribute) and e.attr in ("store", "_Graph__store"):
                    return e.value
                return e
            lb, rb = strip(l), strip(r)
            if not same and isinstance(lb, ast.Name) and (isinstance(l, ast.Attribute) or isinstance(r, ast.Attribute) or True):
                ro = self.origin(rb, st)
                lo = self.origin(lb, st)
                if lb.id in st or lb.id in self.params:
                    st[lb.id] = frozenset(x for x in lo if not any(x == y or x.startswith(y + ".") or y.startswith(x + ".") for y in ro))
                if isinstance(rb, ast.Name) and (rb.id in st) and rb.id not in self.params:
                    st[rb.id] = frozenset(x for x in ro if not any(x == y or x.startswith(y + ".") or y.startswith(x + ".") for y in lo))
        return st

    def block(self, stmts: list[ast.stmt], st: dict) -> dict:
        for s in stmts:
            st = self.stmt(s, st)
        return st

    def stmt(self, s: ast.stmt, st: dict) -> dict:
        if isinstance(s, (ast.FunctionDef, ast.AsyncFunctionDef, ast.ClassDef)):
            return st
        if isinstance(s, ast.Assign):
            self.scan_expr(s.value, st)
            o = self.origin(s.value, st)
            for t in s.targets:
                if isinstance(t, ast.Subscript):
                    self.scan_expr(t, st)
                self.bind(t, o, st)
            return st
        if isinstance(s, ast.AnnAssign):
            if s.value is not None:
                self.scan_expr(s.value, st)
                self.bind(s.target, self.origin(s.value, st), st)
            return st
        if isinstance(s, ast.AugAssign):
            self.scan_expr(s.value, st)
            if isinstance(s.op, (ast.Add, ast.Sub)) and (self.eff.is_graphish(self.mod.name, s.target) or self.untyped_maybe_graph(s.target, s.value)):
                o = self.origin(s.target, st)
                self.fi.events.append(("mut", s, o, "%s on %s" % ("__iadd__" if isinstance(s.op, ast.Add) else "__isub__", norm(s.target))))
            return st
        if isinstance(s, ast.Expr):
            self.scan_expr(s.value, st)
            return st
        if isinstance(s, ast.Return):
            self.scan_expr(s.value, st)
            return st
        if isinstance(s, ast.If):
            cv = self.const_test(s.test)
            if cv is not None:
                return self.block(s.body if cv else s.orelse, st)
            self.scan_expr(s.test, st)
            a = self.block(s.body, self.refine(s.test, st, True))
            b = self.block(s.orelse, self.refine(s.test, st, False))
            # a branch that always leaves (return/raise/continue/break) does not reach the join
            if s.body and isinstance(s.body[-1], (ast.Return, ast.Raise, ast.Continue, ast.Break)):
                return b
            if s.orelse and isinstance(s.orelse[-1], (ast.Return, ast.Raise, ast.Continue, ast.Break)):
                return a
            return self.join(a, b)
        if isinstance(s, (ast.For, ast.AsyncFor)):
            self.scan_expr(s.iter, st)
            st1 = dict(st)
            self.bind(s.target, self.origin(s.iter, st1), st1)
            n_events = len(self.fi.events)
            out1 = self.block(s.body, st1)
            st2 = self.join(st, out1)
            self.bind(s.target, self.origin(s.iter, st2), st2)
            del self.fi.events[n_events:]
            out2 = self.block(s.body, st2)
            res = self.join(st, out2)
            return self.block(s.orelse, res) if s.orelse else res
        if isinstance(s, ast.While):
            self.scan_expr(s.test, st)
            n_events = len(self.fi.events)
            out1 = self.block(s.body, dict(st))
            st2 = self.join(st, out1)
            del self.fi.events[n_events:]
            out2 = self.block(s.body, st2)
            res = self.join(st, out2)
            return self.block(s.orelse, res) if s.orelse else res
        if isinstance(s, (ast.With, ast.AsyncWith)):
            for it in s.items:
                self.scan_expr(it.context_expr, st)
                if it.optional_vars is not None:
                    self.bind(it.optional_vars, self.origin(it.context_expr, st), st)
            return self.block(s.body, st)
        if isinstance(s, (ast.Try, getattr(ast, "TryStar", ast.Try))):
            body = self.block(s.body, dict(st))
            acc = self.join(st, body)
            for h in s.handlers:
                acc = self.join(acc, self.block(h.body, dict(acc)))
            if s.orelse:
                acc = self.join(acc, self.block(s.orelse, dict(body)))
            if s.finalbody:
                acc = self.block(s.finalbody, acc)
            return acc
        if isinstance(s, ast.Match):
            self.scan_expr(s.subject, st)
            acc = dict(st)
            for c in s.cases:
                acc = self.join(acc, self.block(c.body, dict(st)))
            return acc
        if isinstance(s, (ast.Assert,)):
            self.scan_expr(s.test, st)
            return st
        if isinstance(s, ast.Delete):
            for t in s.targets:
                self.scan_expr(t, st)
            return st
        if isinstance(s, ast.Raise):
            self.scan_expr(s.exc, st)
            return st
        return st
