"""Helpers of check C19 (rules l, m, n): pure ast / CFG, nothing of the analysed library is executed."""
from __future__ import annotations

import ast
from typing import Callable, Iterator, Optional

from . import loops
from .cfg import CFG, reaching_defs
from .core import norm


# The method of Collection that maps an index to its cell.  It is a private method: check C19 finds it by its role from the public
# __getitem__ (cell_lookup_method below) at the start of every run and binds the name here; the literal is the name it has on the pinned tree.
CELL_LOOKUP = "_get_container"


# ------------------------------------------------------------------------------------------------ small syntax helpers
def strip_cast(e: ast.AST) -> ast.AST:
    """cast(T, x) / typing.cast(T, x) -> x (repeatedly)."""
    while isinstance(e, ast.Call) and len(e.args) == 2 and not e.keywords and (
        (isinstance(e.func, ast.Name) and e.func.id == "cast") or (isinstance(e.func, ast.Attribute) and e.func.attr == "cast")
    ):
        e = e.args[1]
    return e


def is_rest_value_lookup(e: ast.AST) -> bool:
    """<g>.value(x, RDF.rest) (positional or subject=/predicate= keywords): the successor cell of x."""
    e = strip_cast(e)
    if not (isinstance(e, ast.Call) and isinstance(e.func, ast.Attribute) and e.func.attr == "value"):
        return False
    pred = e.args[1] if len(e.args) >= 2 else next((k.value for k in e.keywords if k.arg == "predicate"), None)
    return pred is not None and loops._is_rest(pred)


def assigned_value(st: ast.AST, var: str) -> Optional[ast.AST]:
    """The expression bound to the plain name `var` by statement st (None when st binds it in another way)."""
    if isinstance(st, ast.Assign) and any(isinstance(t, ast.Name) and t.id == var for t in st.targets):
        return st.value
    if isinstance(st, ast.AnnAssign) and isinstance(st.target, ast.Name) and st.target.id == var:
        return st.value
    return None


def binds(st: Optional[ast.AST], var: str) -> bool:
    """Does the CFG statement st (re)bind the plain name var?  (heads of compound statements: only their own part)"""
    if st is None:
        return False
    if isinstance(st, (ast.If, ast.While)):
        part: list[ast.AST] = [st.test]
    elif isinstance(st, (ast.For, ast.AsyncFor)):
        part = [st.target, st.iter]
    elif isinstance(st, (ast.With, ast.AsyncWith)):
        part = list(st.items)
    elif isinstance(st, (ast.FunctionDef, ast.AsyncFunctionDef, ast.ClassDef)):
        return st.name == var
    else:
        part = [st]
    return any(isinstance(n, ast.Name) and n.id == var and isinstance(n.ctx, (ast.Store, ast.Del)) for p in part for n in ast.walk(p))


# ------------------------------------------------------------------------------------------------ `k > 0` on every path
def _cmp_index(c: ast.AST, var: str) -> Optional[tuple[type, int]]:
    """(op, k) when the comparison reads `var op k`, k an int constant (operands swapped if need be)."""
    if not (isinstance(c, ast.Compare) and len(c.ops) == 1):
        return None
    l, op, r = c.left, type(c.ops[0]), c.comparators[0]

    def num(e):
        if isinstance(e, ast.UnaryOp) and isinstance(e.op, ast.USub) and isinstance(e.operand, ast.Constant) and isinstance(e.operand.value, int) \
                and not isinstance(e.operand.value, bool):
            return -e.operand.value
        return e.value if isinstance(e, ast.Constant) and isinstance(e.value, int) and not isinstance(e.value, bool) else None

    if isinstance(l, ast.Name) and l.id == var and num(r) is not None:
        return op, num(r)
    if isinstance(r, ast.Name) and r.id == var and num(l) is not None:
        return {ast.Lt: ast.Gt, ast.Gt: ast.Lt, ast.LtE: ast.GtE, ast.GtE: ast.LtE}.get(op, op), num(l)
    return None


_NEGATED = {ast.Gt: ast.LtE, ast.GtE: ast.Lt, ast.Lt: ast.GtE, ast.LtE: ast.Gt, ast.Eq: ast.NotEq, ast.NotEq: ast.Eq}


def _sign_fact(c: ast.AST, var: str, truth: bool) -> Optional[str]:
    """What the comparison c having the truth value `truth` says about the sign of var: 'pos' (var > 0), 'nonpos' (var <= 0), 'nz' / 'z'
    (var != 0 / var == 0: the same two for a normalised, non-negative index), or None.  The two truth values are judged separately:
    `var < 0` being false leaves var == 0 open, `var <= 0` being false does not."""
    ck = _cmp_index(c, var)
    if ck is None:
        return None
    op, k = ck
    if not truth:
        op = _NEGATED.get(op)
        if op is None:
            return None
    if (op is ast.Gt and k >= 0) or (op is ast.GtE and k >= 1) or (op is ast.Eq and k >= 1):
        return "pos"
    if (op is ast.LtE and k <= 0) or (op is ast.Lt and k <= 1) or (op is ast.Eq and k < 0):
        return "nonpos"
    if op is ast.NotEq and k == 0:
        return "nz"
    if op is ast.Eq and k == 0:
        return "z"
    return None


def _cmp_sign(c: ast.AST, var: str) -> Optional[str]:
    """what the comparison says about var when it is TRUE (see _sign_fact)"""
    return _sign_fact(c, var, True)


def edge_implies_positive(test: ast.expr, taken: bool, var: str) -> bool:
    """Does leaving `test` by its true (taken) / false edge establish var > 0?  (var is known to be a normalised,
    non-negative index where `!= 0` / `== 0` are used: rule C19.h keeps that normalisation in place)"""
    if taken:
        if isinstance(test, ast.BoolOp) and isinstance(test.op, ast.And):
            return any(edge_implies_positive(v, True, var) for v in test.values)
        if isinstance(test, ast.UnaryOp) and isinstance(test.op, ast.Not):
            return edge_implies_positive(test.operand, False, var)
        return _sign_fact(test, var, True) in ("pos", "nz")
    if isinstance(test, ast.BoolOp) and isinstance(test.op, ast.Or):
        return any(edge_implies_positive(v, False, var) for v in test.values)
    if isinstance(test, ast.UnaryOp) and isinstance(test.op, ast.Not):
        return edge_implies_positive(test.operand, True, var)
    return _sign_fact(test, var, False) in ("pos", "nz")


def positive_on_every_path(g: CFG, target: int, var: str) -> bool:
    """On every path entry -> target, the last thing that happened to `var` is a branch edge that establishes var > 0
    (no re-binding of var in between).  One-bit forward data flow over the CFG."""
    start = (g.entry, False)
    seen = {start}
    stack = [start]
    while stack:
        nid, known = stack.pop()
        if nid == target and not known:
            return False
        node = g.nodes[nid]
        st = node.ast
        if binds(st, var):
            known = False
        for m in g.succ[nid]:
            lab = g.edge_label.get((nid, m), "")
            k2 = known
            if node.kind == "test" and isinstance(st, (ast.If, ast.While)) and lab != "exc":
                # unlabelled / "false" edges of a test node are its false edges; "back" edges never leave a test node
                taken = lab == "true"
                if edge_implies_positive(st.test, taken, var):
                    k2 = True
            s2 = (m, k2)
            if s2 not in seen:
                seen.add(s2)
                stack.append(s2)
    return True


# ------------------------------------------------------------------------------------------------ can this name be the head?
def head_possible(g: CFG, mod, at: ast.AST, subj: ast.AST, head_attr: str = "uri", depth: int = 0) -> list[str]:
    """Reasons why the expression `subj`, evaluated at CFG statement of `at`, may denote the list node itself
    (self.<head_attr>).  Empty list = it provably is a cell other than the head:
      * the value of an rdf:rest lookup (a successor cell), or
      * self._get_container(k) with k > 0 established on every path to `at` and k not re-bound since.
    Names are resolved by reaching definitions (copies are followed)."""
    subj = strip_cast(subj)
    target = g.node_of(at, mod)
    if is_rest_value_lookup(subj):
        return []
    # ... or the removal sits on the side of a comparison with the list node that excludes it:
    # `if x == self.uri: <links only> else: remove((x, None, None))` / `if x != self.uri: remove(...)`
    # (the list node: self.uri, or a local copy of it - denotes_head)
    if depth == 0:
        sx = norm(subj)
        for p_ in mod.parents(at):
            if isinstance(p_, (ast.FunctionDef, ast.For, ast.While)):
                break
            op = compared_with_head(g, mod, p_, sx, head_attr) if isinstance(p_, ast.If) else None
            if op is not None:
                in_body = any(at is x for s_ in p_.body for x in ast.walk(s_))
                rebound = any(isinstance(a, ast.Assign) and any(norm(t) == sx for t in a.targets) and a.lineno < getattr(at, "lineno", 0)
                              for s_ in (p_.body if in_body else p_.orelse) for a in ast.walk(s_))
                if not rebound and ((isinstance(op, ast.Eq) and not in_body) or (isinstance(op, ast.NotEq) and in_body)):
                    return []
    if isinstance(subj, ast.Call) and isinstance(subj.func, ast.Attribute) and subj.func.attr == CELL_LOOKUP and len(subj.args) == 1 and not subj.keywords:
        k = subj.args[0]
        if isinstance(k, ast.Name):
            if positive_on_every_path(g, target, k.id):
                return []
            return ["_get_container(%s) where %s > 0 is not established on every path (for %s == 0 the cell is the list node itself)" % (k.id, k.id, k.id)]
        if isinstance(k, ast.Constant) and isinstance(k.value, int) and k.value > 0:
            return []
        return ["_get_container(%s): the index is not a plain name tested > 0" % norm(k)]
    if isinstance(subj, ast.Attribute) and isinstance(subj.value, ast.Name) and subj.value.id == "self" and subj.attr == head_attr:
        return ["self.%s is the list node" % head_attr]
    if isinstance(subj, ast.Name):
        if depth > 4:
            return ["%s: definition chain too long to resolve" % subj.id]
        out: list[str] = []
        for d in sorted(reaching_defs(g, target, subj.id)):
            if d == g.entry:
                out.append("%s holds its value from function entry" % subj.id)
                continue
            st = g.nodes[d].ast
            val = assigned_value(st, subj.id) if st is not None else None
            if val is None:
                out.append("%s bound by `%s`" % (subj.id, norm(st)[:60] if st is not None else "?"))
                continue
            # a positivity fact about the index must hold at the USE (the removal), the shape of the value at its definition
            v = strip_cast(val)
            if isinstance(v, ast.Call) and isinstance(v.func, ast.Attribute) and v.func.attr == CELL_LOOKUP:
                # the index name must not be re-bound between this definition and the use either: positive_on_every_path
                # (evaluated at the use) already kills the fact at every re-binding
                out += head_possible(g, mod, at, v, head_attr, depth + 1)
            else:
                out += head_possible(g, mod, st, v, head_attr, depth + 1)
        return out
    return ["%s: not a successor-cell lookup" % norm(subj)[:60]]


# ------------------------------------------------------------------------------------------------ cycle guard that raises
def _loop_assigns(loop: ast.AST) -> Iterator[tuple[ast.AST, str, ast.AST]]:
    for a in ast.walk(loop):
        if isinstance(a, ast.Assign):
            for t in a.targets:
                if isinstance(t, ast.Name):
                    yield a, t.id, a.value
        elif isinstance(a, (ast.AnnAssign, ast.NamedExpr)) and isinstance(a.target, ast.Name) and a.value is not None:
            yield a, a.target.id, a.value


def raising_cycle_guard(g: CFG, mod, loop: ast.AST, cursor: str, repo=None) -> tuple[bool, str]:
    """Does the walk `loop` (a while or a for) over `cursor` RAISE when it meets a cell again?
      * an `if X in V:` inside the loop whose body raises, X being the cursor (or the temporary the cursor is advanced from),
        V.add(X) / V.append(X) inside the loop, V not being made anew inside the loop,
      * or the same test-and-record done by an object: a statement R.m(X), m a visit-or-raise method of a package class (visit_calls),
      * no path from an advance of the cursor to the next rdf:rest lookup of it that avoids that test."""
    temps = {cursor}
    for a, tgt, val in _loop_assigns(loop):
        if tgt != cursor and loops._rest_lookup_of(val, cursor):
            temps.add(tgt)
    guards = []
    if repo is not None:
        guards += visit_calls(repo, mod, g.fn, loop, temps)
    for t in ast.walk(loop):
        if not isinstance(t, ast.If):
            continue
        raises = any(isinstance(x, ast.Raise) for s in t.body for x in ast.walk(s))
        if not raises:
            continue
        for c in ast.walk(t.test):
            if isinstance(c, ast.Compare) and len(c.ops) == 1 and isinstance(c.ops[0], ast.In) and isinstance(c.left, ast.Name) and c.left.id in temps:
                coll = norm(c.comparators[0])
                fed = any(isinstance(x, ast.Call) and isinstance(x.func, ast.Attribute) and x.func.attr in ("add", "append") and norm(x.func.value) == coll
                          and x.args and isinstance(x.args[0], ast.Name) and x.args[0].id in temps for x in ast.walk(loop))
                renewed = isinstance(c.comparators[0], ast.Name) and any(binds(s, coll) for s in ast.walk(loop) if isinstance(s, ast.stmt))
                if fed and not renewed:
                    guards.append((t, coll))
    if not guards:
        return False, "no `if <cell> in <visited>: raise` fed by every step"
    gids = {g.node_of(t) for t, _ in guards}
    advances = [a for a, tgt, val in _loop_assigns(loop) if tgt == cursor and not (isinstance(val, ast.Constant) and val.value is None) and isinstance(a, (ast.Assign, ast.AnnAssign))]
    lookups = [a for a, tgt, val in _loop_assigns(loop) if loops._rest_lookup_of(val, cursor) and isinstance(a, (ast.Assign, ast.AnnAssign))]
    if not advances or not lookups:
        return False, "cursor advance / rdf:rest lookup not found as statements"
    lids = {g.node_of(a) for a in lookups}
    for a in advances:
        if g.reach(g.node_of(a), avoid=gids) & lids:
            return False, "a path from `%s` reaches the next rdf:rest lookup without passing the visited test" % norm(a)[:60]
    return True, "visited-set %s: meeting a cell again raises, on every path between two steps" % guards[0][1]


# ================================================================================================ rules o - s (third audit round)
# ------------------------------------------------------------------------------------------------ facts established by branch edges
def edge_establishes(test: ast.expr, taken: bool, atom: Callable[[ast.AST], Optional[bool]]) -> bool:
    """Does leaving `test` by its true (taken) / false edge establish a fact?  atom(cmp) says True when the fact holds if the
    comparison is true, False when it holds if the comparison is false, None when the comparison says nothing about it."""
    if isinstance(test, ast.UnaryOp) and isinstance(test.op, ast.Not):
        return edge_establishes(test.operand, not taken, atom)
    if isinstance(test, ast.BoolOp):
        if taken and isinstance(test.op, ast.And):
            return any(edge_establishes(v, True, atom) for v in test.values)
        if not taken and isinstance(test.op, ast.Or):
            return any(edge_establishes(v, False, atom) for v in test.values)
        # `a or b` true / `a and b` false: one of the operands decided it, which one is not known - the fact holds if each of them
        # establishes it (`x is None or x == rdf:nil` true, `x is not None and x != rdf:nil` false: x is None-or-nil either way)
        return all(edge_establishes(v, taken, atom) for v in test.values)
    r = atom(test)
    return r is not None and r == taken


def fact_on_every_path(g: CFG, target: int, var: str, atom: Callable[[ast.AST], Optional[bool]]) -> bool:
    """On every path entry -> target the last thing that happened to `var` is a branch edge that establishes the fact `atom`
    describes (no re-binding of var in between).  The generic form of positive_on_every_path."""
    start = (g.entry, False)
    seen = {start}
    stack = [start]
    while stack:
        nid, known = stack.pop()
        if nid == target and not known:
            return False
        node = g.nodes[nid]
        st = node.ast
        if binds(st, var):
            known = False
        for m in g.succ[nid]:
            lab = g.edge_label.get((nid, m), "")
            k2 = known
            if node.kind == "test" and isinstance(st, (ast.If, ast.While)) and lab not in ("exc", "back"):
                if edge_establishes(st.test, lab == "true", atom):
                    k2 = True
            s2 = (m, k2)
            if s2 not in seen:
                seen.add(s2)
                stack.append(s2)
    return True


def atom_nonpositive(var: str) -> Callable[[ast.AST], Optional[bool]]:
    def atom(c: ast.AST) -> Optional[bool]:
        if _sign_fact(c, var, True) in ("nonpos", "z"):
            return True
        return False if _sign_fact(c, var, False) in ("nonpos", "z") else None
    return atom


def is_nil(e: ast.AST) -> bool:
    return (isinstance(e, ast.Attribute) and e.attr == "nil") or (isinstance(e, ast.Subscript) and isinstance(e.slice, ast.Constant) and e.slice.value == "nil")


def atom_not_nil(var: str) -> Callable[[ast.AST], Optional[bool]]:
    def atom(c: ast.AST) -> Optional[bool]:
        if not (isinstance(c, ast.Compare) and len(c.ops) == 1):
            return None
        l, op, r = c.left, c.ops[0], c.comparators[0]
        if not ((isinstance(l, ast.Name) and l.id == var and is_nil(r)) or (isinstance(r, ast.Name) and r.id == var and is_nil(l))):
            return None
        if isinstance(op, (ast.NotEq, ast.IsNot)):
            return True
        if isinstance(op, (ast.Eq, ast.Is)):
            return False
        return None
    return atom


def _resolve(g: CFG, at_id: int, name: str) -> list[tuple[int, Optional[ast.AST]]]:
    """(definition node, bound expression or None) for every definition of the plain name that reaches at_id."""
    out = []
    for d in sorted(reaching_defs(g, at_id, name)):
        st = g.nodes[d].ast if d != g.entry else None
        out.append((d, assigned_value(st, name) if st is not None else None))
    return out


# ------------------------------------------------------------------------------------------------ is this name certainly the head?
def head_certain(g: CFG, mod, at: ast.AST, subj: ast.AST, head_attr: str = "uri", depth: int = 0) -> list[str]:
    """Reasons why `subj`, evaluated at the statement of `at`, may be a cell OTHER than the list node self.<head_attr>.
    Empty list = it provably is the list node: self.uri itself, the `== self.uri` side of a comparison, or
    self._get_container(k) where k > 0 is excluded on every path (k is a normalised index: rule C19.h)."""
    subj = strip_cast(subj)
    target = g.node_of(at, mod)
    head = "self.%s" % head_attr
    if norm(subj) == head:
        return []
    if depth == 0:
        sx = norm(subj)
        for p_ in mod.parents(at):
            if isinstance(p_, (ast.FunctionDef, ast.For, ast.While)):
                break
            # (the list node: self.uri, or a local copy of it - denotes_head)
            op = compared_with_head(g, mod, p_, sx, head_attr) if isinstance(p_, ast.If) else None
            if op is not None:
                in_body = any(at is x for s_ in p_.body for x in ast.walk(s_))
                side = p_.body if in_body else p_.orelse
                rebound = any(binds(a, sx) and getattr(a, "lineno", 0) < getattr(at, "lineno", 0) for s_ in side for a in ast.walk(s_) if isinstance(a, ast.stmt))
                if not rebound and ((isinstance(op, (ast.Eq, ast.Is)) and in_body) or (isinstance(op, (ast.NotEq, ast.IsNot)) and not in_body)):
                    return []
    if isinstance(subj, ast.Call) and isinstance(subj.func, ast.Attribute) and subj.func.attr == CELL_LOOKUP and len(subj.args) == 1 and not subj.keywords:
        k = subj.args[0]
        if isinstance(k, ast.Constant) and k.value == 0 and not isinstance(k.value, bool):
            return []
        if isinstance(k, ast.Name):
            if fact_on_every_path(g, target, k.id, atom_nonpositive(k.id)):
                return []
            return ["_get_container(%s) where %s > 0 is not excluded on every path" % (k.id, k.id)]
        return ["_get_container(%s): the index is not a plain name tested against 0" % norm(k)]
    if isinstance(subj, ast.Name):
        if depth > 4:
            return ["%s: definition chain too long to resolve" % subj.id]
        out: list[str] = []
        for d, val in _resolve(g, target, subj.id):
            if d == g.entry:
                out.append("%s holds its value from function entry" % subj.id)
            elif val is None:
                out.append("%s bound by `%s`" % (subj.id, norm(g.nodes[d].ast)[:60]))
            else:
                v = strip_cast(val)
                if isinstance(v, ast.Call) and isinstance(v.func, ast.Attribute) and v.func.attr == CELL_LOOKUP:
                    out += head_certain(g, mod, at, v, head_attr, depth + 1)
                elif is_rest_value_lookup(v):
                    out.append("%s is the rdf:rest of a cell (a successor cell)" % subj.id)
                else:
                    out += head_certain(g, mod, g.nodes[d].ast, v, head_attr, depth + 1)
        return out
    return ["%s: not the list node" % norm(subj)[:60]]


def nil_possible(g: CFG, mod, at: ast.AST, subj: ast.AST, depth: int = 0) -> list[str]:
    """Reasons why `subj` at the statement of `at` may be rdf:nil.  Empty = excluded: the value of _get_container (rule C19.g: it never
    hands out rdf:nil), a fresh BNode(), self.uri guarded elsewhere - or a plain name for which `!= rdf:nil` is established by a branch
    edge on every path since its last binding."""
    subj = strip_cast(subj)
    target = g.node_of(at, mod)
    if isinstance(subj, ast.Call) and isinstance(subj.func, ast.Attribute) and subj.func.attr == CELL_LOOKUP:
        return []
    if isinstance(subj, ast.Call) and isinstance(subj.func, ast.Name) and subj.func.id == "BNode":
        return []
    if is_nil(subj):
        return ["it is rdf:nil"]
    if isinstance(subj, ast.Name):
        if fact_on_every_path(g, target, subj.id, atom_not_nil(subj.id)):
            return []
        if depth > 4:
            return ["%s: definition chain too long to resolve" % subj.id]
        out: list[str] = []
        for d, val in _resolve(g, target, subj.id):
            if d == g.entry or val is None:
                out.append("%s is not compared with rdf:nil on every path to the removal" % subj.id)
            else:
                v = strip_cast(val)
                if is_rest_value_lookup(v) or (isinstance(v, ast.Attribute) and norm(v).startswith("self.")):
                    out.append("%s = %s is not compared with rdf:nil on every path to the removal" % (subj.id, norm(v)[:50]))
                else:
                    out += nil_possible(g, mod, g.nodes[d].ast, v, depth + 1)
        return out
    return ["%s: cannot tell it from rdf:nil" % norm(subj)[:60]]


# ------------------------------------------------------------------------------------------------ type checks that refuse a value
def _cls_names(e: ast.AST) -> set[str]:
    if isinstance(e, ast.Name):
        return {e.id}
    if isinstance(e, ast.Attribute):
        return {e.attr}
    if isinstance(e, ast.Tuple):
        out: set[str] = set()
        for x in e.elts:
            n = _cls_names(x)
            if not n:
                return set()
            out |= n
        return out
    return set()


def _conjuncts(t: ast.expr) -> Iterator[ast.expr]:
    if isinstance(t, ast.BoolOp) and isinstance(t.op, ast.And):
        for v in t.values:
            yield from _conjuncts(v)
    else:
        yield t


def isinstance_classes(c: ast.AST, vname: str) -> set[str]:
    """class names T of `isinstance(vname, T)` (empty when c is not that call)."""
    if isinstance(c, ast.Call) and isinstance(c.func, ast.Name) and c.func.id == "isinstance" and len(c.args) == 2 and isinstance(c.args[0], ast.Name) and c.args[0].id == vname:
        return _cls_names(c.args[1])
    return set()


def add_refusals(add_fn: ast.FunctionDef) -> dict[int, set[str]]:
    """position in the triple -> classes that `add` asserts the component to be an instance of (what it refuses otherwise)."""
    if len(add_fn.args.args) < 2:
        return {}
    param = add_fn.args.args[1].arg
    pos: dict[str, int] = {}
    for a in ast.walk(add_fn):
        if isinstance(a, ast.Assign) and isinstance(a.value, ast.Name) and a.value.id == param and isinstance(a.targets[0], (ast.Tuple, ast.List)):
            for i, e in enumerate(a.targets[0].elts):
                if isinstance(e, ast.Name):
                    pos[e.id] = i
    out: dict[int, set[str]] = {}
    for a in ast.walk(add_fn):
        if isinstance(a, ast.Assert):
            for c in _conjuncts(a.test):
                for name, i in pos.items():
                    cl = isinstance_classes(c, name)
                    if cl:
                        out.setdefault(i, set()).update(cl)
    return out


def validator_helpers(mod, classes: set[str]) -> set[str]:
    """module-level functions `def f(*terms): for t in terms: assert isinstance(t, <term class>)`."""
    out = set()
    for st in mod.tree.body:
        if isinstance(st, ast.FunctionDef) and st.args.vararg is not None:
            va = st.args.vararg.arg
            for lp in ast.walk(st):
                if isinstance(lp, ast.For) and isinstance(lp.iter, ast.Name) and lp.iter.id == va and isinstance(lp.target, ast.Name):
                    if any(isinstance(a, ast.Assert) and any(isinstance_classes(c, lp.target.id) and isinstance_classes(c, lp.target.id) <= classes for c in _conjuncts(a.test)) for a in ast.walk(lp)):
                        out.add(st.name)
    return out


def validation_nodes(g: CFG, fn: ast.AST, vname: str, classes: set[str], helpers: set[str]) -> set[int]:
    """CFG nodes after which the plain name vname is known to be an instance of one of `classes` (the function has raised otherwise):
    `assert isinstance(v, T)`, `if not isinstance(v, T): raise`, `helper(.., v, ..)`."""
    out: set[int] = set()
    stack = list(ast.iter_child_nodes(fn))
    while stack:
        st = stack.pop()
        if isinstance(st, (ast.FunctionDef, ast.AsyncFunctionDef, ast.ClassDef, ast.Lambda)):
            continue
        stack.extend(ast.iter_child_nodes(st))
        hit = False
        if isinstance(st, ast.Assert):
            hit = any(isinstance_classes(c, vname) and isinstance_classes(c, vname) <= classes for c in _conjuncts(st.test))
        elif isinstance(st, ast.If) and isinstance(st.test, ast.UnaryOp) and isinstance(st.test.op, ast.Not) and st.body and isinstance(st.body[-1], ast.Raise):
            cl = isinstance_classes(st.test.operand, vname)
            hit = bool(cl) and cl <= classes
        elif isinstance(st, ast.Expr) and isinstance(st.value, ast.Call) and isinstance(st.value.func, ast.Name) and st.value.func.id in helpers:
            hit = any(isinstance(a, ast.Name) and a.id == vname for a in st.value.args)
        if hit and id(st) in g.by_ast:
            out.add(g.by_ast[id(st)])
    return out


def validated_before(g: CFG, fn: ast.AST, target: int, vname: str, classes: set[str], helpers: set[str]) -> bool:
    """every path entry -> target passes a validation of vname, and vname is not re-bound between it and target."""
    vs = validation_nodes(g, fn, vname, classes, helpers)
    if not vs or not g.must_pass_before(target, vs):
        return False
    at_target = reaching_defs(g, target, vname)
    return all(reaching_defs(g, v, vname) >= at_target or not (g.reach(v) & {target}) for v in vs)


# ------------------------------------------------------------------------------------------------ raw (caller-supplied) values
def forward_no_back(g: CFG, src: int) -> set[int]:
    """nodes reachable from src without taking a loop back edge or an exception edge (= later in the same iteration)."""
    seen: set[int] = set()
    stack = [src]
    while stack:
        n = stack.pop()
        for m in g.succ[n]:
            if g.edge_label.get((n, m), "") in ("back", "exc") or m in seen:
                continue
            seen.add(m)
            stack.append(m)
    return seen


_SEQ_COPIES = {"list", "tuple", "iter", "reversed", "sorted", "set", "frozenset"}


def is_raw(g: CFG, at_id: int, e: ast.AST, raw_params: set[str], depth: int = 0) -> bool:
    """Is the value of e at CFG node at_id handed in by the caller as it is: a raw parameter, a copy of one
    (list(p) / tuple(p) / cast), or a member of one (`for x in p`)?  Names are resolved by reaching definitions."""
    e = strip_cast(e)
    if isinstance(e, ast.Starred):
        e = e.value
    if isinstance(e, ast.Call) and isinstance(e.func, ast.Name) and e.func.id in _SEQ_COPIES and e.args:
        return is_raw(g, at_id, e.args[0], raw_params, depth + 1)
    if isinstance(e, (ast.List, ast.Tuple)):
        return any(is_raw(g, at_id, x, raw_params, depth + 1) for x in e.elts)
    if not isinstance(e, ast.Name) or depth > 6:
        return False
    for d in reaching_defs(g, at_id, e.id):
        if d == g.entry:
            if e.id in raw_params:
                return True
            continue
        st = g.nodes[d].ast
        if isinstance(st, (ast.For, ast.AsyncFor)):
            if is_raw(g, d, st.iter, raw_params, depth + 1):
                return True
            continue
        val = assigned_value(st, e.id) if st is not None else None
        if val is not None and is_raw(g, d, val, raw_params, depth + 1):
            return True
    return False


# ================================================================================================ sixth pass: the same clauses, stated by value flow
# ------------------------------------------------------------------------------------------------ expressions that denote the list node
def head_is_bound_once(mod, at: ast.AST, head_attr: str = "uri") -> bool:
    """self.<head_attr> is bound by __init__ only: no other method of the class that `at` belongs to stores to it (or deletes
    it), so a local copy of it taken anywhere in a method is the list node for the rest of that method."""
    cls = at if isinstance(at, ast.ClassDef) else next((p for p in mod.parents(at) if isinstance(p, ast.ClassDef)), None)
    if cls is None:
        return False
    for st in cls.body:
        if isinstance(st, (ast.FunctionDef, ast.AsyncFunctionDef)) and st.name != "__init__":
            for n in ast.walk(st):
                if isinstance(n, ast.Attribute) and n.attr == head_attr and isinstance(n.ctx, (ast.Store, ast.Del)):
                    return False
                if isinstance(n, ast.Call) and isinstance(n.func, ast.Name) and n.func.id in ("setattr", "delattr"):
                    return False
    return True


def denotes_head(g: CFG, mod, at_id: int, e: ast.AST, head_attr: str = "uri", stable: Optional[bool] = None, depth: int = 0) -> bool:
    """Is the value of e, evaluated at CFG node at_id, certainly the list node: self.<head_attr> itself, or a plain name whose
    every reaching definition binds it to such an expression (a local copy, `head = self.uri`), self.<head_attr> being bound
    by __init__ only."""
    e = strip_cast(e)
    if isinstance(e, ast.Attribute) and isinstance(e.value, ast.Name) and e.value.id == "self" and e.attr == head_attr:
        return True
    if not isinstance(e, ast.Name) or depth > 4:
        return False
    if stable is None:
        st0 = g.nodes[at_id].ast
        stable = st0 is not None and head_is_bound_once(mod, st0, head_attr)
    if not stable:
        return False
    defs = _resolve(g, at_id, e.id)
    return bool(defs) and all(d != g.entry and val is not None and denotes_head(g, mod, d, val, head_attr, stable, depth + 1) for d, val in defs)


def compared_with_head(g: CFG, mod, test_stmt: ast.AST, subject_text: str, head_attr: str = "uri") -> Optional[ast.AST]:
    """`<subject> <op> <the list node>` (either order) as the whole test of an if: the operator, or None."""
    t = getattr(test_stmt, "test", None)
    if not (isinstance(t, ast.Compare) and len(t.ops) == 1):
        return None
    l, r = t.left, t.comparators[0]
    other = r if norm(l) == subject_text else (l if norm(r) == subject_text else None)
    if other is None or id(test_stmt) not in g.by_ast:
        return None
    return t.ops[0] if denotes_head(g, mod, g.by_ast[id(test_stmt)], other, head_attr) else None


# ------------------------------------------------------------------------------------------------ which cell does a write fill?
def _is_first(e: ast.AST) -> bool:
    return (isinstance(e, ast.Attribute) and e.attr == "first") or (isinstance(e, ast.Subscript) and isinstance(e.slice, ast.Constant) and e.slice.value == "first")


def is_new_bnode(e: ast.AST) -> bool:
    return isinstance(e, ast.Call) and isinstance(e.func, ast.Name) and e.func.id == "BNode"


def defs_in_pass(g: CFG, start: int, target: int, var: str) -> set[int]:
    """CFG nodes whose binding of the plain name `var` can be the last one executed on a path start -> target that stays within one
    pass of the scope that `start` heads (start = function entry: the whole call; start = the head of a loop: one round of it - the
    back edges into `start` are not taken).  `start` itself stands for `the value var has when the pass begins`, unless the head
    binds var (a for-target).  Exception edges are not followed."""
    from .cfg import _assigned_names

    init = (start, start)
    seen = {init}
    stack = [init]
    out: set[int] = set()
    while stack:
        nid, last = stack.pop()
        if nid == target:
            out.add(last)
        node = g.nodes[nid]
        st = node.ast
        nlast = last
        if st is not None:
            if node.kind == "test":
                if var in {n.target.id for n in ast.walk(st.test) if isinstance(n, ast.NamedExpr) and isinstance(n.target, ast.Name)}:
                    nlast = nid
            elif var in _assigned_names(st):
                nlast = nid
        for m in g.succ[nid]:
            lab = g.edge_label.get((nid, m), "")
            if lab == "exc" or (m == start and start != g.entry):
                continue
            s2 = (m, nlast)
            if s2 not in seen:
                seen.add(s2)
                stack.append(s2)
    return out


def value_roots(g: CFG, start: int, at_id: int, e: ast.AST, _seen: Optional[set] = None) -> set[tuple]:
    """What the value of e, evaluated at CFG node at_id, can be - copies (x = y), casts and both arms of a conditional expression are
    followed by the definitions that reach within the pass that `start` heads (defs_in_pass):
      ("fresh",)            a node made in this pass, BNode(...)
      ("root", name, d)     the plain name `name` as bound at CFG node d by something that is not a copy (a call, a loop target ...);
                            d = start: the value the name has when the pass begins (a parameter, what the last round left)
      ("expr", text)        any other expression, by its text."""
    seen = _seen if _seen is not None else set()
    e = strip_cast(e)
    if isinstance(e, ast.NamedExpr):
        return value_roots(g, start, at_id, e.value, seen)
    if isinstance(e, ast.IfExp):
        return value_roots(g, start, at_id, e.body, seen) | value_roots(g, start, at_id, e.orelse, seen)
    if is_new_bnode(e):
        return {("fresh",)}
    if isinstance(e, ast.Name):
        if (e.id, at_id) in seen:
            return set()  # a cycle of copies (through an inner loop) adds no value of its own
        seen.add((e.id, at_id))
        out: set[tuple] = set()
        for d in defs_in_pass(g, start, at_id, e.id):
            st = g.nodes[d].ast
            val = assigned_value(st, e.id) if (st is not None and not (d == start and not binds(st, e.id))) else None
            v = strip_cast(val) if val is not None else None
            if v is not None and (isinstance(v, (ast.Name, ast.IfExp, ast.NamedExpr)) or is_new_bnode(v)):
                out |= value_roots(g, start, d, v, seen)
            else:
                out.add(("root", e.id, d))
        return out
    return {("expr", norm(e))}


def occupancy_reads(g: CFG, mod, scope: ast.AST, start: int) -> list[tuple[int, set[tuple], set[int]]]:
    """(CFG node of the read, what the cell asked about can be, CFG nodes of the branch conditions its outcome decides) for every
    `(cell, rdf:first, ..) in <graph>` / `not in` evaluated inside `scope` (whose pass begins at CFG node `start`).  The outcome decides
    a branch when the comparison sits in the test of an if / while / conditional expression, or is bound to a plain name that such a
    test reads, that binding being the only one that reaches the test within the pass."""
    tests: list[tuple[ast.AST, int]] = []  # (test expression, CFG node that evaluates it)
    for n in ast.walk(scope):
        if isinstance(n, (ast.If, ast.While, ast.IfExp)):
            try:
                tests.append((n.test, g.node_of(n.test, mod)))
            except Exception:
                continue
    out = []
    for c in ast.walk(scope):
        if not (isinstance(c, ast.Compare) and len(c.ops) == 1 and isinstance(c.ops[0], (ast.In, ast.NotIn)) and isinstance(c.left, ast.Tuple)
                and len(c.left.elts) == 3 and _is_first(c.left.elts[1])):
            continue
        try:
            cid = g.node_of(c, mod)
        except Exception:
            continue
        decides: set[int] = set()
        for t, tid in tests:
            if any(x is c for x in ast.walk(t)):
                decides.add(tid)
        st = g.nodes[cid].ast
        flag = None
        if isinstance(st, ast.Assign) and len(st.targets) == 1 and isinstance(st.targets[0], ast.Name):
            flag = st.targets[0].id
        elif isinstance(st, ast.AnnAssign) and isinstance(st.target, ast.Name) and st.value is not None:
            flag = st.target.id
        if flag is not None and any(x is c for x in ast.walk(st.value)):
            for t, tid in tests:
                if any(isinstance(x, ast.Name) and x.id == flag and isinstance(x.ctx, ast.Load) for x in ast.walk(t)) and defs_in_pass(g, start, tid, flag) == {cid}:
                    decides.add(tid)
        out.append((cid, value_roots(g, start, cid, c.left.elts[0]), decides))
    return out


def dominated_in_scope(g: CFG, scope_start: int, target: int, through: int) -> bool:
    """every path from the start of the scope (function entry / loop head) to `target` passes `through`."""
    if through in (scope_start, target):
        return True
    return target not in g.reach(scope_start, avoid={through})


# ------------------------------------------------------------------------------------------------ the successor is read before the link goes
def _own_exprs(st: Optional[ast.AST]) -> list[ast.AST]:
    """the part of a CFG statement that its own node evaluates (heads of compound statements: not their bodies)"""
    if st is None:
        return []
    if isinstance(st, (ast.If, ast.While)):
        return [st.test]
    if isinstance(st, (ast.For, ast.AsyncFor)):
        return [st.iter]
    if isinstance(st, (ast.With, ast.AsyncWith)):
        return [i.context_expr for i in st.items]
    if isinstance(st, (ast.FunctionDef, ast.AsyncFunctionDef, ast.ClassDef, ast.Try)):
        return []
    return [st]


_GRAPH_WRITERS = {"add", "addN", "set", "remove", "discard", "__iadd__", "__isub__"}


def reads_successor_of(e: ast.AST, cell: str) -> bool:
    """Does evaluating e ask the graph for the rdf:rest of the plain name `cell`: a call that is handed cell and rdf:rest (value / objects /
    triples / any reader - not a call that writes: add, set, remove), a walk of the list from it (items(cell)), or a membership test
    `(cell, rdf:rest, ..) in <graph>`?"""
    def is_cell(a: ast.AST) -> bool:
        a = strip_cast(a)
        return isinstance(a, ast.Name) and a.id == cell

    for c in ast.walk(e):
        if isinstance(c, ast.Call):
            attr = c.func.attr if isinstance(c.func, ast.Attribute) else None
            if attr in _GRAPH_WRITERS:
                continue
            flat: list[ast.AST] = []
            for a in list(c.args) + [k.value for k in c.keywords]:
                flat.extend(a.elts if isinstance(a, ast.Tuple) else [a])
            if any(is_cell(a) for a in flat) and (any(loops._is_rest(a) for a in flat) or attr == "items"):
                return True
        elif isinstance(c, ast.Compare) and len(c.ops) == 1 and isinstance(c.ops[0], (ast.In, ast.NotIn)) and isinstance(c.left, ast.Tuple) \
                and len(c.left.elts) == 3 and is_cell(c.left.elts[0]) and loops._is_rest(c.left.elts[1]):
            return True
    return False


def successor_read_after_unlink(g: CFG, removal_id: int, cell: str) -> Optional[ast.AST]:
    """A statement that looks up the rdf:rest of the plain name `cell` later in the same pass (no loop back edge taken) than the
    CFG node removal_id, `cell` not being re-bound in between: the statement, else None.  (The lookup in `cell = value(cell, rest)`
    is evaluated before the name is re-bound: it counts.)"""
    seen: set[int] = set()
    stack = [m for m in g.succ[removal_id] if g.edge_label.get((removal_id, m), "") not in ("back", "exc")]
    while stack:
        n = stack.pop()
        if n in seen:
            continue
        seen.add(n)
        st = g.nodes[n].ast
        if any(reads_successor_of(e, cell) for e in _own_exprs(st)):
            return st
        if binds(st, cell):
            continue
        stack.extend(m for m in g.succ[n] if g.edge_label.get((n, m), "") not in ("back", "exc"))
    return None


# ================================================================================================ seventh pass: walks and facts by role
# ------------------------------------------------------------------------------------------------ rdf:rest walks, in any loop form
def _loop_bindings(loop: ast.AST) -> list[tuple[ast.AST, str, ast.AST]]:
    """(statement / walrus, plain name bound, bound expression) for every binding of a plain name inside the loop."""
    return list(_loop_assigns(loop))


def link_walks(fn: ast.AST) -> Iterator[tuple[ast.AST, str]]:
    """(loop, cursor) for every loop of fn - `while` or `for`, whatever drives it - in whose body a plain name, the cursor, is
    re-bound from a lookup of its OWN rdf:rest: directly (cur = value(cur, rest)) or through one temporary
    (tmp = objects(cur, rest) ... cur = tmp[0]).  loops.link_walk_loops, with the kind of loop left open: what makes a walk a walk
    is the def-use cycle cursor -> rdf:rest lookup -> cursor, not the keyword."""
    from .core import own_nodes

    for n in own_nodes(fn, include_nested=False):
        if not isinstance(n, (ast.While, ast.For, ast.AsyncFor)):
            continue
        bnd = _loop_bindings(n)
        cursors: set[str] = set()
        for _a, tgt, val in bnd:
            if loops._rest_lookup_of(val, tgt):
                cursors.add(tgt)
        for _a, tmp, val in bnd:
            for _b, cur, bval in bnd:
                if cur != tmp and tmp in loops.names(bval, ast.Load) and loops._rest_lookup_of(val, cur):
                    cursors.add(cur)
        for c in sorted(cursors):
            yield n, c


_FINITE_WRAPPERS = {"enumerate", "reversed", "zip", "list", "tuple", "sorted"}


def finite_iteration(loop: ast.AST) -> Optional[str]:
    """A `for` over something that ends by itself whatever the graph holds: range(..) (also inside enumerate / reversed / zip, zip
    ending with its shortest argument), or a display.  Anything else (itertools.count(), a generator, iter(f, sentinel) ...) is not
    taken to end."""
    if not isinstance(loop, (ast.For, ast.AsyncFor)):
        return None

    def finite(e: ast.AST, depth: int = 0) -> bool:
        if isinstance(e, (ast.List, ast.Tuple, ast.Set, ast.Dict, ast.Constant)):
            return True
        if isinstance(e, ast.Call) and isinstance(e.func, ast.Name) and not e.keywords and depth < 4:
            if e.func.id == "range" and 1 <= len(e.args) <= 3:
                return True
            if e.func.id == "zip":
                return any(finite(a, depth + 1) for a in e.args)
            if e.func.id in _FINITE_WRAPPERS and e.args:
                return finite(e.args[0], depth + 1)
        return False

    return "for .. in %s: the number of rounds is fixed before the walk starts" % norm(loop.iter)[:40] if finite(loop.iter) else None


# ------------------------------------------------------------------------------------------------ a visited-set kept by an object
def _package_class(repo, mod, name: str) -> Optional[tuple[object, ast.ClassDef]]:
    """The class of the package that the plain name `name` denotes in module `mod`: defined at the top of mod, or bound by
    `from <module of the package> import name [as ..]`.  (module, ClassDef) or None."""
    for st in mod.tree.body:
        if isinstance(st, ast.ClassDef) and st.name == name:
            return mod, st
    for st in ast.walk(mod.tree):
        if isinstance(st, ast.ImportFrom) and st.module:
            for a in st.names:
                if (a.asname or a.name) == name:
                    src = st.module
                    if st.level:
                        base = mod.name.split(".")
                        base = base[: len(base) - st.level] if not mod.path.name == "__init__.py" else base[: len(base) - st.level + 1]
                        src = ".".join(base + [st.module])
                    try:
                        m2 = repo.modules[src]
                    except KeyError:
                        return None
                    for s2 in m2.tree.body:
                        if isinstance(s2, ast.ClassDef) and s2.name == a.name:
                            return m2, s2
                    return None
    return None


_SET_SHRINKERS = {"remove", "discard", "clear", "pop", "difference_update", "intersection_update", "symmetric_difference_update", "__init__"}


def visit_or_raise_summary(cls: ast.ClassDef, mname: str) -> Optional[tuple[int, str]]:
    """Is method `mname` of class cls `record this value, raise if it was recorded before`?  (position of the value among the call's
    arguments, name of the attribute that holds the record) when, p being a parameter and A an attribute of self:
      * `if p in self.A:` (the whole test) with a body that ends in `raise`, and `self.A.add(p)` / `.append(p)`,
      * every path to the normal exit passes that test and that add, p not being re-bound,
      * self.A is bound in __init__ to a fresh collection (display / set() / list() ...), bound nowhere else in the class, and no
        method of the class takes anything out of it.
    What a caller of it knows: a normal return means the value was not in the record and now is."""
    meths = {s.name: s for s in cls.body if isinstance(s, (ast.FunctionDef, ast.AsyncFunctionDef))}
    f = meths.get(mname)
    if f is None or f.decorator_list or len(f.args.args) < 2 or f.args.vararg or f.args.kwarg or cls.bases or cls.keywords:
        return None
    me = f.args.args[0].arg
    params = [a.arg for a in f.args.args[1:]]
    g = CFG(f)
    for t in ast.walk(f):
        if not (isinstance(t, ast.If) and isinstance(t.test, ast.Compare) and len(t.test.ops) == 1 and isinstance(t.test.ops[0], ast.In)
                and isinstance(t.test.left, ast.Name) and t.test.left.id in params and t.body and isinstance(t.body[-1], ast.Raise)):
            continue
        p = t.test.left.id
        rec = t.test.comparators[0]
        if not (isinstance(rec, ast.Attribute) and isinstance(rec.value, ast.Name) and rec.value.id == me):
            continue
        attr = rec.attr
        if any(binds(s, p) for s in ast.walk(f) if isinstance(s, ast.stmt)):
            continue
        adds = [s for s in ast.walk(f) if isinstance(s, ast.Expr) and isinstance(s.value, ast.Call) and isinstance(s.value.func, ast.Attribute)
                and s.value.func.attr in ("add", "append") and norm(s.value.func.value) == norm(rec) and len(s.value.args) == 1
                and isinstance(s.value.args[0], ast.Name) and s.value.args[0].id == p]
        if not adds or id(t) not in g.by_ast:
            continue
        if not (g.must_pass_before(g.exit, {g.by_ast[id(t)]}) and g.must_pass_before(g.exit, {g.by_ast[id(a)] for a in adds if id(a) in g.by_ast})):
            continue
        # the record: made fresh by __init__, only grown afterwards
        init = meths.get("__init__")
        if init is None:
            continue
        fresh = False
        sound = True
        for mn, mf in meths.items():
            selfname = mf.args.args[0].arg if mf.args.args else None
            for n in ast.walk(mf):
                if isinstance(n, ast.Attribute) and n.attr == attr and isinstance(n.ctx, (ast.Store, ast.Del)):
                    if mn != "__init__":
                        sound = False
                if isinstance(n, ast.Call) and isinstance(n.func, ast.Attribute) and n.func.attr in _SET_SHRINKERS and isinstance(n.func.value, ast.Attribute) \
                        and n.func.value.attr == attr:
                    sound = False
                if isinstance(n, ast.Call) and isinstance(n.func, ast.Name) and n.func.id in ("setattr", "delattr"):
                    sound = False
            if mn == "__init__":
                for n in ast.walk(mf):
                    val = None
                    if isinstance(n, ast.Assign) and any(isinstance(x, ast.Attribute) and x.attr == attr and norm(x.value) == selfname for x in n.targets):
                        val = n.value
                    elif isinstance(n, ast.AnnAssign) and isinstance(n.target, ast.Attribute) and n.target.attr == attr and norm(n.target.value) == selfname:
                        val = n.value
                    if val is not None:
                        fresh = isinstance(val, (ast.Set, ast.List, ast.SetComp, ast.ListComp)) or (
                            isinstance(val, ast.Call) and isinstance(val.func, ast.Name) and val.func.id in ("set", "list"))
        if fresh and sound:
            return params.index(p), attr
    return None


def visit_calls(repo, mod, fn: ast.AST, loop: ast.AST, cells: set[str]) -> list[tuple[ast.stmt, str]]:
    """Statements `R.m(x)` of the loop that record the cell x (a name of `cells`) in a visited-set kept by the object R and raise when
    it is there already: R is a plain name that fn binds, outside the loop only, to `K(..)`, K a class of the package (found through
    the imports of the module), and m is a visit-or-raise method of K (visit_or_raise_summary).  -> (statement, description)"""
    from .core import own_nodes

    out = []
    for st in ast.walk(loop):
        if not (isinstance(st, ast.Expr) and isinstance(st.value, ast.Call) and isinstance(st.value.func, ast.Attribute) and isinstance(st.value.func.value, ast.Name)):
            continue
        call = st.value
        recv = call.func.value.id
        if call.keywords or any(isinstance(a, ast.Starred) for a in call.args):
            continue
        bindings = [n for n in own_nodes(fn) if isinstance(n, ast.stmt) and binds(n, recv)]
        if not bindings or any(any(b is x for x in ast.walk(loop)) for b in bindings):
            continue  # a record made anew inside the loop remembers nothing
        klass = None
        for b in bindings:
            v = assigned_value(b, recv)
            v = strip_cast(v) if v is not None else None
            k = _package_class(repo, mod, v.func.id) if (isinstance(v, ast.Call) and isinstance(v.func, ast.Name)) else None
            if k is None or (klass is not None and k[1] is not klass[1]):
                klass = None
                break
            klass = k
        if klass is None:
            continue
        summ = visit_or_raise_summary(klass[1], call.func.attr)
        if summ is None:
            continue
        pos, attr = summ
        if pos < len(call.args) and isinstance(strip_cast(call.args[pos]), ast.Name) and strip_cast(call.args[pos]).id in cells:
            out.append((st, "%s.%s(%s) [%s.%s: raises when the cell is in self.%s, else adds it]" % (recv, call.func.attr, norm(call.args[pos]), klass[1].name, call.func.attr, attr)))
    return out


def walk_cells(loop: ast.AST, cursor: str) -> set[str]:
    """the cursor and the temporaries that hold its rdf:rest before the cursor is advanced to them"""
    temps = {cursor}
    for _a, tgt, val in _loop_assigns(loop):
        if tgt != cursor and loops._rest_lookup_of(val, cursor):
            temps.add(tgt)
    return temps


def walk_terminates(repo, mod, fn: ast.AST, loop: ast.AST, cursor: str) -> Optional[str]:
    """Why the walk ends on a cyclic chain: a counter in the loop test / a `for` over a fixed number of rounds, a visited-set whose
    membership test leaves the loop (written out, or kept by an object of a package class), or removal of the link followed."""
    why = (loops._counter_bound(loop) if isinstance(loop, ast.While) else finite_iteration(loop)) or loops._visited_guard(loop, cursor, fn)
    if why:
        return why
    vc = visit_calls(repo, mod, fn, loop, walk_cells(loop, cursor))
    if vc:
        return "visited-set kept by an object: %s" % vc[0][1]
    return loops._removes_link(loop, cursor)


# ------------------------------------------------------------------------------------------------ facts about a cell, as branch atoms
def _none(e: ast.AST) -> bool:
    return isinstance(e, ast.Constant) and e.value is None


def atom_none_or_nil(var: str) -> Callable[[ast.AST], Optional[bool]]:
    """the fact `var is None or var == rdf:nil` (there is no successor cell)"""
    def atom(c: ast.AST) -> Optional[bool]:
        if not (isinstance(c, ast.Compare) and len(c.ops) == 1):
            return None
        l, op, r = c.left, c.ops[0], c.comparators[0]
        other = r if (isinstance(l, ast.Name) and l.id == var) else (l if (isinstance(r, ast.Name) and r.id == var) else None)
        if other is None or not (_none(other) or is_nil(other)):
            return None
        if isinstance(op, (ast.Eq, ast.Is)):
            return True
        if isinstance(op, (ast.NotEq, ast.IsNot)):
            return False
        return None
    return atom


def atom_not_none(var: str) -> Callable[[ast.AST], Optional[bool]]:
    def atom(c: ast.AST) -> Optional[bool]:
        if not (isinstance(c, ast.Compare) and len(c.ops) == 1):
            return None
        l, op, r = c.left, c.ops[0], c.comparators[0]
        other = r if (isinstance(l, ast.Name) and l.id == var) else (l if (isinstance(r, ast.Name) and r.id == var) else None)
        if other is None or not _none(other):
            return None
        if isinstance(op, (ast.NotEq, ast.IsNot)):
            return True
        if isinstance(op, (ast.Eq, ast.Is)):
            return False
        return None
    return atom


def atom_holds_member(var: str) -> Callable[[ast.AST], Optional[bool]]:
    """the fact `(var, rdf:first, ..) in <graph>`: the cell holds a member"""
    def atom(c: ast.AST) -> Optional[bool]:
        if not (isinstance(c, ast.Compare) and len(c.ops) == 1 and isinstance(c.left, ast.Tuple) and len(c.left.elts) == 3):
            return None
        s = strip_cast(c.left.elts[0])
        if not (isinstance(s, ast.Name) and s.id == var and _is_first(c.left.elts[1])):
            return None
        if isinstance(c.ops[0], ast.In):
            return True
        if isinstance(c.ops[0], ast.NotIn):
            return False
        return None
    return atom


def rest_lookup_subject(e: ast.AST) -> Optional[ast.AST]:
    """x of `<g>.value(x, RDF.rest)` (positional or keywords), else None"""
    e = strip_cast(e)
    if not is_rest_value_lookup(e):
        return None
    assert isinstance(e, ast.Call)
    return e.args[0] if e.args else next((k.value for k in e.keywords if k.arg == "subject"), None)


def successor_names(g: CFG, at_id: int, fn: ast.AST, cell_text: str) -> set[str]:
    """plain names every definition of which that reaches at_id is `<g>.value(<cell>, rdf:rest)`: the successor of the cell"""
    from .core import own_nodes

    cands = set()
    for a in own_nodes(fn):
        if isinstance(a, (ast.Assign, ast.AnnAssign)) and a.value is not None:
            s = rest_lookup_subject(a.value)
            if s is not None and norm(strip_cast(s)) == cell_text:
                for t in (a.targets if isinstance(a, ast.Assign) else [a.target]):
                    if isinstance(t, ast.Name):
                        cands.add(t.id)
    out = set()
    for nm in cands:
        defs = _resolve(g, at_id, nm)
        if defs and all(val is not None and rest_lookup_subject(val) is not None and norm(strip_cast(rest_lookup_subject(val))) == cell_text for _d, val in defs):
            out.add(nm)
    return out


def loop_head_text(loop: ast.AST) -> str:
    if isinstance(loop, ast.While):
        return "while %s" % norm(loop.test)
    return "for %s in %s" % (norm(loop.target), norm(loop.iter)[:60])  # type: ignore[attr-defined]


def walk_reached_from(methods: dict, entry: str) -> list[str]:
    """methods of the class (entry itself included) that hold an rdf:rest walk and that `entry` reaches through calls on self
    (self.m(..), `for x in self`, len(self), self[..], `self += ..` - the dunder methods they stand for)"""
    from .core import own_nodes

    seen: set[str] = set()
    stack = [entry]
    out = []
    while stack:
        m = stack.pop()
        if m in seen or m not in methods:
            continue
        seen.add(m)
        f = methods[m]
        if any(True for _ in link_walks(f)):
            out.append(m)
        for c in own_nodes(f):
            if isinstance(c, ast.Call) and isinstance(c.func, ast.Attribute) and isinstance(c.func.value, ast.Name) and c.func.value.id == "self":
                stack.append(c.func.attr)
            elif isinstance(c, ast.Call) and isinstance(c.func, ast.Name) and c.func.id == "len" and c.args and norm(c.args[0]) == "self":
                stack.append("__len__")
            elif isinstance(c, (ast.For, ast.comprehension)) and norm(c.iter) == "self":
                stack.append("__iter__")
            elif isinstance(c, ast.Subscript) and norm(c.value) == "self":
                stack.append({ast.Load: "__getitem__", ast.Store: "__setitem__", ast.Del: "__delitem__"}[type(c.ctx)])
            elif isinstance(c, ast.AugAssign) and norm(c.target) == "self" and isinstance(c.op, ast.Add):
                stack.append("__iadd__")
    return sorted(out)


def cell_lookup_method(methods: dict) -> Optional[str]:
    """The private method of the list class that maps an index to its cell, by role: the method that the public __getitem__ calls on
    self with its own index parameter (and nothing else), that returns a value, and that finds that value by an rdf:rest walk (its own
    or one it reaches through self).  None when __getitem__ does not work that way."""
    from .core import own_nodes

    f = methods.get("__getitem__")
    if f is None or len(f.args.args) < 2:
        return None
    key = f.args.args[1].arg
    for c in sorted((c for c in own_nodes(f) if isinstance(c, ast.Call)), key=lambda c: (c.lineno, c.col_offset)):
        if isinstance(c.func, ast.Attribute) and isinstance(c.func.value, ast.Name) and c.func.value.id == "self" and c.func.attr in methods \
                and len(c.args) == 1 and not c.keywords and isinstance(strip_cast(c.args[0]), ast.Name) and strip_cast(c.args[0]).id == key:
            h = methods[c.func.attr]
            valued = any(isinstance(r, ast.Return) and r.value is not None and not _none(r.value) for r in own_nodes(h))
            if valued and walk_reached_from(methods, c.func.attr):
                return c.func.attr
    return None


# ------------------------------------------------------------------------------------------------ third wave: a method applied by a higher-order callable
# `for x in xs: acc = self.m(acc, x)` and `functools.reduce(self.m, xs, acc)` are the same calls of m: one per element of xs, the first argument what the
# previous call returned (the initial value at first), the second the element.  A rule that asks "which method of the class does this function hand its items
# to / change the graph through" has to see the bound method in argument position as that call.  Only callables that apply their function argument EAGERLY,
# once per element, are read this way (a lazy map()/accumulate() applies nothing until it is consumed: it counts when an eager consumer is wrapped round it).
class Application:
    """node: the call expression that performs the applications; name: the method of the class applied; over: the iterable it is applied to once per
    element; args: the positional arguments of one application, an element of `over` being stood for by `over` itself (the rules ask of an argument
    only whether it is caller-supplied, and a member of a caller-supplied sequence is)"""

    def __init__(self, node: ast.Call, name: str, over: ast.expr, args: list[ast.expr]):
        self.node, self.name, self.over, self.args = node, name, over, args


_EAGER_CONSUMERS = {"list", "tuple", "set", "frozenset", "sorted", "sum", "min", "max", "dict", "deque", "collections.deque"}


def _stdlib_names(tree: ast.AST) -> dict[str, str]:
    """local name -> dotted stdlib name, for what the module imports of functools / itertools / collections"""
    out: dict[str, str] = {}
    for n in ast.walk(tree):
        if isinstance(n, ast.Import):
            for a in n.names:
                if a.name in ("functools", "itertools", "collections"):
                    out[a.asname or a.name] = a.name
        elif isinstance(n, ast.ImportFrom) and n.module in ("functools", "itertools", "collections") and not n.level:
            for a in n.names:
                out[a.asname or a.name] = "%s.%s" % (n.module, a.name)
    return out


def _bound_method(e: ast.AST, methods: dict) -> Optional[str]:
    e = strip_cast(e)
    if isinstance(e, ast.Attribute) and isinstance(e.value, ast.Name) and e.value.id == "self" and e.attr in methods:
        return e.attr
    return None


def applications(mod, fn: ast.AST, methods: dict) -> list[Application]:
    """Applications, by a higher-order callable of the standard library, of a method of the class bound to self, in fn's own statements."""
    from .core import own_nodes

    names = _stdlib_names(mod.tree)

    def dotted(f: ast.AST) -> Optional[str]:
        if isinstance(f, ast.Name):
            return names.get(f.id, f.id if f.id in ("map",) else None)
        if isinstance(f, ast.Attribute) and isinstance(f.value, ast.Name) and f.value.id in names:
            return "%s.%s" % (names[f.value.id], f.attr)
        return None

    out = []
    own = list(own_nodes(fn))
    for c in own:
        if not isinstance(c, ast.Call) or any(isinstance(a, ast.Starred) for a in c.args):
            continue
        d = dotted(c.func)
        kw = {k.arg: k.value for k in c.keywords if k.arg}
        if d == "functools.reduce" and len(c.args) >= 2:
            m = _bound_method(c.args[0], methods)
            if m is not None:
                init = c.args[2] if len(c.args) > 2 else kw.get("initial", c.args[1])
                out.append(Application(c, m, c.args[1], [init, c.args[1]]))
        elif d in _EAGER_CONSUMERS | {"collections.deque"} or (isinstance(c.func, ast.Name) and c.func.id in _EAGER_CONSUMERS):
            # an eager consumer round a lazy map(self.m, xs) / itertools.accumulate(xs, self.m[, initial=..])
            inner = c.args[0] if c.args else None
            if isinstance(inner, ast.Call) and not any(isinstance(a, ast.Starred) for a in inner.args):
                di = dotted(inner.func)
                if di == "map" and len(inner.args) >= 2:
                    m = _bound_method(inner.args[0], methods)
                    if m is not None:
                        out.append(Application(c, m, inner.args[1], list(inner.args[1:])))
                elif di == "itertools.accumulate" and inner.args:
                    ikw = {k.arg: k.value for k in inner.keywords if k.arg}
                    fe = inner.args[1] if len(inner.args) > 1 else ikw.get("func")
                    m = _bound_method(fe, methods) if fe is not None else None
                    if m is not None:
                        out.append(Application(c, m, inner.args[0], [ikw.get("initial", inner.args[0]), inner.args[0]]))
    return out


def method_uses(mod, fn: ast.AST, methods: dict) -> list[tuple[ast.Call, str, Optional[ast.expr], list[ast.expr]]]:
    """Every use fn's own statements make of a method of the class through self: (call node, method, the iterable the method is applied over once per
    element or None for a plain call, positional arguments).  A plain `self.m(a, b)` and an application by a higher-order callable alike."""
    from .core import own_nodes

    out: list[tuple[ast.Call, str, Optional[ast.expr], list[ast.expr]]] = []
    for c in own_nodes(fn):
        if isinstance(c, ast.Call):
            m = _bound_method(c.func, methods)
            if m is not None:
                out.append((c, m, None, list(c.args)))
    for a in applications(mod, fn, methods):
        out.append((a.node, a.name, a.over, a.args))
    out.sort(key=lambda t: (t[0].lineno, t[0].col_offset))
    return out


# ------------------------------------------------------------------------------------------------ a `for` that cannot run out of items
def endless_for(mod, loop: ast.AST) -> bool:
    """Is `loop` a for over an iterator of the standard library that never ends (itertools.count(..), itertools.repeat(x) without a number of times,
    itertools.cycle of a non-empty display)?  Such a loop is a `while True` with a counter: it is left by return / raise / break only, the edge
    "the items have run out" is never taken."""
    if not isinstance(loop, (ast.For, ast.AsyncFor)):
        return False
    it = strip_cast(loop.iter)
    if not isinstance(it, ast.Call) or any(isinstance(a, ast.Starred) for a in it.args) or any(k.arg is None for k in it.keywords):
        return False
    names = _stdlib_names(mod.tree)
    f = it.func
    d = names.get(f.id) if isinstance(f, ast.Name) else ("%s.%s" % (names[f.value.id], f.attr) if isinstance(f, ast.Attribute) and isinstance(f.value, ast.Name) and f.value.id in names else None)
    kws = {k.arg for k in it.keywords}
    if d == "itertools.count":
        return True
    if d == "itertools.repeat":
        return len(it.args) == 1 and "times" not in kws
    if d == "itertools.cycle":
        return len(it.args) == 1 and isinstance(it.args[0], (ast.List, ast.Tuple, ast.Set)) and bool(it.args[0].elts) and not any(isinstance(e, ast.Starred) for e in it.args[0].elts)
    return False


def reachable_without_exhaustion(g: CFG, mod) -> set[int]:
    """CFG nodes reachable from the entry when the "items have run out" edge of every endless for loop is left out (the edges out of the loop head other
    than the one into the body and the may-raise edges) - as the CFG itself leaves out the exit of `while True`."""
    endless = {nd.id for nd in g.nodes if nd.kind == "iter" and endless_for(mod, nd.ast)}
    seen = {g.entry}
    stack = [g.entry]
    while stack:
        n = stack.pop()
        for x in g.succ[n]:
            if n in endless and g.edge_label.get((n, x)) not in ("true", "exc"):
                continue
            if x not in seen:
                seen.add(x)
                stack.append(x)
    return seen


# ------------------------------------------------------------------------------------------------ what a return statement can return, and under which tests
def returned_alternatives(e: ast.AST, conds: tuple = ()) -> list[tuple[ast.AST, tuple]]:
    """`return a if t else b` is `if t: return a / else: return b`: the values a return expression can evaluate to, each with the (test, outcome)
    pairs of the conditional expressions that select it (nested ones in order).  Casts are looked through."""
    e = strip_cast(e)
    if isinstance(e, ast.IfExp):
        return returned_alternatives(e.body, conds + ((e.test, True),)) + returned_alternatives(e.orelse, conds + ((e.test, False),))
    return [(e, conds)]


def never_nil_at_return(g: CFG, mod, ret: ast.Return, value: ast.AST, conds: tuple) -> Optional[bool]:
    """Is the returned `value` (a plain name) known not to be rdf:nil where `ret` returns it: `name != rdf:nil` established by the outcome of a
    conditional expression that selects this value, or by a branch edge on every path to the return with no re-binding since (an if / guard clause /
    else arm / loop test, either polarity, De Morgan forms).  None when the value is not a plain name (the caller decides)."""
    if not isinstance(value, ast.Name):
        return None
    atom = atom_not_nil(value.id)
    if any(edge_establishes(t, taken, atom) for t, taken in conds):
        return True
    return fact_on_every_path(g, g.node_of(ret, mod), value.id, atom)
