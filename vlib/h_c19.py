"""Helpers of check C19 (rules l, m, n): pure ast / CFG, nothing of the analysed library is executed."""
from __future__ import annotations

import ast
from typing import Callable, Iterator, Optional

from . import loops
from .cfg import CFG, reaching_defs
from .core import norm


# ------------------------------------------------------------------------------------------------ small syntax helpers
def strip_cast(e: ast.AST) -> ast.AST:
    """cast(T, x) / typing.cast(T, x) -> x (repeatedly)."""
    while isinstance(e, ast.Call) and len(e.args) == 2 and not e.keywords and (
        (isinstance(e.func, ast.Name) and e.func.id == "cast") or (isinstance(e.func, ast.Attribute) and e.func.attr == "cast")
    ):
        e = e.args[1]
    return e


def is_rest_value_lookup(e: ast.AST) -> bool:
    """<g>.value(x, RDF.rest) (positional or subject=/predicate= keywords): the successor cell of x."""
    e = strip_cast(e)
    if not (isinstance(e, ast.Call) and isinstance(e.func, ast.Attribute) and e.func.attr == "value"):
        return False
    pred = e.args[1] if len(e.args) >= 2 else next((k.value for k in e.keywords if k.arg == "predicate"), None)
    return pred is not None and loops._is_rest(pred)


def assigned_value(st: ast.AST, var: str) -> Optional[ast.AST]:
    """The expression bound to the plain name `var` by statement st (None when st binds it in another way)."""
    if isinstance(st, ast.Assign) and any(isinstance(t, ast.Name) and t.id == var for t in st.targets):
        return st.value
    if isinstance(st, ast.AnnAssign) and isinstance(st.target, ast.Name) and st.target.id == var:
        return st.value
    return None


def binds(st: Optional[ast.AST], var: str) -> bool:
    """Does the CFG statement st (re)bind the plain name var?  (heads of compound statements: only their own part)"""
    if st is None:
        return False
    if isinstance(st, (ast.If, ast.While)):
        part: list[ast.AST] = [st.test]
    elif isinstance(st, (ast.For, ast.AsyncFor)):
        part = [st.target, st.iter]
    elif isinstance(st, (ast.With, ast.AsyncWith)):
        part = list(st.items)
    elif isinstance(st, (ast.FunctionDef, ast.AsyncFunctionDef, ast.ClassDef)):
        return st.name == var
    else:
        part = [st]
    return any(isinstance(n, ast.Name) and n.id == var and isinstance(n.ctx, (ast.Store, ast.Del)) for p in part for n in ast.walk(p))


# ------------------------------------------------------------------------------------------------ `k > 0` on every path
def _cmp_sign(c: ast.AST, var: str) -> Optional[str]:
    """'pos' when the comparison says var > 0, 'nonpos' when it says var <= 0, 'nz' / 'z' for != 0 / == 0."""
    if not (isinstance(c, ast.Compare) and len(c.ops) == 1):
        return None
    l, op, r = c.left, c.ops[0], c.comparators[0]

    def num(e):
        return e.value if isinstance(e, ast.Constant) and isinstance(e.value, int) and not isinstance(e.value, bool) else None

    if isinstance(l, ast.Name) and l.id == var and num(r) is not None:
        k = num(r)
    elif isinstance(r, ast.Name) and r.id == var and num(l) is not None:
        k = num(l)
        op = {ast.Lt: ast.Gt, ast.Gt: ast.Lt, ast.LtE: ast.GtE, ast.GtE: ast.LtE}.get(type(op), type(op))()
    else:
        return None
    if (isinstance(op, ast.Gt) and k >= 0) or (isinstance(op, ast.GtE) and k >= 1):
        return "pos"
    if (isinstance(op, ast.LtE) and k <= 0) or (isinstance(op, ast.Lt) and k <= 1):
        return "nonpos"
    if isinstance(op, ast.NotEq) and k == 0:
        return "nz"
    if isinstance(op, ast.Eq) and k == 0:
        return "z"
    return None


def edge_implies_positive(test: ast.expr, taken: bool, var: str) -> bool:
    """Does leaving `test` by its true (taken) / false edge establish var > 0?  (var is known to be a normalised,
    non-negative index where `!= 0` / `== 0` are used: rule C19.h keeps that normalisation in place)"""
    if taken:
        if isinstance(test, ast.BoolOp) and isinstance(test.op, ast.And):
            return any(edge_implies_positive(v, True, var) for v in test.values)
        if isinstance(test, ast.UnaryOp) and isinstance(test.op, ast.Not):
            return edge_implies_positive(test.operand, False, var)
        return _cmp_sign(test, var) in ("pos", "nz")
    if isinstance(test, ast.BoolOp) and isinstance(test.op, ast.Or):
        return any(edge_implies_positive(v, False, var) for v in test.values)
    if isinstance(test, ast.UnaryOp) and isinstance(test.op, ast.Not):
        return edge_implies_positive(test.operand, True, var)
    return _cmp_sign(test, var) in ("nonpos", "z")


def positive_on_every_path(g: CFG, target: int, var: str) -> bool:
    """On every path entry -> target, the last thing that happened to `var` is a branch edge that establishes var > 0
    (no re-binding of var in between).  One-bit forward data flow over the CFG."""
    start = (g.entry, False)
    seen = {start}
    stack = [start]
    while stack:
        nid, known = stack.pop()
        if nid == target and not known:
            return False
        node = g.nodes[nid]
        st = node.ast
        if binds(st, var):
            known = False
        for m in g.succ[nid]:
            lab = g.edge_label.get((nid, m), "")
            k2 = known
            if node.kind == "test" and isinstance(st, (ast.If, ast.While)) and lab != "exc":
                # unlabelled / "false" edges of a test node are its false edges; "back" edges never leave a test node
                taken = lab == "true"
                if edge_implies_positive(st.test, taken, var):
                    k2 = True
            s2 = (m, k2)
            if s2 not in seen:
                seen.add(s2)
                stack.append(s2)
    return True


# ------------------------------------------------------------------------------------------------ can this name be the head?
def head_possible(g: CFG, mod, at: ast.AST, subj: ast.AST, head_attr: str = "uri", depth: int = 0) -> list[str]:
    """Reasons why the expression `subj`, evaluated at CFG statement of `at`, may denote the list node itself
    (self.<head_attr>).  Empty list = it provably is a cell other than the head:
      * the value of an rdf:rest lookup (a successor cell), or
      * self._get_container(k) with k > 0 established on every path to `at` and k not re-bound since.
    Names are resolved by reaching definitions (copies are followed)."""
    subj = strip_cast(subj)
    target = g.node_of(at, mod)
    if is_rest_value_lookup(subj):
        return []
    # ... or the removal sits on the side of a comparison with the list node that excludes it:
    # `if x == self.uri: <links only> else: remove((x, None, None))` / `if x != self.uri: remove(...)`
    if depth == 0:
        sx, head = norm(subj), "self.%s" % head_attr
        for p_ in mod.parents(at):
            if isinstance(p_, (ast.FunctionDef, ast.For, ast.While)):
                break
            if isinstance(p_, ast.If) and isinstance(p_.test, ast.Compare) and len(p_.test.ops) == 1 and {norm(p_.test.left), norm(p_.test.comparators[0])} == {sx, head}:
                in_body = any(at is x for s_ in p_.body for x in ast.walk(s_))
                rebound = any(isinstance(a, ast.Assign) and any(norm(t) == sx for t in a.targets) and a.lineno < getattr(at, "lineno", 0)
                              for s_ in (p_.body if in_body else p_.orelse) for a in ast.walk(s_))
                if not rebound and ((isinstance(p_.test.ops[0], ast.Eq) and not in_body) or (isinstance(p_.test.ops[0], ast.NotEq) and in_body)):
                    return []
    if isinstance(subj, ast.Call) and isinstance(subj.func, ast.Attribute) and subj.func.attr == "_get_container" and len(subj.args) == 1 and not subj.keywords:
        k = subj.args[0]
        if isinstance(k, ast.Name):
            if positive_on_every_path(g, target, k.id):
                return []
            return ["_get_container(%s) where %s > 0 is not established on every path (for %s == 0 the cell is the list node itself)" % (k.id, k.id, k.id)]
        if isinstance(k, ast.Constant) and isinstance(k.value, int) and k.value > 0:
            return []
        return ["_get_container(%s): the index is not a plain name tested > 0" % norm(k)]
    if isinstance(subj, ast.Attribute) and isinstance(subj.value, ast.Name) and subj.value.id == "self" and subj.attr == head_attr:
        return ["self.%s is the list node" % head_attr]
    if isinstance(subj, ast.Name):
        if depth > 4:
            return ["%s: definition chain too long to resolve" % subj.id]
        out: list[str] = []
        for d in sorted(reaching_defs(g, target, subj.id)):
            if d == g.entry:
                out.append("%s holds its value from function entry" % subj.id)
                continue
            st = g.nodes[d].ast
            val = assigned_value(st, subj.id) if st is not None else None
            if val is None:
                out.append("%s bound by `%s`" % (subj.id, norm(st)[:60] if st is not None else "?"))
                continue
            # a positivity fact about the index must hold at the USE (the removal), the shape of the value at its definition
            v = strip_cast(val)
            if isinstance(v, ast.Call) and isinstance(v.func, ast.Attribute) and v.func.attr == "_get_container":
                # the index name must not be re-bound between this definition and the use either: positive_on_every_path
                # (evaluated at the use) already kills the fact at every re-binding
                out += head_possible(g, mod, at, v, head_attr, depth + 1)
            else:
                out += head_possible(g, mod, st, v, head_attr, depth + 1)
        return out
    return ["%s: not a successor-cell lookup" % norm(subj)[:60]]


# ------------------------------------------------------------------------------------------------ cycle guard that raises
def _loop_assigns(loop: ast.AST) -> Iterator[tuple[ast.AST, str, ast.AST]]:
    for a in ast.walk(loop):
        if isinstance(a, ast.Assign):
            for t in a.targets:
                if isinstance(t, ast.Name):
                    yield a, t.id, a.value
        elif isinstance(a, (ast.AnnAssign, ast.NamedExpr)) and isinstance(a.target, ast.Name) and a.value is not None:
            yield a, a.target.id, a.value


def raising_cycle_guard(g: CFG, mod, loop: ast.While, cursor: str) -> tuple[bool, str]:
    """Does the walk `loop` over `cursor` RAISE when it meets a cell again?
      * an `if X in V:` inside the loop whose body raises, X being the cursor (or the temporary the cursor is advanced from),
      * V.add(X) / V.append(X) inside the loop,
      * no path from an advance of the cursor to the next rdf:rest lookup of it that avoids that test."""
    temps = {cursor}
    for a, tgt, val in _loop_assigns(loop):
        if tgt != cursor and loops._rest_lookup_of(val, cursor):
            temps.add(tgt)
    guards = []
    for t in ast.walk(loop):
        if not isinstance(t, ast.If):
            continue
        raises = any(isinstance(x, ast.Raise) for s in t.body for x in ast.walk(s))
        if not raises:
            continue
        for c in ast.walk(t.test):
            if isinstance(c, ast.Compare) and len(c.ops) == 1 and isinstance(c.ops[0], ast.In) and isinstance(c.left, ast.Name) and c.left.id in temps:
                coll = norm(c.comparators[0])
                fed = any(isinstance(x, ast.Call) and isinstance(x.func, ast.Attribute) and x.func.attr in ("add", "append") and norm(x.func.value) == coll
                          and x.args and isinstance(x.args[0], ast.Name) and x.args[0].id in temps for x in ast.walk(loop))
                if fed:
                    guards.append((t, coll))
    if not guards:
        return False, "no `if <cell> in <visited>: raise` fed by every step"
    gids = {g.node_of(t) for t, _ in guards}
    advances = [a for a, tgt, val in _loop_assigns(loop) if tgt == cursor and not (isinstance(val, ast.Constant) and val.value is None) and isinstance(a, (ast.Assign, ast.AnnAssign))]
    lookups = [a for a, tgt, val in _loop_assigns(loop) if loops._rest_lookup_of(val, cursor) and isinstance(a, (ast.Assign, ast.AnnAssign))]
    if not advances or not lookups:
        return False, "cursor advance / rdf:rest lookup not found as statements"
    lids = {g.node_of(a) for a in lookups}
    for a in advances:
        if g.reach(g.node_of(a), avoid=gids) & lids:
            return False, "a path from `%s` reaches the next rdf:rest lookup without passing the visited test" % norm(a)[:60]
    return True, "visited-set %s: meeting a cell again raises, on every path between two steps" % guards[0][1]
