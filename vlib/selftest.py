"""Thorough tier = the quick rules on the tree under analysis PLUS the checker's
own two-sided self-test, all static (nothing is executed):

* breaking variants  - every kept seeded change and every revert-of-fix under
  /verif/seeded whose MATRIX entry lists this property: the patch is applied to
  a scratch copy of the CURRENT tree (outside /repo and /verif, removed
  afterwards) and this property's check must report a VIOLATION there;
* behaviour-preserving variants - computed from the current source with `ast`:
  (K1) every file the check analysed is re-emitted by ast.unparse (all
  formatting, comments and line numbers change), (K2) three comment lines are
  prepended to every analysed file (pure line shift), (K3) every docstring and
  bare string statement is removed, (K4) locals renamed; and, hand-made, every
  refactoring kept under seeded/P-<this property>-<n> (extract/inline/split,
  guard clauses, dispatch tables, ... written by agents that saw only the
  property text); the check must stay silent on each (same exit code as on the
  unmodified tree and no new violation).

A variant whose patch no longer applies to the tree under analysis (because the
tree itself was changed there) is reported as `stale` and not counted.  A
breaking variant that is not reported, or a preserving variant that raises an
alarm, makes the thorough run fail with exit 2 (SELFTEST-FAILED): the checker
is then broken and nothing it says should be believed.
"""
from __future__ import annotations

import ast
import json
import os
import shutil
import subprocess
import sys
import tempfile
import time
from concurrent.futures import ThreadPoolExecutor
from pathlib import Path

from .core import EVID_DIR, PY, REPO_ROOT, VERIF, run_check


def _scratch() -> Path:
    d = Path(tempfile.mkdtemp(prefix="verif-selftest."))
    shutil.copytree(REPO_ROOT / "rdflib", d / "rdflib", ignore=shutil.ignore_patterns("__pycache__"))
    return d


def _run(pid: str, root: Path) -> tuple[int, list[str]]:
    env = dict(os.environ, VERIF_REPO=str(root), VERIF_EVIDENCE_DIR=str(root / "ev"), VERIF_TIER="quick")
    r = subprocess.run([PY, str(VERIF / "check.py"), pid, "--tier", "quick"], capture_output=True, text=True, env=env)
    lines = [l for l in r.stdout.splitlines() if l.startswith(("VIOLATION", "ANALYSIS-ERROR", "KNOWN-FINDING"))]
    return r.returncode, lines


def _strip_docstrings(tree: ast.AST) -> ast.AST:
    for n in ast.walk(tree):
        body = getattr(n, "body", None)
        if isinstance(body, list):
            nb = [s for s in body if not (isinstance(s, ast.Expr) and isinstance(s.value, ast.Constant) and isinstance(s.value.value, str))]
            if not nb:
                nb = [ast.Pass()]
            n.body = nb
    return tree


class _RenameLocals(ast.NodeTransformer):
    """K4: inside every function, consistently rename each local variable (a name the function binds that is not a
    parameter, global/nonlocal, or a parameter of a nested def/lambda) to <name>_rn.  Purely alpha-renaming."""

    def visit_FunctionDef(self, node: ast.FunctionDef):  # outermost functions only
        if any(isinstance(n, (ast.ClassDef, ast.Global, ast.Nonlocal)) for n in ast.walk(node)):
            return node
        if any(isinstance(n, ast.Call) and isinstance(n.func, ast.Name) and n.func.id in ("locals", "vars", "exec", "eval") for n in ast.walk(node)):
            return node
        params = set()
        for n in ast.walk(node):
            if isinstance(n, ast.arguments):
                for a in n.posonlyargs + n.args + n.kwonlyargs + ([n.vararg] if n.vararg else []) + ([n.kwarg] if n.kwarg else []):
                    params.add(a.arg)
        nested_names = {n.name for n in ast.walk(node) if isinstance(n, (ast.FunctionDef, ast.AsyncFunctionDef)) and n is not node}
        bound = {n.id for n in ast.walk(node) if isinstance(n, ast.Name) and isinstance(n.ctx, (ast.Store, ast.Del))}
        for n in ast.walk(node):
            if isinstance(n, ast.ExceptHandler) and n.name:
                params.add(n.name)  # keep handler names (bound by the except clause, a str not a Name)
            if isinstance(n, (ast.Import, ast.ImportFrom)):
                for a in n.names:
                    params.add((a.asname or a.name).split(".")[0])
            if isinstance(n, ast.MatchAs) and n.name:
                params.add(n.name)
        ren = {b: b + "_rn" for b in bound - params - nested_names if not b.startswith("__")}
        for n in ast.walk(node):
            if isinstance(n, ast.Name) and n.id in ren:
                n.id = ren[n.id]
        return node

    visit_AsyncFunctionDef = visit_FunctionDef


def _preserving(kind: str, files: list[str], root: Path) -> None:
    for rel in files:
        p = root / rel
        src = p.read_text(encoding="utf-8")
        if kind == "K1-unparse":
            out = ast.unparse(ast.parse(src)) + "\n"
        elif kind == "K2-lineshift":
            out = "# selftest line shift 1\n# selftest line shift 2\n# selftest line shift 3\n" + src
            # keep `from __future__` first: comments before it are fine
        elif kind == "K3-nodocstrings":
            out = ast.unparse(ast.fix_missing_locations(_strip_docstrings(ast.parse(src)))) + "\n"
        elif kind == "K4-rename-locals":
            tree = ast.parse(src)
            # methods and functions at module / class level (nested ones are renamed with their parent)
            tr = _RenameLocals()
            for n in ast.walk(tree):
                if isinstance(n, (ast.Module, ast.ClassDef)):
                    n.body = [tr.visit_FunctionDef(b) if isinstance(b, (ast.FunctionDef, ast.AsyncFunctionDef)) else b for b in n.body]
            out = ast.unparse(ast.fix_missing_locations(tree)) + "\n"
        else:
            raise ValueError(kind)
        p.write_text(out, encoding="utf-8")


def run_thorough(pid: str, mod) -> int:
    t0 = time.time()
    rc = run_check(pid, lambda repo, rep: mod.run(repo, rep), "thorough")
    ev_path = EVID_DIR / ("%s.json" % pid)
    if rc == 2:
        return rc
    ev = json.load(open(ev_path))
    analysed_files = list(ev["coverage"].get("files_with_rule_instances", []))
    # baseline on the tree under analysis
    base_rc, base_lines = rc, []
    mx_path = VERIF / "seeded" / "MATRIX.json"
    mx = json.load(open(mx_path)) if mx_path.exists() else {}
    breaking = sorted(s for s, m in mx.items() if pid in m.get("caught_by", []))
    keeps = ["K1-unparse", "K2-lineshift", "K3-nodocstrings", "K4-rename-locals"]
    # hand-made behaviour-preserving refactorings of the code this property is anchored in (seeded/P-<pid>-<n>, DESIGN §14)
    refactorings = sorted(p.name for p in (VERIF / "seeded").glob("P-%s-*" % pid)
                          if (p / "patch.diff").exists() and "obsolete" not in json.load(open(p / "meta.json")))

    def do_break(sid: str):
        d = _scratch()
        try:
            subprocess.run(["git", "init", "-q", "."], cwd=d, capture_output=True)
            r = subprocess.run(["git", "apply", "--whitespace=nowarn", str(VERIF / "seeded" / sid / "patch.diff")], cwd=d, capture_output=True, text=True)
            if r.returncode != 0:
                return sid, "stale", "patch does not apply to the tree under analysis"
            c, lines = _run(pid, d)
            viol = [l for l in lines if l.startswith("VIOLATION")]
            if c == 1 and viol:
                return sid, "fired", viol[0].split("# ", 1)[-1][:200]
            return sid, "MISSED", "exit %d: %s" % (c, (lines or ["no report"])[0][:200])
        finally:
            shutil.rmtree(d, ignore_errors=True)

    def do_keep(kind: str):
        d = _scratch()
        try:
            if kind.startswith("P-"):
                subprocess.run(["git", "init", "-q", "."], cwd=d, capture_output=True)
                r = subprocess.run(["git", "apply", "--whitespace=nowarn", str(VERIF / "seeded" / kind / "patch.diff")], cwd=d, capture_output=True, text=True)
                if r.returncode != 0:
                    return kind, "stale", "patch does not apply to the tree under analysis"
            else:
                _preserving(kind, [f for f in analysed_files if (d / f).exists()], d)
            c, lines = _run(pid, d)
            viol = [l for l in lines if l.startswith(("VIOLATION", "ANALYSIS-ERROR"))]
            if c == base_rc and (c == 1 or not viol):
                return kind, "silent", "exit %d as on the unmodified tree" % c
            return kind, "FALSE-ALARM", "exit %d (unmodified tree: %d): %s" % (c, base_rc, (viol or ["?"])[0][:300])
        finally:
            shutil.rmtree(d, ignore_errors=True)

    results = []
    with ThreadPoolExecutor(max_workers=min(12, (os.cpu_count() or 4))) as ex:
        fb = [ex.submit(do_break, s) for s in breaking]
        fk = [ex.submit(do_keep, k) for k in keeps + refactorings]
        for f in fb + fk:
            results.append(f.result())
    failed = [r for r in results if r[1] in ("MISSED", "FALSE-ALARM")]
    st = {
        "breaking_variants": len(breaking),
        "fired_as_expected": sum(1 for r in results if r[1] == "fired"),
        "stale_variants": sum(1 for r in results if r[1] == "stale"),
        "preserving_variants": len(keeps) + len(refactorings),
        "silent_as_expected": sum(1 for r in results if r[1] == "silent"),
        "files_rewritten_per_preserving_variant": len(analysed_files),
        "results": [{"variant": a, "verdict": b, "detail": c} for a, b, c in results],
        "wall_s": round(time.time() - t0, 1),
    }
    ev["coverage"]["selftest"] = st
    ev["coverage"]["evaluations"] = ev["coverage"]["evaluations"] + len(results)
    ev["wall_s"] = round(time.time() - t0, 3)
    tmp = str(ev_path) + ".tmp"
    json.dump(ev, open(tmp, "w"), indent=1)
    os.replace(tmp, ev_path)
    print("%s thorough self-test: %d breaking variant(s) (%d fired, %d stale), %d preserving variant(s) (%d silent), %.1fs" % (
        pid, st["breaking_variants"], st["fired_as_expected"], st["stale_variants"], st["preserving_variants"], st["silent_as_expected"], st["wall_s"]))
    for a, b, c in failed:
        print("SELFTEST-FAILED property=%s variant=%s %s: %s" % (pid, a, b, c))
    if failed and rc == 0:
        print("ANALYSIS-ERROR property=%s the checker's self-test failed (%d variant(s)); its verdicts are not to be trusted" % (pid, len(failed)))
        return 2
    return rc
