"""placeholder - replaced below"""
def run_thorough(pid, mod):
    from vlib.core import run_check
    return run_check(pid, lambda repo, rep: mod.run(repo, rep), "thorough")
